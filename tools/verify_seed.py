#!/usr/bin/env python3
"""Confirm candidate seeded changes: suite still passes with the change, demo fails with it
and passes without it.  Usage: verify_seed.py <dir-with-Cxx/mutK> [...]
Works on scratch copies under /tmp (removed afterwards); never touches /repo."""
import concurrent.futures as cf
import json, os, pathlib, shutil, subprocess, sys, tempfile

PY = "/venv/bin/python"


def run(cmd, cwd=None, env=None, timeout=1200):
    e = dict(os.environ)
    if env:
        e.update(env)
    p = subprocess.run(cmd, cwd=cwd, env=e, capture_output=True, text=True, timeout=timeout)
    return p.returncode, (p.stdout + p.stderr)


def verify(mdir):
    mdir = pathlib.Path(mdir)
    res = dict(dir=str(mdir))
    tmp = pathlib.Path(tempfile.mkdtemp(prefix="vseed_"))
    try:
        tree = tmp / "tree"
        run(["git", "-C", "/repo", "worktree", "add", "-q", "--detach", str(tree), "HEAD"])
        rc, out = run(["git", "-C", str(tree), "apply", str(mdir / "patch.diff")])
        res["apply"] = rc == 0
        if rc != 0:
            res["apply_out"] = out[-500:]
            return res
        rc, out = run([PY, "-m", "pytest", "-q", "-p", "no:cacheprovider", "--timeout=900", "-n", "2"],
                      cwd=str(tree), env={"PYTHONPATH": str(tree)})
        tail = out.strip().splitlines()[-1] if out.strip() else ""
        res["suite_ok"] = rc == 0 and "124 passed" in tail
        res["suite_tail"] = tail
        rc, out = run([PY, str(mdir / "demo.py")], cwd=str(tmp), env={"PYTHONPATH": str(tree)})
        res["demo_mut_rc"] = rc
        res["demo_mut_tail"] = out.strip().splitlines()[-1][:300] if out.strip() else ""
        run(["git", "-C", str(tree), "checkout", "--", "."])
        rc, out = run([PY, str(mdir / "demo.py")], cwd=str(tmp), env={"PYTHONPATH": str(tree)})
        res["demo_clean_rc"] = rc
        res["valid"] = bool(res["suite_ok"] and res["demo_mut_rc"] == 1 and res["demo_clean_rc"] == 0)
    finally:
        run(["git", "-C", "/repo", "worktree", "remove", "--force", str(tmp / "tree")])
        shutil.rmtree(tmp, ignore_errors=True)
    return res


if __name__ == "__main__":
    dirs = sys.argv[1:]
    with cf.ThreadPoolExecutor(6) as ex:
        for r in ex.map(verify, dirs):
            print(json.dumps(r))
            sys.stdout.flush()
