#!/usr/bin/env python3
"""Regenerate /verif/MANIFEST.json from the table below (run after adding/removing a check)."""
import json
import pathlib

VERIF = pathlib.Path(__file__).resolve().parent.parent

TRUST = ("CPython ast; name/field-based call resolution (PyXAB uses no getattr/setattr/eval); "
         "nothing from /repo is imported or executed")

CHECKS = {
    "C02": dict(
        engine="E5 absint",
        technique="abstract interpretation of make_children over symbolic boxes (own AST interpreter) + order-graph tiling check",
        text=("Static analysis, sound within bounds: the one-step tiling lemma (arity, containment, exact cover, "
              "bit-identical shared boundaries, own outer faces, equal sizes, centre) of every partition class's "
              "make_children is decided for symbolic boxes lo<hi, every RNG draw incl. end points, K in 2..6 "
              "(thorough 2..8), d in 1..3 (thorough 1..4), plus independence from state left by earlier expansions and "
              "update_children replacing the child list by exactly the cells of the split; "
              "'leaves tile the domain' follows by induction with C03. Floating-point overflow and K,d beyond the "
              "range are not decided."),
        note=TRUST + "; numpy contracts for uniform/linspace/deepcopy; real arithmetic; bit-identity only via identical operation trees",
        ref="DESIGN.md section 4-C02"),
    "C03": dict(
        engine="E5 absint + E2 cfg",
        technique="abstract interpretation (step lemma) + CFG guard/provenance analysis at every make_children site + who-may-write scan",
        text=("Static analysis, inductive: base case (Partition.__init__), one-step preservation of the tree/index "
              "invariant by every make_children (links, labels K(i-1)+1..Ki, exactly one layer event, layer list not "
              "aliased to a child list), and at every make_children/expand call site of the library the two "
              "preconditions 'cell is a leaf' and 'newlayer iff cell is at the deepest level', plus ownership "
              "(nothing in PyXAB/algos writes links or layers). Holds for every history; only K,d of the abstract "
              "runs are bounded."),
        note=TRUST + "; list '+=' extends in place; pull/receive_reward alternate (used by the T-HOO traversal-exit argument only)",
        ref="DESIGN.md section 4-C03"),
    "C14": dict(
        engine="E4 scans + E5 absint",
        technique="source/effect scans over the AST: forbidden-source census, shared-state census, alias+mutation analysis of the user's domain (+E5 for partitions)",
        text=("Static non-interference: in PyXAB/algos and PyXAB/partition there is no clock/entropy/identity/hash-order "
              "source other than np.random.* on the global generator (a set may be built and queried but never iterated), no "
              "class-level/module-level mutable state, mutable "
              "default, global, memoising decorator or store through a class object, and no store/del/in-place op/mutating "
              "method can hit a value aliasing the user's domain. Replay equality and isolation follow from these facts; "
              "they are not observed by running anything."),
        note=TRUST + "; numpy's global generator is deterministic given seed and call sequence; dict order is insertion order",
        ref="DESIGN.md section 4-C14"),
    "C15": dict(
        engine="E4 taint + access summaries",
        technique="taint analysis of the time parameter + read/write effect summaries with must-written dataflow (idempotence of pull)",
        text=("Static non-interference: in the 12 listed algorithms the time argument of pull/receive_reward reaches nothing but "
              "never-read attributes and the time argument of base learners; for T-HOO, HCT, VHCT, Zooming get_last_point is "
              "pull(<const>) and pull is idempotent by effects (no tree growth, no RNG, no read of a location it writes that could "
              "see a pre-call value); POO's query writes no POO state and performs one learner pull. Sound for the stated clause "
              "under a field-based abstraction."),
        note=TRUST + "; cells of one tree are merged per attribute; pull precedes receive_reward in each round",
        ref="DESIGN.md section 4-C15"),
    "C17": dict(
        engine="E6 intervals",
        technique="abstract interpretation of f over intervals (mpmath.iv, outward rounding) + multilinear vertex bound + purity/guard scans",
        text=("Static, sound up to the stated 1e-9 slack: f(x) - fmax <= 1e-9 for every real x of the documented domain (and every "
              "DoubleSine parameter in range) by interval branch-and-bound combined with an exact vertex bound of the multilinear form "
              "in the expression's non-polynomial atoms; enclosure finite; fmax attained at the documented maximiser (Garland within "
              "0.003); f writes nothing, draws nothing and reads only constructor-assigned attributes; the ValueError guard on len(x) "
              "comes first and matches the indices used. Last-ulp behaviour of libm is outside the claim."),
        note=TRUST + "; mpmath.iv encloses elementary functions; path conditions dropped (superset of inputs)",
        ref="DESIGN.md section 4-C17"),
    "C16": dict(
        engine="E5 absint + coordinate typing",
        technique="affine-weight check of abstract-interpretation results (partitions, Node) + coordinate-use typing scan (algorithms)",
        text=("Static, sound in real arithmetic: every child bound/centre produced by any make_children is a weight-one affine "
              "combination of the split cell's own same-axis bounds (and of draws between such), and no split decision looks at "
              "a coordinate; in PyXAB/algos coordinate-bearing values are only stored, returned, forwarded, indexed, iterated, "
              "drawn between, or compared with a coordinate of the same axis - so no decision depends on absolute coordinates. "
              "DOO's default delta is the one frozen exception (checked to be translation-invariant of degree 2 and installed "
              "only as the default). Bit-exactness for dyadic maps is not separately argued."),
        note=TRUST + "; np.random.uniform(a,b)=a+(b-a)U; coordinate sources enumerated in the rule",
        ref="DESIGN.md section 4-C16"),
    "C01": dict(
        engine="E2 cfg + E4 access + E5 absint",
        technique="must-assign dataflow along the protocol automaton + provenance tracing of returned points + E5 geometry (midpoint/containment/sample_uniform)",
        text=("Static necessary conditions of totality and in-domain points: no protocol method of any of the 14 algorithms reads "
              "an instance or cell attribute that is not definitely assigned along __init__ -> (pull -> receive_reward)* -> "
              "get_last_point; every value returned by pull/get_last_point is by provenance a cell midpoint, an in-cell uniform "
              "sample, an arm's stored centre or a learner's proposal (no arithmetic on the way); representatives are midpoints, "
              "children lie inside parents, samples lie between their own bounds (E5). 'Never raises / never hangs' as a whole "
              "quantifies over run-time values and is NOT claimed; further necessary conditions are checked: no None point from pull, "
              "positive arguments of log/sqrt/division in the schedule formulas, constructors and make_children raise on no abstract run, "
              "a constructor branch for every accepted base algorithm of POO/GPO, no ordering of tuples that contain cells. Two known "
              "findings: POO.algo_counter (rhomax < ~0.83) and GPO.pull returning None when floor(n/2N) = 0."),
        note=TRUST + "; pull precedes receive_reward; T within budget; depth caps large enough; np.random.uniform(a,b) in [a,b]",
        ref="DESIGN.md section 4-C01"),
    "C04": dict(
        engine="E2 cfg + E3 summaries + credit-path walker",
        technique="path-wise credit-event analysis of receive_reward + reaching-definition pairing with pull + symbolic method summaries (sympy)",
        text=("Static necessary conditions: on every path of every receive_reward exactly one credit of the reward parameter itself "
              "(cell, chain of cells, learner or running-mean score), zero only in documented finished states; the credited designator "
              "is exactly what pull handed out (attribute substitution at each return, lock-step path/chain construction, same arm key); "
              "each cell class's update_reward equals the reference recording step symbolically and unconditionally; evidence fields have "
              "no other writer (two frozen StroquOOL exceptions). Equality of stored statistics with a replayed history is NOT observed."),
        note=TRUST + "; pull/receive_reward alternate; cells merged per attribute; sympy single-expression equivalence",
        ref="DESIGN.md section 4-C04"),
    "C05": dict(
        engine="E3 summaries + E7 idioms + E2 cfg",
        technique="symbolic method summaries + sympy equivalence against the published formulas; structural recognisers for the B recursion, the descent and the refresh order",
        text=("Static necessary conditions: the stored U-value equals the published index (T-HOO, HCT, VHCT) as a symbolic identity, "
              "infinite for never-pulled cells, with parameters reaching it unchanged; t+, delta~, c1, tau_h match the published "
              "formulas and HCT thresholds are rebuilt every traversal; B = U at leaves and min(U, max over all children of B) elsewhere, "
              "bottom-up; the descent starts at the root, continues exactly under the published condition and steps to an arg-max-B "
              "child; every U write is followed by back-propagation; the cell statistics U is built from (count, mean, clipped variance) are "
              "the empirical ones; the cap of delta~ is the reference one per use (1/2 for thresholds, 1 for widths). NOT decided: that U/B are up to date w.r.t. the raw history at "
              "every round."),
        note=TRUST + "; positive parameters; sympy single-expression equivalence (numeric identity test at rational points as fallback); VHCT threshold pinned",
        ref="DESIGN.md section 4-C05"),
    "C06": dict(
        engine="E2 cfg + E3 + call-site rules",
        technique="call-graph site census + dominating-guard comparison with the published expansion predicates (sympy) + constructor scans",
        text=("Static necessary conditions for T-HOO, HCT, VHCT: one expansion site per round, outside loops, on the handed-out "
              "cell, leaf-guarded; pull/get_last_point add no cells; the guards dominating the expansion are exactly the published "
              "rule (T-HOO depth bound as a symbolic identity; HCT/VHCT leaf and pulls >= tau with the C05 threshold formulas); new "
              "cells start with zero pulls, infinite U/B and a fresh reward list; the root is split once at construction; the pull count and "
              "variance compared by the predicate are the empirical ones and delta~ in a threshold is capped at 1/2. The numeric "
              "depth of a run is NOT decided."),
        note=TRUST + "; positive parameters; pull/receive_reward alternate",
        ref="DESIGN.md section 4-C06"),
    "C07": dict(
        engine="E7 idioms + E3 summaries",
        technique="arg-max fold recognition + candidate-set/key resolution + sentinel/hand-out rules + delegation shape checks",
        text=("Static necessary conditions: each recommendation is an arg-max (direction, key resolved to the recorded attribute, "
              "seed -inf, full candidate set) returning the winner's representative; never-evaluated cells cannot win (sentinel / "
              "hand-out rule / mean conventions); POO/GPO return the arg-max-score learner's proposal / validated point; PCT/VPCT are "
              "pure forwards; rewards are recorded unconditionally on the cell that was handed out (C04's ONCE/NODE/PAIR rules for these "
              "algorithms, incl. that the finished state is not entered while a cell is still handed out); the scores compared by POO/GPO "
              "are the documented means (C09/C10's mean rules). 'Whatever the sign of "
              "the rewards' is covered only through the sentinel rule."),
        note=TRUST + "; ties may resolve either way",
        ref="DESIGN.md section 4-C07"),
    "C09": dict(
        engine="E3 + E2 cfg + routing",
        technique="sympy equivalence of the schedule formulas + CFG guard analysis of the phase machine + routing agreement pull/receive_reward",
        text=("Static necessary conditions: N, D_max, phase length and the rho grid equal the published formulas; learners are created "
              "only at counter == 0 while phases remain, with (nu_max, rho_i) and the caller's arguments; pull and receive_reward route "
              "by the same guards to the same learner and pull writes no schedule state; the counter advances once per unfinished "
              "round after the credit and the phase rolls over exactly at 2*floor(n/2N); validation slots, running-mean score with "
              "count counter-half, final arg-max; PCT/VPCT pure forwards. The schedule as a concrete time series is NOT enumerated."),
        note=TRUST + "; positive parameters; pull/receive_reward alternate",
        ref="DESIGN.md section 4-C09"),
    "C10": dict(
        engine="routing + E3 + E2 cfg",
        technique="routing agreement analysis + append-only/index/running-mean shape checks + sympy formula equivalence",
        text=("Static necessary conditions: one learner per path in pull and in receive_reward, identical designators on consistent "
              "paths, no schedule state written by pull; learners only appended (with score 0 / count 0, under counter == 0) and built "
              "with nu_max, the rho grid and the caller's arguments; score and count updated at the rewarded learner's own index; "
              "creation-stage score is a running mean over the per-learner counter, round-robin weight is ceil(n/N) of the current n, "
              "N; recommendation = V_algo[argmax V_reward].pull without writing POO state. NOT decided: ceil(n/N) == reward count "
              "(schedule invariant over histories), numeric distinctness of rho values."),
        note=TRUST + "; rhomax >= 0.84 (smaller: C01 known finding); pull/receive_reward alternate",
        ref="DESIGN.md section 4-C10"),
    "C11": dict(
        engine="E7 idioms + E3 + E2 cfg + E5 absint",
        technique="arg-max fold recognition + sympy equivalence of index/radius formulas + abstract interpretation of the hand-over code (symbolic children boxes and arm, all comparison outcomes)",
        text=("Static necessary conditions: pull is an unfiltered arg-max over all active arms of mean + 2*sqrt(8*phase/(2+pulls)); "
              "the arm's mean is a running mean over its own count; refinement happens on the pulled arm's cell exactly when the "
              "radius <= nu*rho^depth (this round's phase); after refinement - decided by executing the hand-over code on K symbolic "
              "children and a symbolic arm for every outcome of the coordinate comparisons - every child is the cell of exactly one arm: "
              "the refined arm goes to the first child whose closed box contains it, every other child gets a new arm at its centre with "
              "zero statistics, nothing else changes; arms are never removed; initially layer 1 is covered. "
              "Coverage as a geometric run-time fact follows with C02 and is NOT observed."),
        note=TRUST + "; C02 tiling lemma; positive parameters",
        ref="DESIGN.md section 4-C11"),
    "C12": dict(
        engine="structural rules + E7 idioms",
        technique="structural pattern rules over SequOOL's schedule code (normalised statements) + arg-max fold recognition",
        text=("Static necessary conditions (thin row): H_n and h_max = floor(n/H_n) formulas, budget = floor(h_max/depth) at every depth "
              "advance; all opening code under the depth cap, exhausted branch hands out the root centre and touches nothing; the opened "
              "cell is the arg-max-first-reward unopened cell of the current depth; children are handed out one per pull in index "
              "order, each stored as the cell to credit and as a searched point; the last child closes the opening; searched points "
              "change nowhere else. The order of openings over a run is NOT decided."),
        note=TRUST + "; statement-set patterns: a behaviour-preserving rewrite of the hand-out block may need the pattern extended",
        ref="DESIGN.md section 4-C12"),
    "C13": dict(
        engine="structural rules + E3",
        technique="structural pattern rules + sympy equivalence of the rank key / weights + lock-step chain analysis",
        text=("Static necessary conditions (thin row): ranks are position+1 in a descending stable sort by the published lower "
              "confidence value (a permutation by construction); weights 1/(h r C) over depths 1..floor(log2 n) with the matching "
              "normaliser; the cell is drawn by np.random.choice with those weights; the credited chain starts at the drawn cell and "
              "descends child by child to the cap; the point is a uniform sample of the last cell. The probabilities as numbers and "
              "non-binary partitions are NOT decided."),
        note=TRUST + "; binary-child partitions; statement-set patterns",
        ref="DESIGN.md section 4-C13"),
    "C08": dict(
        engine="E2 cfg + E7 idioms + E3",
        technique="CFG guard facts at hand-out/expansion sites + arg-max fold recognition + sympy equivalence of the b formulas",
        text=("Static necessary conditions (thin row): evaluate-once guards and marking (SOO, DOO), k-cap (StoSOO); the expansion "
              "candidate is an arg-max over leaves guarded as evaluated, of reward / b / reward+delta(depth) with the published b "
              "formulas and recomputation before comparison; sweep thresholds v_max / b_max present, reset per sweep and raised on "
              "expansion; DOO one expansion per completed sweep; depth cap in the sweep bound. The order of expansions over a run is "
              "NOT decided."),
        note=TRUST + "; statement-level patterns for the sweep; pull/receive_reward alternate",
        ref="DESIGN.md section 4-C08"),
}

NOT_YET = "checker under construction in this round (see DESIGN.md section 0 for the clause it will decide)"

ALL = ["C%02d" % i for i in range(1, 18)]


def main():
    checks = []
    for pid in ALL:
        if pid not in CHECKS:
            continue
        c = CHECKS[pid]
        checks.append(dict(
            property_id=pid,
            quick_cmd="python3-vt check.py --property %s --tier quick" % pid,
            thorough_cmd="python3-vt check.py --property %s --tier thorough" % pid,
            evidence_file="/verif/evidence/%s.json" % pid,
            replay_cmd_template="cat {path}",
            engine=c["engine"],
            level_claimed=dict(category="other", text=c["text"], design_ref=c["ref"]),
            level_note=c["note"],
            technique=c["technique"],
        ))
    na = [dict(property_id=p, reason=NA.get(p, NOT_YET)) for p in ALL if p not in CHECKS]
    m = dict(
        version=1,
        setup_cmd="python3-vt -c \"import sympy, networkx, mpmath, ast; print('static-analysis toolchain ok')\"",
        hooks=dict(guard="PYXAB_VERIF",
                   enable="none: static analysis reads /repo's source; no instrumentation exists, the variable is unused",
                   baseline_off_cmd="cd /repo && /venv/bin/python -m pytest -ra -q -p no:cacheprovider --timeout=900 --continue-on-collection-errors",
                   source_commits=[], add_only=True),
        engines=[
            dict(name="E1 model", path="pyxab_static/model.py", serves_properties=ALL, kind_free_text="ast program model, MRO, call resolution"),
            dict(name="E2 cfg", path="pyxab_static/cfg.py", serves_properties=["C01", "C03", "C04", "C05", "C06", "C07", "C08", "C09", "C10", "C11", "C12", "C13", "C15"],
                 kind_free_text="statement-level CFG on networkx: dominating guards, reaching definitions, must-pass-through"),
            dict(name="E5 absint", path="pyxab_static/absint.py", serves_properties=["C01", "C02", "C03", "C11", "C14", "C16"],
                 kind_free_text="one-step abstract interpreter of PyXAB code (make_children, Zooming hand-over) over symbolic terms"),
            dict(name="E0 normaliser", path="pyxab_static/normalize.py", serves_properties=["C%02d" % k for k in range(1, 18)],
                 kind_free_text="semantics-preserving canonicalisation of the analysed AST (helper inlining, loop forms, temporaries)"),
            dict(name="path walker", path="pyxab_static/credit.py", serves_properties=["C04", "C07", "C09", "C10", "C12", "C13", "C15"],
                 kind_free_text="path enumeration of pull/receive_reward with per-path alias environments, atomic conditions, entry-state rendering"),
        ],
        checks=checks,
        not_applicable=na,
        notes=("All checks are static analysis of /repo's working tree (python3-vt check.py --property Cxx). Exit 0 = all "
               "obligations discharged, 1 = VIOLATION, 2 = ANALYSIS-ERROR (anchor vanished / unsupported construct; "
               "fail-closed). Known findings: known_findings.json. Validation corpora: seeded/ (353 breaking changes, tools/run_seeded.py), "
               "benign/ (270 behaviour-preserving refactorings, tools/run_benign.py), selftest/ (132 edits)."),
    )
    (VERIF / "MANIFEST.json").write_text(json.dumps(m, indent=1))
    print("MANIFEST.json: %d checks, %d not_applicable" % (len(checks), len(na)))


NA = {}

if __name__ == "__main__":
    main()
