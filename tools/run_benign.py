#!/usr/bin/env python3
"""Run every registered check against every behaviour-preserving refactoring in benign/ (scratch copies).
Any exit != 0 is a false alarm (or an analysis failure) of that check."""
import concurrent.futures as cf, json, os, pathlib, shutil, subprocess, sys, tempfile
VERIF = pathlib.Path(__file__).resolve().parent.parent
props = [c["property_id"] for c in json.loads((VERIF / "MANIFEST.json").read_text())["checks"]]
if os.environ.get("PYXAB_BENIGN_PROPS"):        # restrict to some checks (after a change that only touches their rules)
    props = [p for p in props if p in os.environ["PYXAB_BENIGN_PROPS"].split(",")]
ids = sys.argv[1:] or sorted(p.name for p in (VERIF / "benign").iterdir() if (p / "patch.diff").exists())

def one(bid):
    tmp = pathlib.Path(tempfile.mkdtemp(prefix="ben_"))
    out = []
    try:
        shutil.copytree("/repo/PyXAB", tmp / "PyXAB", ignore=shutil.ignore_patterns("__pycache__", "tests"))
        p = subprocess.run(["patch", "-p1", "-s", "-d", str(tmp), "-i", str(VERIF / "benign" / bid / "patch.diff")], capture_output=True, text=True)
        if p.returncode:
            return [(bid, "-", "PATCH-FAILED", "")]
        def chk(prop):
            env = dict(os.environ, PYXAB_EVIDENCE_DIR=str(tmp / "ev" / prop), PYXAB_CHECK_TIMEOUT="300")
            r = subprocess.run(["python3-vt", str(VERIF / "check.py"), "--property", prop, "--repo", str(tmp), "--no-selftest"],
                               capture_output=True, text=True, env=env, cwd=str(VERIF))
            lines = [l.strip() for l in r.stdout.splitlines() if l.startswith("  ") or l.startswith("ANALYSIS-ERROR")]
            return (bid, prop, r.returncode, lines[0][:260] if lines else "")
        with cf.ThreadPoolExecutor(4) as ex:
            out = list(ex.map(chk, props))
    finally:
        shutil.rmtree(tmp, ignore_errors=True)
    return out

bad = 0
with cf.ThreadPoolExecutor(4) as ex:
    for res in ex.map(one, ids):
        al = [r for r in res if r[2] != 0]
        print("%-10s %s" % (res[0][0], "silent on all %d checks" % len(res) if not al else "ALARMS: %d" % len(al)))
        for r in al:
            bad += 1
            print("      %s exit=%s %s" % (r[1], r[2], r[3]))
print("false alarms / analysis failures: %d" % bad)
