#!/usr/bin/env python3
"""Run the registered checks against seeded changes (on scratch copies of /repo, never /repo itself).

    tools/run_seeded.py [--all-props] [--props C02,C03] [ids...]

Default: each change is checked with the check of the property it was written to break.
Prints one line per (change, property): exit code and the first finding.
"""
import concurrent.futures as cf
import json, os, pathlib, shutil, subprocess, sys, tempfile

VERIF = pathlib.Path(__file__).resolve().parent.parent


def claimed():
    m = json.loads((VERIF / "MANIFEST.json").read_text())
    return [c["property_id"] for c in m["checks"]]


def one(args):
    sid, props, tier = args
    d = VERIF / "seeded" / sid
    tmp = pathlib.Path(tempfile.mkdtemp(prefix="seed_"))
    out = []
    try:
        shutil.copytree("/repo/PyXAB", tmp / "PyXAB", ignore=shutil.ignore_patterns("__pycache__", "tests"))
        p = subprocess.run(["patch", "-p1", "-s", "-d", str(tmp), "-i", str(d / "patch.diff")], capture_output=True, text=True)
        if p.returncode != 0:
            return [(sid, "-", "PATCH-FAILED", p.stdout[-200:] + p.stderr[-200:])]
        for prop in props:
            env = dict(os.environ, PYXAB_EVIDENCE_DIR=str(tmp / "ev"))
            r = subprocess.run(["python3-vt", str(VERIF / "check.py"), "--property", prop, "--repo", str(tmp), "--tier", tier, "--no-selftest"],
                               capture_output=True, text=True, env=dict(env, PYXAB_CHECK_TIMEOUT="180"), cwd=str(VERIF))
            lines = [l for l in r.stdout.splitlines() if l.startswith("  ") or l.startswith("ANALYSIS-ERROR")]
            out.append((sid, prop, r.returncode, (lines[0].strip()[:230] if lines else "")))
    finally:
        shutil.rmtree(tmp, ignore_errors=True)
    return out


if __name__ == "__main__":
    argv = sys.argv[1:]
    allp = "--all-props" in argv
    tier = "thorough" if "--thorough" in argv else "quick"
    props = None
    ids = []
    it = iter(argv)
    for a in it:
        if a == "--props":
            props = next(it).split(",")
        elif a.startswith("--"):
            continue
        else:
            ids.append(a)
    if not ids:
        ids = sorted(p.name for p in (VERIF / "seeded").iterdir() if (p / "patch.diff").exists())
    cl = claimed()
    jobs = []
    for sid in ids:
        meta = json.loads((VERIF / "seeded" / sid / "meta.json").read_text())
        ps = props or (cl if allp else [meta["property"]])
        ps = [p for p in ps if p in cl]
        if ps:
            jobs.append((sid, ps, tier))
    caught = missed = 0
    expected = {}
    full_own_run = not argv or argv == ["--write-expected"]
    with cf.ThreadPoolExecutor(8) as ex:
        for res in ex.map(one, jobs):
            for sid, prop, rc, line in res:
                print("%-8s %-4s exit=%s  %s" % (sid, prop, rc, line))
                if rc == 1 and prop == json.loads((VERIF / "seeded" / sid / "meta.json").read_text())["property"]:
                    expected.setdefault(prop, []).append(sid)
            own = json.loads((VERIF / "seeded" / res[0][0] / "meta.json").read_text())["property"] if res else None
            if any(rc == 1 for _, _, rc, _ in res):
                caught += 1
            else:
                missed += 1
    print("changes caught by at least one listed check: %d, not caught: %d" % (caught, missed))
    if full_own_run and "--write-expected" in argv:
        # the thorough tier replays exactly these (own-property check exits 1) on the reference tree
        (VERIF / "seeded" / "EXPECTED.json").write_text(json.dumps({k: sorted(v) for k, v in sorted(expected.items())}, indent=1))
        sys.path.insert(0, str(VERIF / "selftest"))
        import corpora
        (VERIF / "selftest" / "reference_digest.txt").write_text(corpora.tree_digest("/repo") + "\n")
        print("seeded/EXPECTED.json and selftest/reference_digest.txt rewritten")
