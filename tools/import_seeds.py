#!/usr/bin/env python3
"""Verify candidate changes under <srcdir>/Cxx/mutK and import the valid ones as seeded/Cxx-<tag>K.
usage: import_seeds.py <srcdir> <tag> [Cxx ...]"""
import json, pathlib, shutil, subprocess, sys
src = pathlib.Path(sys.argv[1]); tag = sys.argv[2]; only = sys.argv[3:]
VERIF = pathlib.Path(__file__).resolve().parent.parent
dirs = []
for d in sorted(src.glob("C*/mut*")):
    if only and d.parent.name not in only:
        continue
    dst = VERIF / "seeded" / ("%s-%s%s" % (d.parent.name, tag, d.name[-1]))
    if dst.exists() or not (d / "patch.diff").exists() or not (d / "demo.py").exists() or not (d / "meta.json").exists():
        continue
    dirs.append(d)
if not dirs:
    print("nothing to import"); sys.exit(0)
out = subprocess.run([sys.executable, str(VERIF / "tools" / "verify_seed.py")] + [str(d) for d in dirs], capture_output=True, text=True)
head = subprocess.run(["git", "-C", "/repo", "rev-parse", "--short", "HEAD"], capture_output=True, text=True).stdout.strip()
for line in out.stdout.splitlines():
    r = json.loads(line)
    d = pathlib.Path(r["dir"])
    name = "%s-%s%s" % (d.parent.name, tag, d.name[-1])
    if not r.get("valid"):
        print(name, "INVALID", {k: r.get(k) for k in ("apply", "suite_tail", "demo_mut_rc", "demo_clean_rc")})
        continue
    dst = VERIF / "seeded" / name
    dst.mkdir(parents=True)
    shutil.copy(d / "patch.diff", dst / "patch.diff"); shutil.copy(d / "demo.py", dst / "demo.py")
    meta = json.load(open(d / "meta.json"))
    meta["id"] = name
    meta["author"] = "independent sub-agent (round %s), given only the property text, the list of earlier changes to avoid, and a scratch worktree" % tag
    meta["confirmed_by_me"] = {"what_i_ran": "tools/verify_seed.py: fresh worktree of /repo HEAD (%s), git apply patch.diff, full pytest suite, demo.py with PYTHONPATH=<tree> before and after reverting the patch" % head,
                               "suite_with_change": r["suite_tail"], "demo_with_change_exit": r["demo_mut_rc"],
                               "demo_with_change_last_line": r["demo_mut_tail"], "demo_clean_exit": r["demo_clean_rc"]}
    json.dump(meta, open(dst / "meta.json", "w"), indent=1)
    print(name, "imported")
