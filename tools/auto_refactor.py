#!/usr/bin/env python3
"""Mechanical behaviour-preserving refactorings of /repo/PyXAB, generated from the syntax tree, each run against all checks on a
scratch copy.  Any alarm is a false alarm of the machinery.  This complements the refactorings written by independent
sub-agents (benign/): those are richer, these are many - every local renamed, every short run of top-level statements of every
method extracted into a helper method.

usage: auto_refactor.py rename|extract [--files=algos,partition,synthetic_obj] [--every=K] [--offset=J] [--limit=N] [--props=C03,C04] [--jobs=16]

The transformations are correct by construction:
  rename   one local variable (not a parameter, not used in a nested scope, no global/nonlocal) of one method gets a fresh name
           everywhere in that method.
  extract  a run of 1-3 consecutive top-level statements of a method (no return/yield/break/continue inside, not the docstring)
           moves into a new private method; the locals it reads that are bound before become parameters, the locals it binds that
           are read afterwards are returned (as a tuple when several) and re-bound at the call.  Runs that read a local which is
           not definitely bound before them are skipped.
"""
import ast
import concurrent.futures as cf
import json
import os
import pathlib
import shutil
import subprocess
import sys
import tempfile

VERIF = pathlib.Path(__file__).resolve().parent.parent
REPO = pathlib.Path("/repo")


def methods_of(tree):
    for c in tree.body:
        if isinstance(c, ast.ClassDef):
            for f in c.body:
                if isinstance(f, ast.FunctionDef):
                    yield c, f


def nested_scope_names(fn):
    out = set()
    for n in ast.walk(fn):
        if n is not fn and isinstance(n, (ast.FunctionDef, ast.Lambda, ast.ListComp, ast.SetComp, ast.DictComp, ast.GeneratorExp, ast.ClassDef)):
            for m in ast.walk(n):
                if isinstance(m, ast.Name):
                    out.add(m.id)
    return out


def gen_rename(rel, src):
    tree = ast.parse(src)
    for c, f in methods_of(tree):
        if any(isinstance(n, (ast.Global, ast.Nonlocal)) for n in ast.walk(f)):
            continue
        params = {a.arg for a in f.args.args + f.args.kwonlyargs + f.args.posonlyargs}
        if f.args.vararg:
            params.add(f.args.vararg.arg)
        if f.args.kwarg:
            params.add(f.args.kwarg.arg)
        stores = sorted({n.id for n in ast.walk(f) if isinstance(n, ast.Name) and isinstance(n.ctx, ast.Store)} - params - nested_scope_names(f))
        allnames = {n.id for n in ast.walk(tree) if isinstance(n, ast.Name)}
        for name in stores:
            new = name + "_rn"
            if new in allnames:
                continue
            t2 = ast.parse(src)
            for c2, f2 in methods_of(t2):
                if c2.name == c.name and f2.name == f.name:
                    for n in ast.walk(f2):
                        if isinstance(n, ast.Name) and n.id == name:
                            n.id = new
            yield "%s:%s.%s:%s" % (rel, c.name, f.name, name), ast.unparse(t2)


def _has_jump(stmts):
    for s in stmts:
        for n in ast.walk(s):
            if isinstance(n, (ast.Return, ast.Yield, ast.YieldFrom, ast.Break, ast.Continue, ast.Global, ast.Nonlocal, ast.FunctionDef, ast.Lambda)):
                # (break/continue inside a loop that is itself inside the run would be fine; kept simple)
                return True
    return False


def _names(stmts, ctx):
    out = {n.id for s in stmts for n in ast.walk(s) if isinstance(n, ast.Name) and isinstance(n.ctx, ctx)}
    if ctx is ast.Load:
        # the target of an augmented assignment is read as well
        out |= {n.target.id for s in stmts for n in ast.walk(s) if isinstance(n, ast.AugAssign) and isinstance(n.target, ast.Name)}
    return out


def _definitely_bound(stmts):
    """names bound by plain top-level statements of the list (assignments, for targets are not counted: a loop may not run)"""
    out = set()
    for s in stmts:
        if isinstance(s, ast.Assign):
            for t in s.targets:
                for n in ast.walk(t):
                    if isinstance(n, ast.Name) and isinstance(n.ctx, ast.Store):
                        out.add(n.id)
        elif isinstance(s, (ast.AugAssign, ast.AnnAssign)) and isinstance(s.target, ast.Name):
            out.add(s.target.id)
    return out


def gen_extract(rel, src, maxlen=3):
    tree = ast.parse(src)
    k = 0
    for c, f in methods_of(tree):
        if f.name.startswith("__") and f.name != "__init__":
            continue
        if any(isinstance(d, ast.Name) and d.id in ("staticmethod", "classmethod", "property") for d in f.decorator_list) or f.decorator_list:
            continue
        if not f.args.args or f.args.args[0].arg != "self":
            continue
        body = f.body
        start = 1 if body and isinstance(body[0], ast.Expr) and isinstance(body[0].value, ast.Constant) and isinstance(body[0].value.value, str) else 0
        params = [a.arg for a in f.args.args[1:]] + [a.arg for a in f.args.kwonlyargs]
        existing = {m.name for m in c.body if isinstance(m, ast.FunctionDef)}
        for i in range(start, len(body)):
            for j in range(i + 1, min(len(body), i + maxlen) + 1):
                run = body[i:j]
                if _has_jump(run):
                    continue
                if any(isinstance(s, ast.Expr) and isinstance(s.value, ast.Call) and isinstance(s.value.func, ast.Attribute) and
                       isinstance(s.value.func.value, ast.Call) and getattr(s.value.func.value.func, "id", "") == "super" for s in run):
                    continue        # super().__init__(..) stays where it is
                reads = _names(run, ast.Load)
                binds = _names(run, ast.Store)
                before_bound = set(params) | _definitely_bound(body[start:i])
                local_all = set(params) | _names(body, ast.Store)
                ins = sorted(n for n in reads if n in local_all and n != "self")
                # a local read in the run must be definitely bound before it (or bound earlier inside the run itself, approximately:
                # bound by the run's own first statements) - otherwise skip
                inner_first = _definitely_bound(run)
                need = [n for n in ins if n not in before_bound]
                if any(n not in inner_first for n in need):
                    continue
                ins = [n for n in ins if n in before_bound]
                # names the run rebinds AND reads from before stay inputs; outputs: bound in the run and read afterwards
                after_reads = _names(body[j:], ast.Load)
                outs = sorted(n for n in binds if n in after_reads)
                # an output that is only conditionally bound in the run and was bound before must also be an input (so the helper can
                # return the old value); require every output to be definitely bound by the run or passed in
                if any(o not in inner_first and o not in ins for o in outs):
                    continue
                k += 1
                name = "_auto_part_%d" % k
                while name in existing:
                    name += "_"
                t2 = ast.parse(src)
                for c2, f2 in methods_of(t2):
                    if c2.name == c.name and f2.name == f.name:
                        b2 = f2.body
                        run2 = b2[i:j]
                        ret = None
                        if len(outs) == 1:
                            ret = ast.Return(value=ast.Name(id=outs[0], ctx=ast.Load()))
                        elif outs:
                            ret = ast.Return(value=ast.Tuple(elts=[ast.Name(id=o, ctx=ast.Load()) for o in outs], ctx=ast.Load()))
                        helper = ast.FunctionDef(name=name, args=ast.arguments(posonlyargs=[], args=[ast.arg(arg="self")] + [ast.arg(arg=a) for a in ins],
                                                                               kwonlyargs=[], kw_defaults=[], defaults=[]),
                                                 body=run2 + ([ret] if ret else []), decorator_list=[])
                        call = ast.Call(func=ast.Attribute(value=ast.Name(id="self", ctx=ast.Load()), attr=name, ctx=ast.Load()),
                                        args=[ast.Name(id=a, ctx=ast.Load()) for a in ins], keywords=[])
                        if not outs:
                            stmt = ast.Expr(value=call)
                        elif len(outs) == 1:
                            stmt = ast.Assign(targets=[ast.Name(id=outs[0], ctx=ast.Store())], value=call)
                        else:
                            stmt = ast.Assign(targets=[ast.Tuple(elts=[ast.Name(id=o, ctx=ast.Store()) for o in outs], ctx=ast.Store())], value=call)
                        b2[i:j] = [stmt]
                        c2.body.insert(c2.body.index(f2) + 1, helper)
                        ast.fix_missing_locations(t2)
                yield "%s:%s.%s[%d:%d]" % (rel, c.name, f.name, i, j), ast.unparse(t2)


def run_variant(args):
    vid, rel, text, props = args
    tmp = pathlib.Path(tempfile.mkdtemp(prefix="auto_"))
    try:
        shutil.copytree(REPO / "PyXAB", tmp / "PyXAB", ignore=shutil.ignore_patterns("__pycache__", "tests"))
        (tmp / rel).write_text(text)
        out = []
        for prop in props:
            env = dict(os.environ, PYXAB_EVIDENCE_DIR=str(tmp / "ev" / prop), PYXAB_CHECK_TIMEOUT="300")
            r = subprocess.run(["python3-vt", str(VERIF / "check.py"), "--property", prop, "--repo", str(tmp), "--no-selftest"],
                               capture_output=True, text=True, env=env, cwd=str(VERIF))
            if r.returncode != 0:
                lines = [l.strip() for l in r.stdout.splitlines() if l.startswith("  ") or l.startswith("ANALYSIS-ERROR")]
                out.append((prop, r.returncode, lines[0][:240] if lines else ""))
        return vid, out
    finally:
        shutil.rmtree(tmp, ignore_errors=True)


def main():
    mode = sys.argv[1]
    opts = dict(a.split("=", 1) for a in sys.argv[2:] if a.startswith("--") and "=" in a)
    pkgs = opts.get("--files", "algos,partition,synthetic_obj").split(",")
    limit = int(opts.get("--limit", "100000"))
    every = int(opts.get("--every", "1"))
    jobs = int(opts.get("--jobs", "16"))
    allp = [c["property_id"] for c in json.loads((VERIF / "MANIFEST.json").read_text())["checks"]]
    props = opts.get("--props", ",".join(allp)).split(",")
    variants = []
    for pkg in pkgs:
        for p in sorted((REPO / "PyXAB" / pkg).glob("*.py")):
            rel = str(p.relative_to(REPO))
            src = p.read_text()
            gen = gen_rename if mode == "rename" else gen_extract
            for vid, text in gen(rel, src):
                variants.append((vid, rel, text, props))
    offset = int(opts.get("--offset", "0"))
    variants = variants[offset::every][:limit]
    print("%d variants, %d checks each" % (len(variants), len(props)), flush=True)
    bad = 0
    with cf.ThreadPoolExecutor(jobs) as ex:
        for vid, out in ex.map(run_variant, variants):
            if out:
                bad += 1
                print("ALARM %s" % vid)
                for prop, rc, line in out:
                    print("      %s exit=%s %s" % (prop, rc, line))
                sys.stdout.flush()
    print("variants with alarms: %d of %d" % (bad, len(variants)))


if __name__ == "__main__":
    main()
