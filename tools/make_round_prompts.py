#!/usr/bin/env python3
"""Write the prompts for one more round of independent sub-agents (realistic breaking changes per property, behaviour-preserving
refactorings per file group).  Each agent gets only the property text (resp. its file list), the one-line summaries of earlier
changes to avoid, and its own scratch worktree - nothing from /verif.

usage: make_round_prompts.py seeds <outdir> <worktree-root>      (one prompt per property)
       make_round_prompts.py refactor <outdir> <worktree-root>   (one prompt per file group)
"""
import glob
import json
import os
import sys

HERE = os.path.dirname(os.path.dirname(os.path.abspath(__file__)))
GROUPS = {
    "G1": "PyXAB/partition/Node.py, Partition.py, BinaryPartition.py, RandomBinaryPartition.py, DimensionBinaryPartition.py, KaryPartition.py, RandomKaryPartition.py (all in PyXAB/partition/)",
    "G2": "PyXAB/algos/HOO.py, PyXAB/algos/HCT.py, PyXAB/algos/VHCT.py",
    "G3": "PyXAB/algos/DOO.py, PyXAB/algos/SOO.py, PyXAB/algos/StoSOO.py",
    "G4": "PyXAB/algos/SequOOL.py, PyXAB/algos/StroquOOL.py, PyXAB/algos/VROOM.py",
    "G5": "PyXAB/algos/POO.py, PyXAB/algos/GPO.py, PyXAB/algos/PCT.py, PyXAB/algos/VPCT.py, PyXAB/algos/Zooming.py",
    "G6": "PyXAB/synthetic_obj/*.py (Garland, DoubleSine, DifficultFunc, Ackley, Himmelblau, Rastrigin, Cexample and their variants)",
}


def seeds(out, wroot):
    props = [json.loads(l) for l in open(os.path.join(HERE, "properties.jsonl"))]
    for p in props:
        pid = p["id"]
        earlier = []
        for m in sorted(glob.glob(os.path.join(HERE, "seeded", pid + "-*", "meta.json"))):
            earlier.append("- " + json.load(open(m))["summary"][:420])
        wt = "%s/%s" % (wroot, pid)
        d = "%s/%s" % (out, pid)
        os.makedirs(d, exist_ok=True)
        txt = SEED.format(pid=pid, title=p["title"], statement=p["statement"], quant=p["quantifier"]["text"], why=p["why_tests_cant"],
                          files=", ".join(p["anchors"]["files"]), earlier="\n".join(earlier), wt=wt, d=d)
        open(os.path.join(d, "PROMPT.txt"), "w").write(txt)


def refactor(out, wroot):
    for g, files in GROUPS.items():
        earlier = []
        for m in sorted(glob.glob(os.path.join(HERE, "benign", g + "-*", "meta.json"))):
            earlier.append("- " + json.load(open(m))["summary"][:400])
        wt = "%s/%s" % (wroot, g)
        d = "%s/%s" % (out, g)
        os.makedirs(d, exist_ok=True)
        open(os.path.join(d, "PROMPT.txt"), "w").write(REFAC.format(g=g, files=files, earlier="\n".join(earlier), wt=wt, d=d))


SEED = """You are testing how well a verification team's checks protect the open-source Python library PyXAB (X-armed bandit / black-box optimisation algorithms over hierarchical partitions). You play a careless but plausible maintainer.

Your private scratch git worktree of the library is at {wt} (HEAD of the project). Work ONLY there and in {d}/. Never touch /repo or /verif and do not read anything under /verif. Never use `git stash`; to get back to a clean tree use `git -C {wt} checkout -- .`.

The property you attack ({pid}): {title}
Statement: {statement}
It must hold for: {quant}
Why the existing tests cannot settle it: {why}
Code it is anchored in: {files}

Task: produce THREE independent changes to the library's source (not the tests), each of which
  (1) looks like something a maintainer could plausibly commit (a refactoring gone slightly wrong, an optimisation, a 'simplification', a new default, a caching layer, a vectorisation, an off-by-one in a rewritten loop, a changed tie-break, a helper that forgets a case, a 'robustness' guard that changes behaviour, a micro-optimisation that reorders updates ...) - NOT a crude sabotage and not a change of a documented formula's obvious constant;
  (2) keeps the full existing test suite passing (124 tests);
  (3) genuinely BREAKS the property above for some input / configuration / history that the property quantifies over;
  (4) is different in mechanism AND location from each other and from every earlier change listed below. Prefer changes that only manifest under a particular parameter region, reward pattern, partition class, dimension, call order or after many rounds; prefer changes that span two cooperating edits or that hide the faulty part inside a new helper, a comprehension, a property, a default argument or a class attribute; prefer code paths the earlier changes did not touch.

Earlier changes (do not repeat these or close variants):
{earlier}

How to run things:
- Python: /venv/bin/python (numpy, pytest installed). Always run with the worktree first on the path:  cd {wt} && PYTHONPATH={wt} /venv/bin/python ...  and verify once that `import PyXAB; print(PyXAB.__file__)` points into {wt}.
- Test suite (124 tests, ~10 s):  cd {wt} && PYTHONPATH={wt} /venv/bin/python -m pytest -q -p no:cacheprovider --timeout=900 -n 4
- No network is available. Do not kill other users' processes (never use pkill/killall; if one of your own runs hangs, kill it by its PID).

For each change k in 1..3 create the directory {d}/mut<k>/ containing:
- patch.diff : output of `git -C {wt} diff` for that change alone (must apply with `git apply` to a clean checkout of HEAD).
- demo.py : a self-contained program, run as `PYTHONPATH=<tree> /venv/bin/python demo.py` (run time under 2 minutes, deterministic, numpy seeded), that drives the library only through its public API and checks the PROPERTY AS STATED (not the particular change): it must exit 1 with a message naming the violated clause on the changed tree and print PASS and exit 0 on the clean tree. Guard against hangs with your own time-out.
- meta.json : {{"property": "{pid}", "summary": "<what was changed and why it breaks the property>", "files": [...], "needs_to_manifest": "<which inputs / configuration / history are needed for it to show>", "why_tests_pass": "<why the 124 tests do not notice>"}}

For each change you MUST verify yourself: (a) the suite passes with it (124 passed), (b) demo.py exits 1 with the change applied, (c) demo.py prints PASS / exits 0 on the clean tree, (d) patch.diff applies to clean HEAD. Restore the worktree (`git checkout -- .`) after saving each patch and leave it clean at the end.

Final answer: a short list of the three changes (one or two lines each: what, where, what it needs to manifest) and the verification results.
"""

REFAC = """You are a maintainer of the open-source Python library PyXAB (X-armed bandit / black-box optimisation algorithms over hierarchical partitions).

Your private scratch git worktree of the library is at {wt} (HEAD of the project). Work ONLY there and in {d}/. Never touch /repo or /verif, and do not read anything under /verif. Never use `git stash`; to get back to a clean tree use `git -C {wt} checkout -- .`.

Your files: {files}

Task: produce FIVE independent BEHAVIOUR-PRESERVING refactorings of code in your files - the ordinary kind of clean-up a careful maintainer or a reviewer's suggestion produces in day-to-day work: readability clean-ups, extracting or inlining a small helper, renaming, removing duplication, simplifying conditionals, early returns / guard clauses, replacing an index loop by direct iteration (or enumerate/zip), a comprehension or a builtin (sum/max/min/any/all) where the result is bit-identical, hoisting a repeated expression into a local, caching a getter result in a local, splitting a long method, merging near-duplicate branches, modernising idioms (f-strings in messages excepted: keep messages identical), tightening a loop, reordering independent statements, type-hint-free tidying, small performance clean-ups that do not change results. They do not have to be exotic - what matters is that each is something you would really commit - but each should touch real logic (not only comments, docstrings or whitespace), be roughly 6-40 changed lines, and keep the public API and the observable behaviour EXACTLY the same for every input (same returned points, same internal tree, same random draws in the same order, same exceptions and messages). Spread the five over different functions and, where you have several files, over different files. Do not edit tests. Do not add new files. Do not fix bugs or change behaviour, even if you think something is wrong.

Earlier maintainers already did the refactorings listed below; do not redo the same edit at the same place (a different edit at the same place, or the same kind of edit elsewhere, is fine):
{earlier}

How to run things:
- Python: /venv/bin/python (numpy installed). Always run with the worktree first on the path:  cd {wt} && PYTHONPATH={wt} /venv/bin/python ...   and verify once that `import PyXAB; print(PyXAB.__file__)` points into {wt}.
- Test suite (124 tests, ~10 s):  cd {wt} && PYTHONPATH={wt} /venv/bin/python -m pytest -q -p no:cacheprovider --timeout=900 -n 4
- No network is available. Do not kill other users' processes (never use pkill/killall).

For each refactoring k in 1..5 create the directory {d}/ref<k>/ containing:
- patch.diff : output of `git -C {wt} diff` for that refactoring alone (must apply with `git apply` to a clean checkout of HEAD).
- equiv.py : a self-contained program (run as `PYTHONPATH=<tree> /venv/bin/python equiv.py`, run time under 3 minutes) that exercises the refactored code thoroughly through the public API with fixed numpy seeds (several scenarios: different partitions/arities/dimensions/parameters/reward functions incl. negative and tied rewards, enough rounds to reach the refactored code) and prints ONE line `DIGEST <sha256>` computed over everything observable (all returned points, recommendations, and a dump of the relevant internal state such as the tree's cells, statistics, scores). The digest must be IDENTICAL on the clean tree and on the refactored tree.
- meta.json : {{"group": "{g}", "summary": "<one sentence: what was refactored and how>", "files": [...], "kind": "<short label>"}}

For each refactoring you MUST verify yourself: (1) the full test suite passes with it (124 passed), (2) equiv.py prints the same DIGEST on the clean tree and on the refactored tree. Restore the worktree (`git checkout -- .`) after saving each patch. Leave the worktree clean at the end.

Final answer: a short list of the five refactorings (one line each) with the two verifications confirmed for each.
"""

if __name__ == "__main__":
    kind, out, wroot = sys.argv[1:4]
    (seeds if kind == "seeds" else refactor)(out, wroot)
