#!/usr/bin/env python3
"""Verify behaviour-preserving refactorings under <srcdir>/Gk/refN (suite passes, equiv.py digest identical on
clean and refactored tree) and import them as benign/<Gk>-refN."""
import concurrent.futures as cf, json, os, pathlib, shutil, subprocess, sys, tempfile
src = pathlib.Path(sys.argv[1]); only = [a for a in sys.argv[2:] if not a.startswith("--tag=")]
TAG = ([a[6:] for a in sys.argv[2:] if a.startswith("--tag=")] or [""])[0]     # e.g. --tag=r2 -> benign/G1-r2ref1
def nm(d): return "%s-%s%s" % (d.parent.name, TAG, d.name)
VERIF = pathlib.Path(__file__).resolve().parent.parent
PY = "/venv/bin/python"

def run(cmd, cwd=None, env=None, timeout=1800):
    e = dict(os.environ); e.update(env or {})
    p = subprocess.run(cmd, cwd=cwd, env=e, capture_output=True, text=True, timeout=timeout)
    return p.returncode, p.stdout + p.stderr

def verify(d):
    tmp = pathlib.Path(tempfile.mkdtemp(prefix="vben_"))
    r = dict(dir=str(d))
    try:
        tree = tmp / "tree"
        run(["git", "-C", "/repo", "worktree", "add", "-q", "--detach", str(tree), "HEAD"])
        rc, out = run([PY, str(d / "equiv.py")], cwd=str(tmp), env={"PYTHONPATH": str(tree)})
        clean = [l for l in out.splitlines() if l.startswith("DIGEST")]
        rc, out = run(["git", "-C", str(tree), "apply", str(d / "patch.diff")])
        r["apply"] = rc == 0
        if rc: return r
        rc, out = run([PY, "-m", "pytest", "-q", "-p", "no:cacheprovider", "--timeout=900", "-n", "2"], cwd=str(tree), env={"PYTHONPATH": str(tree)})
        tail = out.strip().splitlines()[-1] if out.strip() else ""
        r["suite_ok"] = rc == 0 and "124 passed" in tail
        rc, out = run([PY, str(d / "equiv.py")], cwd=str(tmp), env={"PYTHONPATH": str(tree)})
        ref = [l for l in out.splitlines() if l.startswith("DIGEST")]
        r["digest_clean"], r["digest_refactored"] = (clean or [None])[-1], (ref or [None])[-1]
        r["valid"] = bool(r["suite_ok"] and clean and ref and clean[-1] == ref[-1])
    finally:
        run(["git", "-C", "/repo", "worktree", "remove", "--force", str(tmp / "tree")])
        shutil.rmtree(tmp, ignore_errors=True)
    return r

dirs = [d for d in sorted(src.glob("G*/ref*")) if (not only or d.parent.name in only) and (d / "patch.diff").exists()
        and not (VERIF / "benign" / nm(d)).exists()]
with cf.ThreadPoolExecutor(6) as ex:
    for r in ex.map(verify, dirs):
        d = pathlib.Path(r["dir"]); name = nm(d)
        if not r.get("valid"):
            print(name, "INVALID", r); continue
        dst = VERIF / "benign" / name; dst.mkdir(parents=True)
        shutil.copy(d / "patch.diff", dst / "patch.diff"); shutil.copy(d / "equiv.py", dst / "equiv.py")
        meta = json.load(open(d / "meta.json")); meta["id"] = name
        meta["author"] = "independent sub-agent asked for behaviour-preserving refactorings (given only the file list and a scratch worktree)"
        meta["confirmed_by_me"] = dict(what_i_ran="tools/import_benign.py: fresh worktree of /repo HEAD; equiv.py on the clean tree, git apply, full suite, equiv.py again",
                                       suite="124 passed", digest_clean=r["digest_clean"], digest_refactored=r["digest_refactored"])
        json.dump(meta, open(dst / "meta.json", "w"), indent=1)
        print(name, "imported")
