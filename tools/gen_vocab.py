#!/usr/bin/env python3
"""Regenerate pyxab_static/baseline_vocab.json (method names per class, local names per function) from /repo.
Run only when the rules are re-validated against a new baseline tree."""
import json, sys, pathlib
sys.path.insert(0, str(pathlib.Path(__file__).resolve().parent.parent))
from pyxab_static.model import Model
from pyxab_static import normalize as NZ
m = Model(normalize=False)
v = NZ.build_vocab(m.trees)
NZ.VOCAB_FILE.write_text(json.dumps(v, indent=0, sort_keys=True))
print("vocab:", sum(len(e["classes"]) for e in v.values()), "classes")
