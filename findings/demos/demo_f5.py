import numpy as np
from PyXAB.algos.DOO import DOO
np.random.seed(2)
a=DOO(n=50, domain=[[0,1]])
pts={}
for t in range(1,31):
    x=a.pull(t); r=-1-np.random.rand(); pts[tuple(x)]=r; a.receive_reward(t,r)
x=a.get_last_point()
print('recommended', x, 'evaluated' if tuple(x) in pts else 'NEVER EVALUATED', 'best evaluated', max(pts,key=pts.get))
