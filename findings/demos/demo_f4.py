import numpy as np
from PyXAB.algos.DOO import DOO
np.random.seed(1)
a=DOO(n=300, domain=[[0,1]])
for t in range(1,300):
    x=a.pull(t); a.receive_reward(t, np.random.rand())
nl=a.partition.get_node_list()
bad=sum(1 for h,l in enumerate(nl) for n in l if n.get_depth()!=h)
print('mis-layered cells:',bad,'reported depth',a.partition.get_depth(),'true depth',max(n.get_depth() for l in nl for n in l))
