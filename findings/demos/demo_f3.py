from PyXAB.algos.DOO import DOO
a=DOO(n=100, delta=lambda h: 0.5**h, domain=[[0,1]])
for t in range(1,20):
    x=a.pull(t); a.receive_reward(t, -abs(x[0]-0.3))
print('ok', a.get_last_point())
