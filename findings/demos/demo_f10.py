# F10 (known finding, C01): GPO.pull returns None from the very first round when the budget cannot give every
# phase at least one round: half_phase_length = floor(n / 2N) = 0 for rhomax close to 1 (N grows like 1/ln(1/rhomax)).
from PyXAB.algos.GPO import GPO
from PyXAB.algos.PCT import PCT
from PyXAB.algos.HCT import HCT
for rm in (0.9, 0.97, 0.99):
    g = GPO(rounds=100, rhomax=rm, domain=[[0, 1]], algo=HCT)
    print("GPO rounds=100 rhomax=%s: N=%s half=%s first pull -> %s" % (rm, g.N, g.half_phase_length, g.pull(1)))
p = PCT(rounds=100, rhomax=0.99, domain=[[0, 1]])
print("PCT rounds=100 rhomax=0.99 first pull ->", p.pull(1))
