import numpy as np
from PyXAB.algos.GPO import GPO
from PyXAB.algos.HCT import HCT
import PyXAB.algos.HCT as H
np.random.seed(0)
made=[]
class Spy(HCT):
    def __init__(self,*a,**k):
        super().__init__(*a,**k); made.append(self); self.got=[]; self.gave=[]
    def pull(self,t):
        x=super().pull(t); self.gave.append(tuple(x)); return x
    def receive_reward(self,t,r):
        self.got.append(r); super().receive_reward(t,r)
Spy.__name__='HCT'
g=GPO(rounds=1000,domain=[[0,1]],algo=Spy)
for t in range(1,1001):
    x=g.pull(t); g.receive_reward(t, x[0])
print('N',g.N,'half',g.half_phase_length,'learners created',len(made),'pulls/rewards per learner',[(len(m.gave),len(m.got)) for m in made][:5],'validated',len(g.V_x))
