import numpy as np
from PyXAB.algos.Zooming import Zooming
np.random.seed(0)
a=Zooming(nu=1,rho=0.9,domain=[[0,1]])
for t in range(1,400):
    x=a.pull(t); a.receive_reward(t, 1-abs(x[0]-0.3))
leaves=[n for l in a.partition.get_node_list() for n in l if n.get_children() is None]
cov=set(id(n) for n in a.active_points.values())
print('leaves',len(leaves),'covered by an active arm',sum(1 for n in leaves if id(n) in cov))
