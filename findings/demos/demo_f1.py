from PyXAB.partition.KaryPartition import KaryPartition
from PyXAB.partition.RandomKaryPartition import RandomKaryPartition
from PyXAB.partition.DimensionBinaryPartition import DimensionBinaryPartition
for cls,kw,K in ((KaryPartition,{'K':3},3),(RandomKaryPartition,{'K':3},3),(DimensionBinaryPartition,{},4)):
    p=cls(domain=[[0,1],[0,1]],**kw); p.deepen(); p.deepen()
    print(cls.__name__, 'children of first depth-1 cell:', len(p.get_node_list()[1][0].get_children()), 'expected', K)
