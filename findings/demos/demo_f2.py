import numpy as np
from PyXAB.algos.HCT import HCT
from PyXAB.algos.VHCT import VHCT
for cls in (HCT,VHCT):
    np.random.seed(0)
    a=cls(domain=[[0,1]])
    bad=[0]; tot=[0]
    orig=a.expand
    def ex(parent,orig=orig):
        tot[0]+=1
        if parent.get_children() is not None: bad[0]+=1
        orig(parent)
    a.expand=ex
    for t in range(1,3001):
        x=a.pull(t); a.receive_reward(t, 1-abs(x[0]-0.3)+0.1*np.random.randn())
    print(cls.__name__,'expansions',tot[0],'of internal cells',bad[0])
