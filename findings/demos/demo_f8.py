# F8 (known finding, C01): POO never creates a learner when rhomax is small: the round-robin branch is
# entered first, reads self.algo_counter (never assigned) and would index an empty V_algo.
from PyXAB.algos.POO import POO
from PyXAB.algos.HOO import T_HOO
for rhomax in (0.9, 0.84, 0.8, 0.5):
    a = POO(rounds=1000, rhomax=rhomax, domain=[[0, 1]], algo=T_HOO)
    try:
        x = a.pull(1); a.receive_reward(1, 0.5)
        print("rhomax", rhomax, "ok", x)
    except Exception as ex:
        print("rhomax", rhomax, type(ex).__name__, ex)
