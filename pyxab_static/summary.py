"""Guarded-store summaries of loop-free methods (part of E3).

`paths(model, cls, fn)` walks the if-tree of a loop-free function once per path
(syntax-directed; conditions are recorded, never solved) and returns, per path,
the final symbolic value of every `self.<attr>` it stores, the appends it
performs on list attributes, the value it returns and the other calls it makes.
Reading `self.a` yields the value stored earlier on the same path or else the
pre-state symbol `a`.
"""
import ast

import sympy as sp

from .model import is_self_attr, method_name, strip_doc
from .report import AnalysisError, norm_src
from .symx import APPEND, Translator, Untranslatable


class HasLoop(AnalysisError):
    pass


def light_canon(test):
    """(source, polarity of the true branch): `not x` and `a != b` / `a is not b` are recorded as x / a == b / a is b with the
    polarity flipped, so that a condition and its negation are the same recorded test."""
    pol = True
    while isinstance(test, ast.UnaryOp) and isinstance(test.op, ast.Not):
        test, pol = test.operand, not pol
    if isinstance(test, ast.Compare) and len(test.ops) == 1 and isinstance(test.ops[0], (ast.NotEq, ast.IsNot)):
        op = ast.Eq() if isinstance(test.ops[0], ast.NotEq) else ast.Is()
        test = ast.Compare(left=test.left, ops=[op], comparators=test.comparators)
        pol = not pol
    return norm_src(test), pol


class PathSum:
    def __init__(self):
        self.conds = []       # (src, polarity)
        self.stores = {}      # attr -> sympy expr (final value)
        self.order = []       # attrs in order of first store
        self.appends = {}     # attr -> [sympy expr]
        self.ret = None
        self.returns = False
        self.raises = None
        self.calls = []       # source of other calls executed as statements
        self.effects = []     # (receiver source, method name, [symbolic positional args], {keyword: symbolic arg}) of those calls
        self.locals = {}

    def clone(self):
        p = PathSum()
        p.conds = list(self.conds)
        p.stores = dict(self.stores)
        p.order = list(self.order)
        p.appends = {k: list(v) for k, v in self.appends.items()}
        p.calls = list(self.calls)
        p.effects = list(self.effects)
        p.locals = dict(self.locals)
        return p


class Summarizer:
    def __init__(self, model, cls, positive=True, attr_syms=None, inline_methods=True):
        self.model = model
        self.cls = cls
        self.attr_syms = attr_syms or {}
        self.inline_methods = inline_methods
        self.T = Translator(name=self._name, attr=self._attr, call=self._call, positive=positive)
        self.T.opaque_unknown = True
        self.cur = None
        self.depth = 0
        self.skip_loops = False
        self.at_loop = []       # (loop statement, path state in front of it)

    # -- translator callbacks ---------------------------------------------
    def pre(self, attr):
        if attr in self.attr_syms:
            return self.attr_syms[attr]
        return self.T.sym(attr)

    def _name(self, n):
        if self.cur is not None and n in self.cur.locals:
            return self.cur.locals[n]
        return None

    def _attr(self, e):
        if is_self_attr(e):
            if self.cur is not None and e.attr in self.cur.stores:
                return self.cur.stores[e.attr]
            return self.pre(e.attr)
        return None

    def _call(self, e, T):
        f = e.func
        if isinstance(f, ast.Attribute) and isinstance(f.value, ast.Name) and f.value.id == "self" and self.inline_methods:
            o, fn = self.model.lookup(self.cls, f.attr)
            if fn is not None:
                body = strip_doc(fn.body)
                if len(body) == 1 and isinstance(body[0], ast.Return) and body[0].value is not None and not fn.args.args[1:]:
                    return T.tr(body[0].value)
        if isinstance(f, ast.Name):
            file = self.model.classes[self.cls].file if self.cls in self.model.classes else None
            fn = self.model.module_function(file, f.id) if file else None
            if fn is not None:
                body = strip_doc(fn.body)
                if len(body) == 1 and isinstance(body[0], ast.Return) and self.depth < 4:
                    params = [a.arg for a in fn.args.args]
                    args = [T.tr(a) for a in e.args]
                    saved = self.cur.locals if self.cur is not None else None
                    tmp = PathSum()
                    tmp.locals = dict(zip(params, args))
                    keep = self.cur
                    self.cur = tmp
                    self.depth += 1
                    try:
                        return T.tr(body[0].value)
                    finally:
                        self.depth -= 1
                        self.cur = keep
        return None

    # -- walking ------------------------------------------------------------
    def run(self, fn, params=None):
        start = PathSum()
        for a in fn.args.args[1:]:
            start.locals[a.arg] = (params or {}).get(a.arg, self.T.sym(a.arg))
        self.out = []
        self._block(list(strip_doc(fn.body)), start)
        return self.out

    def tr(self, e, p):
        self.cur = p
        return self.T.tr(e)

    def _block(self, stmts, p):
        while stmts:
            s = stmts.pop(0)
            if isinstance(s, ast.Expr):
                if isinstance(s.value, ast.Constant):
                    continue
                v = s.value
                if isinstance(v, ast.Call) and isinstance(v.func, ast.Attribute) and v.func.attr == "append" and \
                        is_self_attr(v.func.value) and len(v.args) == 1:
                    a = v.func.value.attr
                    x = self.tr(v.args[0], p)
                    p.appends.setdefault(a, []).append(x)
                    cur = p.stores.get(a, self.pre(a))
                    self._store(p, a, APPEND(cur, x))
                    continue
                p.calls.append(norm_src(v))
                if isinstance(v, ast.Call) and isinstance(v.func, ast.Attribute):
                    try:
                        p.effects.append((norm_src(v.func.value), v.func.attr, [self.tr(a, p) for a in v.args],
                                          {k.arg: self.tr(k.value, p) for k in v.keywords}))
                    except Untranslatable:
                        p.effects.append((norm_src(v.func.value), v.func.attr, None, None))
                continue
            if isinstance(s, ast.Assign):
                val = self.tr(s.value, p)
                for t in s.targets:
                    self._assign(t, val, p, s)
                continue
            if isinstance(s, ast.AugAssign):
                cur = ast.BinOp(left=ast.parse(ast.unparse(s.target), mode="eval").body, op=s.op, right=s.value)
                val = self.tr(cur, p)
                self._assign(s.target, val, p, s)
                continue
            if isinstance(s, ast.Return):
                p.returns = True
                p.ret = self.tr(s.value, p) if s.value is not None else None
                self.out.append(p)
                return
            if isinstance(s, ast.Raise):
                p.raises = norm_src(s)
                self.out.append(p)
                return
            if isinstance(s, ast.If):
                ctext, cpol = light_canon(s.test)
                a = p.clone()
                a.conds.append((ctext, cpol))
                b = p.clone()
                b.conds.append((ctext, not cpol))
                self._block(list(s.body) + list(stmts), a)
                self._block(list(s.orelse) + list(stmts), b)
                return
            if isinstance(s, ast.Pass):
                continue
            if isinstance(s, ast.For):
                acc = self.acc_loop(s, p, 0)
                if acc is not None:
                    key, total = acc
                    if key.startswith("self."):
                        a = key[5:]
                        self._store(p, a, p.stores.get(a, self.pre(a)) + total)
                    else:
                        p.locals[key] = p.locals.get(key, self.T.sym(key)) + total
                    continue
                from . import idioms as ID
                red = ID.reduction_of(s)
                if red is not None and red[0] in p.locals:
                    # acc = REDUCE_op(seed, collection, key(ELEM)): a fold of the whole collection
                    acc, op, key, x = red
                    coll = self.tr(s.iter, p)
                    q = p.clone()
                    q.locals.pop(x, None)
                    try:
                        kv = self.tr(ID._rename(key, x, "ELEM"), q)
                    except Untranslatable:
                        kv = None
                    if kv is not None:
                        p.locals[acc] = sp.Function("REDUCE_" + op)(p.locals[acc], coll, kv)
                        continue
            if isinstance(s, (ast.For, ast.While)):
                if self.skip_loops:
                    # remember the state reached in front of the loop; names assigned inside become unknown afterwards
                    self.at_loop.append((s, p.clone()))
                    for n in ast.walk(s):
                        if isinstance(n, ast.Name) and isinstance(n.ctx, ast.Store):
                            p.locals.pop(n.id, None)
                        if is_self_attr(n) and isinstance(n.ctx, ast.Store):
                            p.stores.pop(n.attr, None)
                    continue
                raise HasLoop("loop in %s" % norm_src(s)[:60])
            raise Untranslatable("statement %s" % type(s).__name__)
        self.out.append(p)

    def acc_loop(self, loop, p, depth):
        """`for v in range(a, b): acc += e(v)` (e may itself be such a loop over an inner variable, temporaries allowed):
        returns (accumulator key, Sum(e, (v, a, b - 1))) with canonical summation variables SUMVAR<depth>, else None."""
        if not (isinstance(loop, ast.For) and isinstance(loop.target, ast.Name) and not loop.orelse and isinstance(loop.iter, ast.Call) and
                norm_src(loop.iter.func) == "range" and len(loop.iter.args) in (1, 2) and not loop.iter.keywords):
            return None
        try:
            lo = self.tr(loop.iter.args[0], p) if len(loop.iter.args) == 2 else sp.Integer(0)
            hi = self.tr(loop.iter.args[-1], p)
        except Untranslatable:
            return None
        v = sp.Symbol("SUMVAR%d" % depth, integer=True, positive=True)
        q = p.clone()
        q.locals[loop.target.id] = v
        tgt, total = None, None
        for s in loop.body:
            key = inc = None
            if isinstance(s, ast.Expr) and isinstance(s.value, ast.Constant):
                continue
            if isinstance(s, ast.Assign) and len(s.targets) == 1 and isinstance(s.targets[0], ast.Name) and s.targets[0].id != tgt:
                try:
                    q.locals[s.targets[0].id] = self.tr(s.value, q)
                except Untranslatable:
                    return None
                continue
            if isinstance(s, ast.AugAssign) and isinstance(s.op, ast.Add) and (isinstance(s.target, ast.Name) or is_self_attr(s.target)):
                key = norm_src(s.target)
                try:
                    inc = self.tr(s.value, q)
                except Untranslatable:
                    return None
            elif isinstance(s, ast.For):
                r = self.acc_loop(s, q, depth + 1)
                if r is None:
                    return None
                key, inc = r
            else:
                return None
            if tgt is not None and key != tgt:
                return None
            if inc.has(self.T.sym(key[5:]) if key.startswith("self.") else sp.Symbol(key)):
                return None
            tgt = key
            total = inc if total is None else total + inc
        if total is None:
            return None
        return tgt, sp.Sum(total, (v, lo, hi - 1))

    def _store(self, p, attr, val):
        if attr not in p.stores:
            p.order.append(attr)
        p.stores[attr] = val

    def _assign(self, t, val, p, s):
        if isinstance(t, ast.Name):
            p.locals[t.id] = val
        elif is_self_attr(t):
            self._store(p, t.attr, val)
        elif isinstance(t, ast.Subscript) and is_self_attr(t.value):
            p.calls.append("store " + norm_src(s))
        else:
            p.calls.append("store " + norm_src(s))


def paths(model, cls, fn, positive=True, attr_syms=None, params=None):
    return Summarizer(model, cls, positive, attr_syms).run(fn, params)
