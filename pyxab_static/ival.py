"""E6 - interval / multilinear abstract evaluation of the synthetic objectives.

`paths_of(...)` turns the body of `f` (ifs, local assignments, the Rastrigin loop,
module helpers) into a list of straight-line paths, each a sympy expression over
the input coordinates and the instance parameters.  `upper_bound(...)` encloses
such an expression over a box with mpmath.iv (outward rounding), directly and -
after expansion into a polynomial in its non-polynomial sub-terms ("atoms") -
by vertex enumeration, which is exact for multilinear forms and removes the
dependency problem where f touches fmax.
"""
import ast
import itertools

import sympy as sp
from mpmath import iv, mp

from .report import AnalysisError, norm_src
from .symx import Translator, Untranslatable

iv.dps = 30


class Path:
    def __init__(self, expr, conds, raises=None):
        self.expr = expr          # sympy expression or None when the path raises
        self.conds = conds        # list of (sympy relational or ast src, polarity)
        self.raises = raises


class FEval:
    """Enumerates the paths of a function over symbolic inputs."""

    def __init__(self, model, file, self_attrs, dim, helper_atoms):
        self.model = model
        self.file = file
        self.self_attrs = self_attrs     # attr -> sympy expr
        self.dim = dim
        self.atoms = helper_atoms        # list collecting (symbol, lo, hi, description)
        self.T = Translator(name=None, attr=self._attr, call=self._call, positive=False)
        self.env = None
        self.writes = []
        self.rng = []
        self.delegate = None      # callback: (class name) -> (ClassInfo, attrs) of another objective class whose f is called

    def _attr(self, e):
        if isinstance(e.value, ast.Name) and e.value.id == "self":
            if e.attr in self.self_attrs:
                return self.self_attrs[e.attr]
            raise Untranslatable("f reads self.%s which __init__ does not assign" % e.attr)
        if isinstance(e.value, ast.Name) and e.attr == "size" and isinstance(self.env.get(e.value.id), list):
            return sp.Integer(len(self.env[e.value.id]))
        if isinstance(e.value, ast.Name) and self.delegate is not None and (self.env is None or e.value.id not in self.env):
            # an attribute of a module-level shared instance `_X = Cls()`: what Cls.__init__ assigns
            cname = self.delegated_class(e.value)
            if cname is not None:
                cinfo, cattrs = self.delegate(cname)
                if e.attr in cattrs:
                    return cattrs[e.attr]
        return None

    def _ifexp(self, e, T):
        """a if c else b with numeric constant a, b: an atom ranging over their hull (the condition is dropped)."""
        a, b = T.tr(e.body), T.tr(e.orelse)
        if a.is_number and b.is_number:
            lo, hi = min(a, b), max(a, b)
            s = sp.Symbol("ifexp_%d" % len(self.atoms), real=True)
            self.atoms.append((s, lo, hi, "conditional expression in {%s, %s}" % (a, b)))
            return s
        raise Untranslatable("conditional expression with non-constant branches")

    def delegated_class(self, recv):
        """recv is `Cls()` or `self.<a>` with a class-level `a = Cls()` of the analysed class: the name Cls."""
        if isinstance(recv, ast.Call) and isinstance(recv.func, ast.Name) and not recv.args and not recv.keywords and recv.func.id in self.model.classes:
            return recv.func.id
        if isinstance(recv, ast.Attribute) and isinstance(recv.value, ast.Name) and recv.value.id == "self" and getattr(self, "cls_node", None) is not None:
            for st in self.cls_node.body:
                if isinstance(st, ast.Assign) and len(st.targets) == 1 and isinstance(st.targets[0], ast.Name) and st.targets[0].id == recv.attr:
                    return self.delegated_class(st.value)
        if isinstance(recv, ast.Name):
            # a module-level name of the analysed file bound exactly once to `Cls()` (a shared stateless instance)
            tree = self.model.trees.get(self.file)
            if tree is not None:
                ds = [st for st in tree.body if isinstance(st, ast.Assign) and len(st.targets) == 1 and isinstance(st.targets[0], ast.Name) and
                      st.targets[0].id == recv.id]
                stores = [n for n in ast.walk(tree) if isinstance(n, ast.Name) and n.id == recv.id and isinstance(n.ctx, ast.Store)]
                if len(ds) == 1 and len(stores) == 1:
                    return self.delegated_class(ds[0].value)
        return None

    def _call(self, e, T):
        name = norm_src(e.func)
        if name.startswith(("np.random.", "numpy.random.", "random.")):
            self.rng.append(name)
            raise Untranslatable("random draw %s inside f" % name)
        if isinstance(e.func, ast.Attribute) and e.func.attr == "f" and len(e.args) == 1 and not e.keywords and self.delegate is not None and \
                isinstance(e.args[0], ast.Name) and isinstance(self.env.get(e.args[0].id), list):
            cname = self.delegated_class(e.func.value)
            if cname is not None:
                cinfo, cattrs = self.delegate(cname)
                fn = cinfo.methods.get("f")
                if fn is not None:
                    sub = FEval(self.model, cinfo.file, cattrs, self.dim, self.atoms)
                    sub.delegate = self.delegate
                    sub.cls_node = cinfo.node
                    paths = sub.run_body([s for s in fn.body if not (isinstance(s, ast.Expr) and isinstance(s.value, ast.Constant))],
                                         {fn.args.args[1].arg: self.env[e.args[0].id]})
                    self.rng += sub.rng
                    self.writes += sub.writes
                    rets = [p for p in paths if p.expr is not None]
                    if len(rets) == 1:
                        return rets[0].expr
                    raise Untranslatable("delegated objective %s.f has %d value paths" % (cname, len(rets)))
        if isinstance(e.func, ast.Name):
            helper = self.model.module_function(self.file, e.func.id)
            if helper is not None:
                args = []
                for a in e.args:
                    if isinstance(a, ast.Call) and norm_src(a.func) in ("np.array", "numpy.array", "np.asarray") and len(a.args) == 1:
                        a = a.args[0]
                    if isinstance(a, ast.Name) and isinstance(self.env.get(a.id), list):
                        args.append(self.env[a.id])          # the input vector itself
                    else:
                        args.append(T.tr(a))
                return self.inline_helper(helper, args)
            if e.func.id == "len" and len(e.args) == 1 and isinstance(e.args[0], ast.Name) and \
                    isinstance(self.env.get(e.args[0].id), list):
                return sp.Integer(len(self.env[e.args[0].id]))
        if name in ("np.array", "numpy.array", "np.asarray") and len(e.args) == 1 and isinstance(e.args[0], ast.Name) and \
                isinstance(self.env.get(e.args[0].id), list):
            return None
        return None

    def inline_helper(self, fn, args):
        sub = FEval(self.model, self.file, {}, self.dim, self.atoms)
        params = [a.arg for a in fn.args.args]
        env = dict(zip(params, args))
        paths = sub.run_body(fn.body, env)
        self.rng += sub.rng
        self.writes += sub.writes
        rets = [p for p in paths if p.expr is not None]
        if not rets:
            raise Untranslatable("helper %s never returns" % fn.name)
        if len(rets) == 1:
            return rets[0].expr
        vals = [p.expr for p in rets]
        if all(v.is_number for v in vals):
            lo, hi = min(vals), max(vals)
            s = sp.Symbol("%s_%d" % (fn.name, len(self.atoms)), real=True)
            self.atoms.append((s, lo, hi, "%s(...) in {%s}" % (fn.name, ", ".join(str(v) for v in sorted(set(vals))))))
            return s
        raise Untranslatable("helper %s has several non-constant return paths" % fn.name)

    # ------------------------------------------------------------------
    def run_body(self, body, env):
        self.paths = []
        self._block(list(body), dict(env), [])
        return self.paths

    def name_cb(self, env):
        def cb(n):
            v = env.get(n)
            if isinstance(v, list):
                raise Untranslatable("vector %s used as a scalar" % n)
            return v
        return cb

    def tr(self, e, env):
        self.env = env
        self.T.name_cb = self.name_cb(env)
        # subscripts of the input vector
        if isinstance(e, ast.Subscript) and isinstance(e.value, ast.Name) and isinstance(env.get(e.value.id), list):
            idx = self.tr(e.slice, env)
            if not idx.is_Integer:
                raise Untranslatable("symbolic index into the input vector")
            vec = env[e.value.id]
            if not (-len(vec) <= int(idx) < len(vec)):
                raise Untranslatable("index %s out of range for a %d-vector" % (idx, len(vec)))
            return vec[int(idx)]
        return self._tr_rec(e, env)

    def _tr_rec(self, e, env):
        # translate, but intercept vector subscripts anywhere in the tree
        outer = self

        class Sub(ast.NodeTransformer):
            def visit_IfExp(self, node):
                self.generic_visit(node)
                try:
                    v = outer._ifexp(node, outer.T)
                except Untranslatable:
                    return node
                nm = "__sub%d" % len(outer._tmp)
                outer._tmp[nm] = v
                return ast.copy_location(ast.Name(id=nm, ctx=ast.Load()), node)

            def visit_Subscript(self, node):
                if isinstance(node.value, ast.Name) and isinstance(env.get(node.value.id), list):
                    v = outer.tr(node, env)
                    nm = "__sub%d" % len(outer._tmp)
                    outer._tmp[nm] = v
                    return ast.copy_location(ast.Name(id=nm, ctx=ast.Load()), node)
                return self.generic_visit(node)
        self._tmp = getattr(self, "_tmp", {})
        e2 = Sub().visit(ast.parse(ast.unparse(e), mode="eval").body)
        env2 = dict(env)
        env2.update(self._tmp)
        self.env = env2
        self.T.name_cb = self.name_cb(env2)
        return self.T.tr(e2)

    def _block(self, stmts, env, conds):
        while stmts:
            s = stmts.pop(0)
            if isinstance(s, ast.Expr):
                if isinstance(s.value, ast.Constant):
                    continue
                self.tr(s.value, env)     # evaluated for effects we cannot see: reject calls
                if any(isinstance(n, ast.Call) for n in ast.walk(s.value)):
                    self.writes.append(norm_src(s))
                continue
            if isinstance(s, ast.Assign):
                if len(s.targets) != 1:
                    raise Untranslatable("multiple assignment in f")
                t = s.targets[0]
                if isinstance(t, ast.Name):
                    v0 = s.value
                    if isinstance(v0, ast.Call) and norm_src(v0.func) in ("np.array", "numpy.array", "np.asarray") and len(v0.args) == 1 \
                            and isinstance(v0.args[0], ast.Name) and isinstance(env.get(v0.args[0].id), list):
                        env[t.id] = env[v0.args[0].id]        # a copy of the input vector: same symbolic coordinates
                        continue
                    if isinstance(v0, ast.Name) and isinstance(env.get(v0.id), list):
                        env[t.id] = env[v0.id]
                        continue
                    env[t.id] = self.tr(s.value, env)
                    continue
                self.writes.append(norm_src(s))
                if isinstance(t, ast.Attribute) and isinstance(t.value, ast.Name) and t.value.id == "self":
                    # keep going so the bound is still reported, with the stored value visible to later reads
                    self.self_attrs = dict(self.self_attrs)
                    self.self_attrs[t.attr] = self.tr(s.value, env)
                continue
            if isinstance(s, ast.AugAssign):
                if isinstance(s.target, ast.Name):
                    cur = ast.BinOp(left=ast.Name(id=s.target.id, ctx=ast.Load()), op=s.op, right=s.value)
                    env[s.target.id] = self.tr(cur, env)
                    continue
                self.writes.append(norm_src(s))
                continue
            if isinstance(s, ast.Return):
                v = self.tr(s.value, env) if s.value is not None else sp.Symbol("None")
                self.paths.append(Path(v, list(conds)))
                return
            if isinstance(s, ast.Raise):
                self.paths.append(Path(None, list(conds), raises=norm_src(s.exc) if s.exc is not None else "raise"))
                return
            if isinstance(s, ast.If):
                c = self.cond(s.test, env)
                if c is True:
                    stmts = list(s.body) + stmts
                    continue
                if c is False:
                    stmts = list(s.orelse) + stmts
                    continue
                self._block(list(s.body) + list(stmts), dict(env), conds + [(c, True)])
                self._block(list(s.orelse) + list(stmts), dict(env), conds + [(c, False)])
                return
            if isinstance(s, ast.For):
                it = s.iter
                if isinstance(it, ast.Call) and norm_src(it.func) == "range" and isinstance(s.target, ast.Name):
                    bounds = [self.tr(a, env) for a in it.args]
                    if not all(b.is_Integer for b in bounds):
                        raise Untranslatable("loop bound is not a constant for a fixed dimension")
                    body = []
                    for k in range(*[int(b) for b in bounds]):
                        body.append(ast.Assign(targets=[ast.Name(id=s.target.id, ctx=ast.Store())], value=ast.Constant(value=k)))
                        body.extend(s.body)
                    stmts = body + stmts
                    continue
                raise Untranslatable("for loop over %s" % norm_src(it))
            if isinstance(s, ast.Pass):
                continue
            raise Untranslatable("statement %s in f" % type(s).__name__)
        self.paths.append(Path(sp.Symbol("None"), list(conds)))

    def bool_tr(self, test, env):
        """boolean structure (not / and / or / chained comparisons) over translatable comparisons"""
        if isinstance(test, ast.UnaryOp) and isinstance(test.op, ast.Not):
            return sp.Not(self.bool_tr(test.operand, env))
        if isinstance(test, ast.BoolOp):
            parts = [self.bool_tr(v, env) for v in test.values]
            return sp.And(*parts) if isinstance(test.op, ast.And) else sp.Or(*parts)
        if isinstance(test, ast.Compare) and len(test.ops) > 1:
            parts = []
            left = test.left
            for op, right in zip(test.ops, test.comparators):
                parts.append(self.bool_tr(ast.Compare(left=left, ops=[op], comparators=[right]), env))
                left = right
            return sp.And(*parts)
        return self.tr(test, env)

    def cond(self, test, env):
        try:
            c = self.bool_tr(test, env)
        except Untranslatable:
            return sp.Symbol("COND_" + str(abs(hash(norm_src(test))) % 10000))
        if c is sp.true:
            return True
        if c is sp.false:
            return False
        return c


# ---------------------------------------------------------------------------
# interval evaluation of sympy expressions


def _iv(x):
    return x if isinstance(x, iv.mpf().__class__) else iv.mpf(x)


def pow_nonneg(u, e):
    """u**e for u >= 0, e >= 0 (math.pow semantics, 0**0 = 1)."""
    ul, uh = u.a, u.b
    el, eh = e.a, e.b
    if ul < 0 or el < 0:
        raise AnalysisError("pow with a possibly negative base or exponent: [%s,%s]**[%s,%s]" % (ul, uh, el, eh))
    vals = []
    for a in (ul, uh):
        for b in (el, eh):
            if a == 0:
                vals.append(iv.mpf(1) if b == 0 else iv.mpf(0))
            elif a == iv.inf:
                vals.append(iv.mpf(1) if b == 0 else iv.inf)
            else:
                vals.append(iv.exp(b * iv.log(a)))
    if ul <= 1 <= uh:
        vals.append(iv.mpf(1))
    lo = min(v.a for v in vals)
    hi = max(v.b for v in vals)
    return iv.mpf([lo, hi])


_COMPILED = {}


def ieval(e, box):
    """Enclose sympy expression e over `box` (dict symbol -> iv interval)."""
    f = _COMPILED.get(e)
    if f is None:
        f = _compile(e)
        _COMPILED[e] = f
    return f(box)


def _compile(e):
    """Turn a sympy expression into a closure box -> interval (same semantics as _ieval)."""
    if e.is_Symbol:
        def f_sym(box, e=e):
            if e not in box:
                raise AnalysisError("no range known for symbol %s" % e)
            return box[e]
        return f_sym
    if e.is_Number or e is sp.pi or e is sp.E:
        c = _ieval(e, {})
        return lambda box, c=c: c
    if e.is_Add:
        fs = [_compile(a) for a in e.args]

        def f_add(box, fs=fs):
            r = fs[0](box)
            for g in fs[1:]:
                r = r + g(box)
            return r
        return f_add
    if e.is_Mul:
        fs = [_compile(a) for a in e.args]

        def f_mul(box, fs=fs):
            r = fs[0](box)
            for g in fs[1:]:
                r = r * g(box)
            return r
        return f_mul
    if e.is_Pow and e.args[1].is_Integer and int(e.args[1]) >= 0:
        fb = _compile(e.args[0])
        n = int(e.args[1])
        return lambda box, fb=fb, n=n: fb(box) ** n
    if e.func in (sp.sin, sp.cos, sp.exp):
        fa = _compile(e.args[0])
        op = {sp.sin: iv.sin, sp.cos: iv.cos, sp.exp: iv.exp}[e.func]
        return lambda box, fa=fa, op=op: op(fa(box))
    # everything else: generic evaluator, with compiled children substituted through a tiny shim
    return lambda box, e=e: _ieval(e, box)


def _ieval(e, box):
    if e.is_Symbol:
        if e not in box:
            raise AnalysisError("no range known for symbol %s" % e)
        return box[e]
    if e.is_Integer:
        return iv.mpf(int(e))
    if e.is_Rational:
        return iv.mpf(int(e.p)) / iv.mpf(int(e.q))
    if e is sp.pi:
        return iv.pi
    if e is sp.E:
        return iv.e
    if e.is_Float:
        return iv.mpf(str(e))
    if e is sp.oo:
        return iv.mpf("inf")
    if e is -sp.oo:
        return iv.mpf("-inf")
    if e.is_Add:
        r = iv.mpf(0)
        for a in e.args:
            r = r + ieval(a, box)
        return r
    if e.is_Mul:
        r = iv.mpf(1)
        for a in e.args:
            r = r * ieval(a, box)
        return r
    if e.is_Pow:
        b, x = e.args
        if x.is_Integer:
            n = int(x)
            bv = ieval(b, box)
            if n >= 0:
                return bv ** n
            d = bv ** (-n)
            if d.a <= 0 <= d.b:
                if d.a == 0 and d.b == 0:
                    return iv.mpf(["-inf", "inf"])
                if d.a == 0:
                    return iv.mpf([1 / iv.mpf(d.b).a if False else (iv.mpf(1) / iv.mpf(d.b)).a, "inf"])
                if d.b == 0:
                    return iv.mpf(["-inf", (iv.mpf(1) / iv.mpf(d.a)).b])
                return iv.mpf(["-inf", "inf"])
            return 1 / d
        if x == sp.Rational(1, 2):
            bv = ieval(b, box)
            if bv.a < 0:
                if bv.b < 0:
                    raise AnalysisError("sqrt of a negative interval")
                bv = iv.mpf([0, bv.b])
            return iv.sqrt(bv)
        if x == sp.Rational(-1, 2):
            bv = ieval(b, box)
            if bv.a < 0:
                bv = iv.mpf([0, bv.b])
            s = iv.sqrt(bv)
            if s.a == 0:
                return iv.mpf([(1 / iv.mpf(s.b)).a if s.b > 0 else 0, "inf"])
            return 1 / s
        bv = ieval(b, box)
        xv = ieval(x, box)
        if b is sp.E:
            return iv.exp(xv)
        if bv.a >= 0 and xv.a >= 0:
            return pow_nonneg(bv, xv)
        if bv.a > 0:
            return iv.exp(xv * iv.log(bv))
        raise AnalysisError("cannot enclose power %s" % e)
    f = e.func
    if f is sp.exp:
        return iv.exp(ieval(e.args[0], box))
    if f is sp.log:
        a = ieval(e.args[0], box)
        if a.b < 0:
            raise AnalysisError("log of a negative interval")
        if a.a < 0:
            a = iv.mpf([0, a.b])
        return iv.log(a)
    if f is sp.sin:
        return iv.sin(ieval(e.args[0], box))
    if f is sp.cos:
        return iv.cos(ieval(e.args[0], box))
    if f is sp.Abs:
        a = ieval(e.args[0], box)
        if a.a >= 0:
            return a
        if a.b <= 0:
            return -a
        return iv.mpf([0, max(-a.a, a.b)])
    if f is sp.floor:
        a = ieval(e.args[0], box)
        return iv.mpf([mp.floor(a.a), mp.floor(a.b)])
    if f is sp.ceiling:
        a = ieval(e.args[0], box)
        return iv.mpf([mp.ceil(a.a), mp.ceil(a.b)])
    if f in (sp.Max, sp.Min):
        vals = [ieval(a, box) for a in e.args]
        if f is sp.Max:
            return iv.mpf([max(v.a for v in vals), max(v.b for v in vals)])
        return iv.mpf([min(v.a for v in vals), min(v.b for v in vals)])
    raise AnalysisError("cannot enclose %s" % e)


def is_poly_node(e):
    return e.is_Add or e.is_Mul or e.is_Number or (e.is_Pow and e.args[1].is_Integer and int(e.args[1]) >= 0)


def atomise(e, table):
    """Replace maximal non-polynomial sub-terms (and input powers) by atom symbols."""
    if e.is_Number:
        return e
    if e.is_Add or e.is_Mul:
        return e.func(*[atomise(a, table) for a in e.args])
    key = e
    if key not in table:
        table[key] = sp.Symbol("a%d" % len(table), real=True)
    return table[key]


def vertex_bound(e, box, extra_atoms):
    """Upper bound of e over box via multilinear vertex enumeration; None if not applicable."""
    table = {}
    p = sp.expand(atomise(e, table))
    atoms = list(table.items())
    if len(atoms) > 10:
        return None
    syms = [s for _, s in atoms]
    try:
        poly = sp.Poly(p, *syms) if syms else None
    except sp.PolynomialError:
        return None
    if poly is not None:
        for mon in poly.monoms():
            if any(d > 1 for d in mon):
                return None
    ranges = []
    for sub, s in atoms:
        r = ieval(sub, box)
        ranges.append((r.a, r.b))
    best = None
    for corner in itertools.product(*[(0, 1)] * len(syms)):
        val = iv.mpf(0)
        b2 = {}
        for (s, c, (lo, hi)) in zip(syms, corner, ranges):
            b2[s] = iv.mpf(lo) if c == 0 else iv.mpf(hi)
        v = ieval(p, b2) if syms else ieval(p, {})
        if v.a != v.a or v.b != v.b:
            return None
        ub = v.b
        if best is None or ub > best:
            best = ub
    return best


def upper_bound(e, box):
    """Sound upper bound of e over box: min(direct enclosure, vertex bound)."""
    d = ieval(e, box)
    ub = d.b
    try:
        vb = vertex_bound(e, box, None)
    except AnalysisError:
        vb = None
    if vb is not None and vb < ub:
        ub = vb
    return ub, d


def prove_le(e, box, split_syms, tol, max_cells, min_width=1e-7):
    """Branch and bound: show e <= tol on the whole box.  Returns (ok, cells, worst_ub, worst_box, nonfinite)."""
    todo = [dict(box)]
    cells = 0
    worst = None
    worst_box = None
    while todo:
        b = todo.pop()
        cells += 1
        ub, d = upper_bound(e, b)
        if ub != ub:
            return False, cells, ub, b, True
        if ub <= tol:
            if worst is None or ub > worst:
                worst, worst_box = ub, b     # largest bound among the accepted leaf cells
            continue
        # split the widest splittable dimension
        ws = [(b[s].delta.b if hasattr(b[s], "delta") else (b[s].b - b[s].a), s) for s in split_syms]
        w, s = max(ws, key=lambda t: t[0]) if ws else (0, None)
        if s is None or w < min_width or cells > max_cells:
            return False, cells, ub, b, False
        m = (iv.mpf(b[s].a) + iv.mpf(b[s].b)) / 2
        mid = m.a
        b1, b2 = dict(b), dict(b)
        b1[s] = iv.mpf([b[s].a, mid])
        b2[s] = iv.mpf([mid, b[s].b])
        todo.append(b1)
        todo.append(b2)
    return True, cells, worst, worst_box, False
