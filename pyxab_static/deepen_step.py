"""Abstract execution of Partition.deepen with the E5 interpreter on small trees (deepest layer of 0..3 cells, tree depth 0
and 2), with make_children replaced by its contract (two fresh children linked to the cell; newlayer=True appends a layer
holding them and increments the depth, newlayer=False extends layer depth(cell)+1 in place and raises IndexError when that
layer does not exist - exactly what every make_children of the library does).

Contract of deepen decided on every run: the cells of the layer that was deepest when deepen was called are expanded exactly
once each, in layer order, nothing else is expanded, newlayer is true for the first of them and false for all others, and
deepen does not raise.  How deepen is written (index loop, enumerate over a snapshot, peeled first iteration, while/pop ...)
is irrelevant; the layer sizes are small but the code is the library's own.
"""
import ast

from . import absint as A
from .report import AnalysisError


class _Interp(A.Interp):
    def __init__(self, model, oracle, part):
        super().__init__(model, oracle)
        self.part_obj = part
        self.calls = []

    def call_function(self, fn, selfobj, args, kwargs, owner=None):
        if fn.name == "make_children" and selfobj is self.part_obj and self.stack and "make_children" not in self.stack:
            params = [a.arg for a in fn.args.args][1:]
            vals = dict(zip(params, args))
            vals.update(kwargs)
            cell = vals.get("parent", args[0] if args else None)
            nl = vals.get("newlayer", False)
            if isinstance(nl, A.SymCond) or not isinstance(nl, (bool, int)):
                try:
                    nl = self.truth(nl, None)
                except Exception:
                    raise A.Unsupported("symbolic newlayer argument")
            nl = bool(nl)
            self.calls.append((cell, nl))
            if not isinstance(cell, A.Obj):
                raise A.PathCrash("make_children called with %r" % (cell,))
            part = self.part_obj
            depth = cell.f["depth"]
            kids = [A.Obj(cell.cls, depth=depth + 1, index=2 * cell.f["index"] - 1 + j, parent=cell, children=None,
                          domain=A.AList([]), c_point=A.AList([])) for j in range(2)]
            cell.f["children"] = A.AList(kids)
            nlst = part.f["node_list"]
            if nl:
                nlst.append(A.AList(kids))
                part.f["depth"] = part.f["depth"] + 1
            else:
                if depth + 1 >= len(nlst):
                    raise A.PathCrash("IndexError: make_children(newlayer=False) on a cell whose next layer does not exist")
                nlst[depth + 1].extend(kids)
            return None
        return super().call_function(fn, selfobj, args, kwargs, owner=owner)


def run_once(model, pcls, d0, n, oracle):
    layers = []
    for h in range(d0 + 1):
        size = n if h == d0 else 1
        layers.append(A.AList([A.Obj("P_node", depth=h, index=j + 1, parent=None, children=None,
                                     domain=A.AList([A.AList([A.atom("lo_%d_%d" % (h, j), real=True), A.atom("hi_%d_%d" % (h, j), real=True)])]),
                                     c_point=A.AList([A.atom("c_%d_%d" % (h, j), real=True)]))
                               for j in range(size)]))
    part = A.Obj(pcls, node_list=A.AList(layers), depth=d0, root=layers[0][0] if layers[0] else None, node=A.ClassRef("P_node"),
                 domain=A.AList([]))
    I = _Interp(model, oracle, part)
    owner, fn = model.lookup(pcls, "deepen")
    if fn is None:
        raise AnalysisError("%s.deepen not found (anchor vanished)" % pcls)
    crash = None
    try:
        I.call_function(fn, part, [], {}, owner=owner.name)
    except A.PathCrash as ex:
        crash = str(ex)
    return dict(calls=I.calls, crash=crash, cells=list(layers[d0]), part=part), I.trace


def check(model, pcls="Partition"):
    """Returns (ok, how, n_runs)."""
    runs = 0
    for d0 in (0, 2):
        for n in (0, 1, 2, 3):
            if d0 == 0 and n != 1:
                continue        # the root layer holds exactly the root
            for oracle, res in A.explore(lambda o: run_once(model, pcls, d0, n, o), limit=200):
                runs += 1
                where = "deepest layer of %d cell(s) at depth %d" % (n, d0)
                if res["crash"] is not None:
                    return False, "deepen raises on a %s: %s" % (where, res["crash"]), runs
                want = [(c, k == 0) for k, c in enumerate(res["cells"])]
                got = res["calls"]
                if [c for c, _ in got] != [c for c, _ in want]:
                    idx = [res["cells"].index(c) if c in res["cells"] else "a cell outside the layer" for c, _ in got]
                    return False, ("on a %s deepen expands %s (expected every cell of that layer exactly once, in order)" % (where, idx)), runs
                if [f for _, f in got] != [f for _, f in want]:
                    return False, ("on a %s the newlayer arguments are %s (expected True for the first cell only)" % (where, [f for _, f in got])), runs
    return True, ("deepen expands each cell of the layer that was deepest at the call exactly once, in order, newlayer true exactly for the "
                  "first (abstract runs on layers of 0-3 cells at depths 0 and 2: %d)" % runs), runs
