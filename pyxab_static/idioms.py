"""E7 - idiom recognisers.  Each returns a semantic record; rules compare records, never text positions.

ArgExtremum  fold loops (value variable + best variable, or comparison against the incumbent's key, or the
             index variant), np.argmax / np.argmin, sorted(..)[0|-1].
RunningMean  M = (M*n + r)/(n+1)
"""
import ast
import copy

from .model import is_self_attr, method_name
from .report import norm_src
from .symx import safe_simplify

_OPS = {ast.GtE: ">=", ast.Gt: ">", ast.LtE: "<=", ast.Lt: "<"}
_FLIP = {">=": "<=", ">": "<", "<=": ">=", "<": ">"}


class Fold:
    def __init__(self):
        self.kind = None          # 'value-var' | 'incumbent' | 'index' | 'argmax-call'
        self.loop = None          # outermost ast.For of the fold
        self.inner = None         # innermost ast.For (whose target is the candidate)
        self.cand = None          # source of the candidate variable
        self.set_src = None       # source of the iterated collection (innermost loop's iter)
        self.key = None           # AST of the key as a function of the candidate (temps inlined)
        self.key_src = None
        self.direction = None     # 'max' | 'min'
        self.strict = None        # True if '>' / '<'
        self.seed = None          # source of the initial incumbent value ('-np.inf', ...) or 'first-element'
        self.best = None          # source of the variable that receives the winner
        self.best_value = None    # AST of what is stored as the winner (cand, cand.get_cpoint(), ...)
        self.value_var = None
        self.filters = []         # sources of conditions (with polarity) guarding the comparison inside the loop
        self.if_node = None
        self.also = []            # other statements of the update block
        self.covers_all = True    # incumbent variant: seed X[0] + loop X[1:]
        self.elem = None          # source of the candidate ELEMENT (cand itself, or X[cand] when cand is an index over X)
        self.winner = None        # source of the expression that denotes the winning element (best, or X[best])

    def describe(self):
        return ("%s over %s, key %s, %s%s, seed %s, winner -> %s%s" % (
            self.kind, self.set_src, self.key_src, self.direction, " (strict)" if self.strict else "", self.seed, self.best,
            ", filters %s" % self.filters if self.filters else ""))


def _loops_in(fn):
    return [n for n in ast.walk(fn) if isinstance(n, ast.For)]


def _parents(root):
    par = {}
    for n in ast.walk(root):
        for c in ast.iter_child_nodes(n):
            par[id(c)] = n
    return par


def _mentions(e, name):
    return any(isinstance(x, ast.Name) and x.id == name for x in ast.walk(e))


def _inline_temps(e, loop_body_stmts, upto):
    """Replace Names assigned once, earlier in the same loop body, by their definitions."""
    defs = {}
    for s in loop_body_stmts:
        if s is upto:
            break
        if isinstance(s, ast.Assign) and len(s.targets) == 1 and isinstance(s.targets[0], ast.Name):
            defs[s.targets[0].id] = s.value

    class Sub(ast.NodeTransformer):
        def visit_Name(self, n):
            if isinstance(n.ctx, ast.Load) and n.id in defs:
                return Sub().visit(ast.parse(ast.unparse(defs[n.id]), mode="eval").body)
            return n
    return Sub().visit(ast.parse(ast.unparse(e), mode="eval").body)


def _enclosing_chain(par, node, stop):
    """Statements enclosing `node` up to (excluding) `stop`, innermost first, with the branch taken."""
    out = []
    cur = node
    while True:
        p = par.get(id(cur))
        if p is None or p is stop:
            if p is stop:
                out.append((p, cur))
            break
        out.append((p, cur))
        cur = p
    return out


def core_comparison(test):
    """A compound update test of a fold, e.g. `r >= m and (best is None or r > m)`: when the test is a boolean combination of
    order comparisons of ONE pair (a, b) and of None-tests of one variable, and it holds whenever a is on the winning side
    of b and fails whenever it is on the losing side, it is an arg-extremum update.  Returns (Compare, none_var) with Compare
    the equivalent single comparison `a OP b` (strict when ties are rejected once an incumbent exists), else None."""
    atoms = []
    pair = [None]
    nonev = [None]
    ok = [True]

    def ev(e, world):
        rel, isnone = world
        if isinstance(e, ast.BoolOp):
            vals = [ev(v, world) for v in e.values]
            return all(vals) if isinstance(e.op, ast.And) else any(vals)
        if isinstance(e, ast.UnaryOp) and isinstance(e.op, ast.Not):
            return not ev(e.operand, world)
        if isinstance(e, ast.Compare) and len(e.ops) == 1:
            op = _OPS.get(type(e.ops[0]))
            l, r = norm_src(e.left), norm_src(e.comparators[0])
            if op is not None:
                if pair[0] is None:
                    pair[0] = (l, r, e)
                if (l, r) == pair[0][:2]:
                    o = op
                elif (r, l) == pair[0][:2]:
                    o = _FLIP[op]
                else:
                    ok[0] = False
                    return False
                return {">": rel > 0, ">=": rel >= 0, "<": rel < 0, "<=": rel <= 0}[o]
            if isinstance(e.ops[0], (ast.Is, ast.IsNot)) and isinstance(e.comparators[0], ast.Constant) and e.comparators[0].value is None and \
                    isinstance(e.left, ast.Name):
                if nonev[0] is None:
                    nonev[0] = e.left.id
                if nonev[0] != e.left.id:
                    ok[0] = False
                    return False
                return isnone if isinstance(e.ops[0], ast.Is) else not isnone
        ok[0] = False
        return False
    table = {(rel, n): ev(test, (rel, n)) for rel in (-1, 0, 1) for n in (True, False)}
    if not ok[0] or pair[0] is None:
        return None
    base = pair[0][2]
    if all(table[(1, n)] for n in (True, False)) and not any(table[(-1, n)] for n in (True, False)):
        op = ast.GtE() if table[(0, False)] else ast.Gt()
    elif all(table[(-1, n)] for n in (True, False)) and not any(table[(1, n)] for n in (True, False)):
        op = ast.LtE() if table[(0, False)] else ast.Lt()
    else:
        return None
    cmp_ = ast.copy_location(ast.Compare(left=base.left, ops=[op], comparators=[base.comparators[0]]), base)
    return cmp_, nonev[0]


def find_folds(fn):
    """All arg-extremum folds in a function."""
    par = _parents(fn)
    folds = []
    for I0 in ast.walk(fn):
        if not isinstance(I0, ast.If):
            continue
        I = I0
        none_var = None
        test = I.test
        extra_filters = []
        if isinstance(test, ast.BoolOp) and isinstance(test.op, ast.And) and core_comparison(test) is None:
            # `<filters> and key(cand) >= incumbent`: the conjunct that compares with a variable updated in the body is the fold's
            # comparison, the other conjuncts are filters on the candidate (they must not mention that variable)
            stored = {norm_src(t) for s2 in I.body if isinstance(s2, ast.Assign) for t in s2.targets}
            picks = [v for v in test.values if isinstance(v, ast.Compare) and len(v.ops) == 1 and type(v.ops[0]) in _OPS and
                     (norm_src(v.left) in stored or norm_src(v.comparators[0]) in stored)]
            if len(picks) == 1:
                inc = norm_src(picks[0].left) if norm_src(picks[0].left) in stored else norm_src(picks[0].comparators[0])
                others = [v for v in test.values if v is not picks[0]]
                if not any(inc == norm_src(n) for v in others for n in ast.walk(v) if isinstance(n, (ast.Name, ast.Attribute))):
                    # short-circuit order: filters written after the comparison are evaluated only when it holds - as a set of
                    # conditions for the update this is the same conjunction
                    test = picks[0]
                    extra_filters = [(norm_src(v), True) for v in others]
        if isinstance(test, (ast.BoolOp, ast.UnaryOp)):
            cc = core_comparison(test)
            if cc is None:
                continue
            test, none_var = cc
        if not isinstance(test, ast.Compare) or len(test.ops) != 1:
            continue
        op = _OPS.get(type(test.ops[0]))
        if op is None:
            continue
        # innermost enclosing for loop
        chain = []
        cur = I
        inner = None
        while True:
            p = par.get(id(cur))
            if p is None:
                break
            if isinstance(p, ast.For) and cur in p.body:
                inner = p
                break
            if isinstance(p, (ast.FunctionDef, ast.While)):
                break
            chain.append((p, cur))
            cur = p
        if inner is None:
            continue
        cand_names = [x.id for x in ast.walk(inner.target) if isinstance(x, ast.Name)]
        if not cand_names:
            continue
        cand = cand_names[0]
        left, right = test.left, test.comparators[0]
        inside_if = set(id(x) for x in ast.walk(I))
        body_stmts = [b for b in _flatten_block(inner.body) if id(b) not in inside_if]
        L = _inline_temps(left, body_stmts, None)
        R = _inline_temps(right, body_stmts, None)
        lm, rm = any(_mentions(L, c) for c in cand_names), any(_mentions(R, c) for c in cand_names)
        # assignments in the update block
        assigns = [s for s in I.body if isinstance(s, ast.Assign) and len(s.targets) == 1]
        f = Fold()
        f.if_node = I
        f.inner = inner
        f.cand = cand
        f.set_src = norm_src(inner.iter)
        # filters: enclosing ifs between the loop and the comparison
        for p, child in chain:
            if isinstance(p, ast.If):
                f.filters.append((norm_src(p.test), child in p.body))
        f.filters.extend(extra_filters)
        # outermost loop of the nest
        outer = inner
        while True:
            p = par.get(id(outer))
            q = outer
            while p is not None and not isinstance(p, (ast.For, ast.FunctionDef, ast.While)):
                q = p
                p = par.get(id(p))
            if isinstance(p, ast.For) and q in p.body:
                outer = p
            else:
                break
        f.loop = outer
        if lm != rm:
            # value-variable form: candidate key vs. stored incumbent value
            candside, incside = (L, R) if lm else (R, L)
            o = op if lm else _FLIP[op]
            f.kind = "value-var"
            f.key = candside
            f.key_src = norm_src(candside)
            f.direction = "max" if o in (">=", ">") else "min"
            f.strict = o in (">", "<")
            f.value_var = norm_src(right if lm else left)
            best = None
            val_ok = False
            for s in assigns:
                t = norm_src(s.targets[0])
                v = _inline_temps(s.value, body_stmts, None)
                if t == f.value_var:
                    val_ok = norm_src(v) == f.key_src
                    if not val_ok:
                        f.also.append("incumbent value set to %s, not to the compared key" % norm_src(v))
                elif any(_mentions(v, c) for c in cand_names) or (isinstance(s.value, ast.Name) and s.value.id in _loopvars(par, I)):
                    if best is None:
                        best = s
                    else:
                        f.also.append(norm_src(s))
                else:
                    f.also.append(norm_src(s))
            if best is None:
                continue
            f.best = norm_src(best.targets[0])
            f.best_value = best.value
            if none_var is not None and none_var != f.best:
                f.also.append("the update test also consults '%s is None'" % none_var)
            if not val_ok and not any(norm_src(s.targets[0]) == f.value_var for s in assigns):
                f.also.append("incumbent value '%s' is never updated" % f.value_var)
            f.seed, f.loop = _seed_of(fn, par, f.value_var, inner)
            if any(isinstance(x, ast.Call) for x in ast.walk(right if lm else left)):
                continue      # compared against a key of the incumbent: handled by the incumbent form below
            folds.append(f)
        elif lm and rm:
            continue
        else:
            # incumbent form: key(cand) OP key(best) where best is assigned cand in the body
            pass
    # incumbent form (both sides mention different variables: candidate and incumbent)
    for I in ast.walk(fn):
        if not isinstance(I, ast.If) or not isinstance(I.test, ast.Compare) or len(I.test.ops) != 1:
            continue
        op = _OPS.get(type(I.test.ops[0]))
        if op is None:
            continue
        p = par.get(id(I))
        if not (isinstance(p, ast.For) and I in p.body and isinstance(p.target, ast.Name)):
            continue
        cand = p.target.id
        assigns = [s for s in I.body if isinstance(s, ast.Assign) and len(s.targets) == 1 and isinstance(s.targets[0], ast.Name)
                   and isinstance(s.value, ast.Name) and s.value.id == cand]
        if len(assigns) != 1:
            continue
        best = assigns[0].targets[0].id
        left, right = I.test.left, I.test.comparators[0]
        ls, rs = norm_src(left), norm_src(right)
        if _mentions(left, cand) and _mentions(right, best) and not _mentions(left, best) and not _mentions(right, cand):
            o = op
            candside, incside = left, right
        elif _mentions(right, cand) and _mentions(left, best) and not _mentions(right, best) and not _mentions(left, cand):
            o = _FLIP[op]
            candside, incside = right, left
        else:
            continue
        # same key on both sides
        swapped = norm_src(_rename(incside, best, cand))
        f = Fold()
        f.kind = "incumbent"
        f.if_node = I
        f.loop = f.inner = p
        f.cand = cand
        f.set_src = norm_src(p.iter)
        f.key = candside
        f.key_src = norm_src(candside)
        if swapped != f.key_src:
            f.also.append("candidate key %s differs from incumbent key %s" % (f.key_src, norm_src(incside)))
        f.direction = "max" if o in (">=", ">") else "min"
        f.strict = o in (">", "<")
        f.best = best
        f.best_value = assigns[0].value
        f.also += [norm_src(s) for s in I.body if s is not assigns[0]]
        # seed: best = X[0] before the loop and loop over X[1:]
        seed = None
        blk = _stmt_list_of(par, p)
        if blk is not None:
            i = blk.index(p)
            for s in reversed(blk[:i]):
                if isinstance(s, ast.Assign) and len(s.targets) == 1 and norm_src(s.targets[0]) == best:
                    seed = s.value
                    break
        f.seed = norm_src(seed) if seed is not None else None
        f.covers_all = False
        if seed is not None and isinstance(seed, ast.Subscript) and norm_src(seed.slice) == "0" and isinstance(p.iter, ast.Subscript) \
                and isinstance(p.iter.slice, ast.Slice) and p.iter.slice.lower is not None and norm_src(p.iter.slice.lower) == "1" \
                and p.iter.slice.upper is None and p.iter.slice.step is None and norm_src(p.iter.value) == norm_src(seed.value):
            f.covers_all = True
            f.set_src = norm_src(seed.value)
            f.seed = "first-element"
        elif seed is not None and isinstance(seed, ast.Subscript) and norm_src(seed.slice) == "0" and norm_src(p.iter) == norm_src(seed.value):
            f.covers_all = True
            f.set_src = norm_src(seed.value)
            f.seed = "first-element"
        folds.append(f)
    for f in folds:
        _finish(f, fn, par)
    return folds


def _index_loop(it):
    """range(len(X)) / range(0, len(X)) / range(1, len(X)) -> (source of X, start) else None."""
    if isinstance(it, ast.Call) and isinstance(it.func, ast.Name) and it.func.id == "range" and not it.keywords and len(it.args) in (1, 2):
        hi = it.args[-1]
        lo = norm_src(it.args[0]) if len(it.args) == 2 else "0"
        if isinstance(hi, ast.Call) and isinstance(hi.func, ast.Name) and hi.func.id == "len" and len(hi.args) == 1 and lo in ("0", "1"):
            return norm_src(hi.args[0]), int(lo)
    return None


def _finish(f, fn, par):
    """Element / winner expressions and first-element seeding, uniformly for all fold forms:
       best = X[0] (; value = key(best)); for c in X[1:] | X          -> seed 'first-element' over X
       best = 0    (; value = key(X[0])); for k in range(1|0, len(X))  -> the same, index form."""
    inner = f.inner
    f.elem, f.winner = f.cand, f.best
    idx = _index_loop(inner.iter) if inner is not None else None
    X = None
    start = 0
    if idx is not None and isinstance(inner.target, ast.Name) and f.key is not None and \
            any(isinstance(x, ast.Subscript) and norm_src(x) == "%s[%s]" % (idx[0], inner.target.id) for x in ast.walk(f.key)):
        X, start = idx
        f.elem = "%s[%s]" % (X, inner.target.id)
        if f.best_value is not None and norm_src(f.best_value) == inner.target.id:
            f.winner = "%s[%s]" % (X, f.best)
        f.set_src = X if start == 0 else "%s[1:]" % X
    elif inner is not None:
        it = inner.iter
        if isinstance(it, ast.Subscript) and isinstance(it.slice, ast.Slice) and it.slice.upper is None and it.slice.step is None and \
                it.slice.lower is not None and norm_src(it.slice.lower) == "1":
            X, start = norm_src(it.value), 1
        elif not isinstance(it, ast.Call):
            X, start = norm_src(it), 0
    if X is None or f.best is None or f.seed == "first-element":
        return
    bseed, _ = _seed_of(fn, par, f.best, inner)
    first = None
    if bseed is not None:
        if idx is not None and bseed == "0":
            first = "%s[0]" % X
        elif idx is None and bseed == "%s[0]" % X:
            first = bseed
    if first is None:
        if start == 1:
            f.covers_all = False
        return
    key_of_first = {f.key_src.replace(f.elem, first), f.key_src.replace(f.elem, f.winner)} if f.key_src else set()
    if f.kind == "value-var":
        if f.seed not in key_of_first:
            if start == 1:
                f.covers_all = False
            return
    f.seed = "first-element"
    f.covers_all = True
    f.set_src = X


def _rename(e, old, new):
    class R(ast.NodeTransformer):
        def visit_Name(self, n):
            if n.id == old:
                return ast.copy_location(ast.Name(id=new, ctx=n.ctx), n)
            return n
    return R().visit(ast.parse(ast.unparse(e), mode="eval").body)


def _loopvars(par, node):
    out = set()
    p = par.get(id(node))
    while p is not None:
        if isinstance(p, ast.For):
            for x in ast.walk(p.target):
                if isinstance(x, ast.Name):
                    out.add(x.id)
        p = par.get(id(p))
    return out


def _flatten_block(stmts):
    out = []
    for s in stmts:
        out.append(s)
        if isinstance(s, ast.If):
            out += _flatten_block(s.body) + _flatten_block(s.orelse)
    return out


def _stmt_list_of(par, stmt):
    p = par.get(id(stmt))
    if p is None:
        return None
    for f in ("body", "orelse"):
        b = getattr(p, f, None)
        if isinstance(b, list) and stmt in b:
            return b
    return None


def _seed_of(fn, par, var, inner):
    """Initial value of the incumbent-value variable: its last assignment before the loop nest, searched from
    the innermost loop outwards.  Returns (seed source or None, the loop of the nest that the seed precedes)."""
    node = inner
    while node is not None and not isinstance(node, ast.FunctionDef):
        if isinstance(node, (ast.For, ast.While)):
            blk = _stmt_list_of(par, node)
            if blk is not None:
                i = blk.index(node)
                for s in reversed(blk[:i]):
                    if isinstance(s, ast.Assign) and any(norm_src(t) == var for t in s.targets):
                        return norm_src(s.value), node
        node = par.get(id(node))
    return None, inner


def reduction_of(loop):
    """`for x in S: acc = max(acc, key(x))` and equivalent spellings (np.maximum / min / np.minimum with either argument
    order, `if key(x) > acc: acc = key(x)`, `acc += key(x)`): returns (acc name, 'max'|'min'|'sum', key AST, element name) or None."""
    if not (isinstance(loop, ast.For) and isinstance(loop.target, ast.Name) and not loop.orelse):
        return None
    x = loop.target.id
    body = [b for b in loop.body if not (isinstance(b, ast.Expr) and isinstance(b.value, ast.Constant))]
    # temporaries of the body are inlined into the last statement
    if not body:
        return None
    last = body[-1]
    pre = body[:-1]
    if any(not (isinstance(b, ast.Assign) and len(b.targets) == 1 and isinstance(b.targets[0], ast.Name)) for b in pre):
        return None

    def inl(e):
        return _inline_temps(e, pre, None)
    if isinstance(last, ast.Assign) and len(last.targets) == 1 and isinstance(last.targets[0], ast.Name) and isinstance(last.value, ast.Call) \
            and len(last.value.args) == 2 and not last.value.keywords:
        acc = last.targets[0].id
        f = norm_src(last.value.func)
        op = {"np.maximum": "max", "max": "max", "numpy.maximum": "max", "np.minimum": "min", "min": "min", "numpy.minimum": "min"}.get(f)
        a, b = last.value.args
        if op and isinstance(a, ast.Name) and a.id == acc:
            key = inl(b)
        elif op and isinstance(b, ast.Name) and b.id == acc:
            key = inl(a)
        else:
            return None
        if _mentions(key, acc) or not _mentions(key, x) or any(b2.targets[0].id == acc for b2 in pre):
            return None
        return acc, op, key, x
    if isinstance(last, ast.AugAssign) and isinstance(last.op, ast.Add) and isinstance(last.target, ast.Name):
        acc = last.target.id
        key = inl(last.value)
        if _mentions(key, acc) or not _mentions(key, x) or any(b2.targets[0].id == acc for b2 in pre):
            return None
        return acc, "sum", key, x
    if isinstance(last, ast.If) and not last.orelse and isinstance(last.test, ast.Compare) and len(last.test.ops) == 1 and len(last.body) == 1 and \
            isinstance(last.body[0], ast.Assign) and len(last.body[0].targets) == 1 and isinstance(last.body[0].targets[0], ast.Name):
        acc = last.body[0].targets[0].id
        o = _OPS.get(type(last.test.ops[0]))
        l, r = inl(last.test.left), inl(last.test.comparators[0])
        v = inl(last.body[0].value)
        if o is None:
            return None
        if isinstance(r, ast.Name) and r.id == acc and norm_src(l) == norm_src(v):
            key, oo = l, o
        elif isinstance(l, ast.Name) and l.id == acc and norm_src(r) == norm_src(v):
            key, oo = r, _FLIP[o]
        else:
            return None
        if _mentions(key, acc) or not _mentions(key, x) or any(b2.targets[0].id == acc for b2 in pre):
            return None
        return acc, ("max" if oo in (">", ">=") else "min"), key, x
    return None


def assignments_outside(fn, var, fold):
    """Assignments to `var` in fn other than the fold's own update and its seed."""
    out = []
    for s in ast.walk(fn):
        if isinstance(s, ast.Assign) and any(norm_src(t) == var for t in s.targets):
            if s in fold.if_node.body:
                continue
            out.append(s)
    return out


# ---------------------------------------------------------------------------


def running_mean_shape(store_value, M, n, r):
    """Is sympy `store_value` == (M*n + r)/(n + 1)?"""
    import sympy as sp
    return safe_simplify(store_value - (M * n + r) / (n + 1)) == 0
