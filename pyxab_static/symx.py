"""E3 - expression algebra: Python AST -> sympy, one expression at a time.

sympy is used only to normalise single expressions (is `code - reference`
identically zero?); it is never given path conditions.
"""
import ast

import sympy as sp

from .report import AnalysisError, norm_src


class Untranslatable(AnalysisError):
    pass


SUM = sp.Function("SUM")      # sum of the elements of a list
LEN = sp.Function("LEN")      # number of elements of a list
VAR = sp.Function("VAR")      # population variance of a list
APPEND = sp.Function("APPEND")  # list with one more element
ELEM = sp.Function("ELEM")    # element of a list
OPAQUE = {}


def opaque(name, *args):
    f = OPAQUE.get(name)
    if f is None:
        f = sp.Function(name)
        OPAQUE[name] = f
    return f(*args)


_FUNCS1 = {
    "exp": sp.exp, "sqrt": sp.sqrt, "sin": sp.sin, "cos": sp.cos, "tan": sp.tan,
    "abs": sp.Abs, "fabs": sp.Abs, "absolute": sp.Abs, "ceil": sp.ceiling, "floor": sp.floor,
    "log2": lambda x: sp.log(x) / sp.log(2), "log10": lambda x: sp.log(x) / sp.log(10),
    "float": lambda x: x, "int": lambda x: sp.floor(x), "array": lambda x: x, "asarray": lambda x: x,
    "square": lambda x: x ** 2,
}
_NS = ("np", "numpy", "math")


class Translator:
    """name(id) -> expr or None;  attr(ast.Attribute) -> expr or None;  call(ast.Call, self) -> expr or None."""

    def __init__(self, name=None, attr=None, call=None, positive=True):
        self.name_cb = name
        self.attr_cb = attr
        self.call_cb = call
        self.positive = positive
        self.symbols = {}
        self.opaque_unknown = False

    def sym(self, name, **kw):
        if name not in self.symbols:
            if not kw:
                kw = dict(positive=True) if self.positive else dict(real=True)
            self.symbols[name] = sp.Symbol(name, **kw)
        return self.symbols[name]

    def tr(self, e):
        if isinstance(e, ast.Constant):
            v = e.value
            if isinstance(v, bool):
                return sp.true if v else sp.false
            if isinstance(v, int):
                return sp.Integer(v)
            if isinstance(v, float):
                return sp.nsimplify(v, rational=True)
            if v is None:
                return sp.Symbol("None")
            raise Untranslatable("constant %r" % (v,))
        if isinstance(e, ast.Name):
            if self.name_cb is not None:
                r = self.name_cb(e.id)
                if r is not None:
                    return r
            return self.sym(e.id)
        if isinstance(e, ast.Attribute):
            s = norm_src(e)
            if s in ("np.pi", "math.pi", "numpy.pi"):
                return sp.pi
            if s in ("np.e", "math.e", "numpy.e"):
                return sp.E
            if s in ("np.inf", "math.inf", "numpy.inf", "np.Inf"):
                return sp.oo
            if self.attr_cb is not None:
                r = self.attr_cb(e)
                if r is not None:
                    return r
            return self.sym(s)
        if isinstance(e, ast.UnaryOp):
            v = self.tr(e.operand)
            if isinstance(e.op, ast.USub):
                return -v
            if isinstance(e.op, ast.UAdd):
                return v
            if isinstance(e.op, ast.Not):
                return sp.Not(v)
            raise Untranslatable("unary operator")
        if isinstance(e, ast.BinOp):
            a, b = self.tr(e.left), self.tr(e.right)
            if isinstance(e.op, ast.Add):
                return a + b
            if isinstance(e.op, ast.Sub):
                return a - b
            if isinstance(e.op, ast.Mult):
                return a * b
            if isinstance(e.op, ast.Div):
                return a / b
            if isinstance(e.op, ast.Pow):
                return a ** b
            if isinstance(e.op, ast.FloorDiv):
                return sp.floor(a / b)
            if isinstance(e.op, ast.Mod):
                return sp.Mod(a, b)
            raise Untranslatable("operator %s" % type(e.op).__name__)
        if isinstance(e, ast.Call):
            if self.call_cb is not None:
                r = self.call_cb(e, self)
                if r is not None:
                    return r
            return self.call(e)
        if isinstance(e, ast.Subscript):
            base = self.tr(e.value)
            idx = self.tr(e.slice) if not isinstance(e.slice, ast.Slice) else sp.Symbol("SLICE")
            return ELEM(base, idx)
        if isinstance(e, ast.IfExp):
            return opaque("IFEXP", self.tr(e.body), self.tr(e.orelse))
        if isinstance(e, ast.Compare) and len(e.ops) == 1:
            a, b = self.tr(e.left), self.tr(e.comparators[0])
            op = e.ops[0]
            try:
                if isinstance(op, ast.Lt):
                    return sp.Lt(a, b)
                if isinstance(op, ast.LtE):
                    return sp.Le(a, b)
                if isinstance(op, ast.Gt):
                    return sp.Gt(a, b)
                if isinstance(op, ast.GtE):
                    return sp.Ge(a, b)
                if isinstance(op, ast.Eq):
                    return sp.Eq(a, b)
                if isinstance(op, ast.NotEq):
                    return sp.Ne(a, b)
            except TypeError:
                pass
            raise Untranslatable("comparison %s" % norm_src(e))
        if isinstance(e, (ast.List, ast.Tuple)):
            return opaque("LIST", *[self.tr(x) for x in e.elts])
        if isinstance(e, (ast.ListComp, ast.GeneratorExp, ast.SetComp, ast.DictComp, ast.Dict, ast.Lambda)):
            return sp.Symbol("OPAQUE_%s_%d" % (type(e).__name__, abs(hash(norm_src(e))) % 100000))
        raise Untranslatable("expression %s" % type(e).__name__)

    def reduction_call(self, e):
        """functools.reduce(np.maximum|max|np.minimum|min, [key(x) for x in S], seed) and max/min(<comprehension>[, default=seed]):
        REDUCE_op(seed, S, key(ELEM)) - the same term the loop form `acc = seed; for x in S: acc = op(acc, key(x))` gets."""
        name = norm_src(e.func)
        comp = seed = op = None
        if name in ("functools.reduce", "reduce") and len(e.args) in (2, 3) and not e.keywords:
            op = {"np.maximum": "max", "max": "max", "numpy.maximum": "max", "np.minimum": "min", "min": "min", "numpy.minimum": "min"}.get(norm_src(e.args[0]))
            comp = e.args[1]
            seed = e.args[2] if len(e.args) == 3 else None
        elif name in ("max", "min", "np.max", "np.min", "np.amax", "np.amin") and len(e.args) == 1:
            op = "max" if name.endswith("max") else "min"
            comp = e.args[0]
            kws = {k.arg: k.value for k in e.keywords}
            if set(kws) - {"default", "initial"}:
                return None
            seed = kws.get("default", kws.get("initial"))
        if op is None or not isinstance(comp, (ast.ListComp, ast.GeneratorExp)) or len(comp.generators) != 1 or comp.generators[0].ifs or \
                not isinstance(comp.generators[0].target, ast.Name) or seed is None:
            return None
        x = comp.generators[0].target.id

        class R(ast.NodeTransformer):
            def visit_Name(self, n):
                return ast.copy_location(ast.Name(id="ELEM", ctx=n.ctx), n) if n.id == x else n
        key = R().visit(ast.parse(ast.unparse(comp.elt), mode="eval").body)
        return sp.Function("REDUCE_" + op)(self.tr(seed), self.tr(comp.generators[0].iter), self.tr(key))

    def call(self, e):
        name = norm_src(e.func)
        r = self.reduction_call(e)
        if r is not None:
            return r
        parts = name.split(".")
        fn = parts[-1]
        ns = parts[0] if len(parts) > 1 else None
        args = [self.tr(a) for a in e.args]
        kw = {k.arg: self.tr(k.value) for k in e.keywords if k.arg}
        if ns in _NS or ns is None:
            if fn == "log":
                if len(args) == 2:
                    return sp.log(args[0]) / sp.log(args[1])
                if len(args) == 1:
                    return sp.log(args[0])
            if fn in ("power", "pow") and len(args) == 2:
                return args[0] ** args[1]
            if fn in ("minimum", "min") and len(args) >= 2:
                return sp.Min(*args)
            if fn in ("maximum", "max") and len(args) >= 2:
                return sp.Max(*args)
            if fn in ("sum",) and len(args) == 1:
                return SUM(args[0])
            if fn in ("mean", "average") and len(args) == 1:
                return SUM(args[0]) / LEN(args[0])
            if fn == "var" and len(args) == 1:
                return VAR(args[0])
            if fn == "len" and len(args) == 1:
                return LEN(args[0])
            if fn in _FUNCS1 and len(args) == 1:
                return _FUNCS1[fn](args[0])
        if self.opaque_unknown:
            import re
            return opaque("CALL_" + re.sub(r"\W", "_", name), *(args + list(kw.values())))
        raise Untranslatable("call %s" % norm_src(e))


_PW = (sp.Min, sp.Max, sp.floor, sp.ceiling, sp.Abs, sp.Mod)


class _Timeout(Exception):
    pass


class time_limit:
    """Bound the time sympy may spend on one normalisation (simplify can diverge on nested floor/ceiling)."""

    def __init__(self, seconds):
        self.seconds = seconds
        self.active = False

    def __enter__(self):
        import signal
        import threading
        if threading.current_thread() is threading.main_thread():
            self.active = True
            self.old = signal.signal(signal.SIGALRM, self._raise)
            signal.setitimer(signal.ITIMER_REAL, self.seconds)
        return self

    def _raise(self, *a):
        raise _Timeout()

    def __exit__(self, *a):
        import signal
        if self.active:
            signal.setitimer(signal.ITIMER_REAL, 0)
            signal.signal(signal.SIGALRM, self.old)
        return False


def safe_simplify(e, seconds=8):
    """sympy.simplify with a time limit; returns the input unchanged when the limit is hit."""
    try:
        with time_limit(seconds):
            return sp.simplify(e)
    except _Timeout:
        return e


def _abstract_pw(e, table):
    """Replace every piecewise function application (min/max/floor/ceiling/abs/mod) by a symbol, bottom-up;
    two applications get the same symbol iff they are the same function of provably equal arguments."""
    if not e.args:
        return e
    args = [_abstract_pw(a, table) for a in e.args]
    if isinstance(e, _PW) or e.func in _PW:
        for (f, old_args), sym in table:
            if f is e.func and len(old_args) == len(args):
                if e.func in (sp.Min, sp.Max):
                    # order-insensitive
                    rest = list(old_args)
                    ok = True
                    for x in args:
                        hit = [y for y in rest if _eq_analytic(x, y)]
                        if not hit:
                            ok = False
                            break
                        rest.remove(hit[0])
                    if ok:
                        return sym
                elif all(_eq_analytic(x, y) for x, y in zip(args, old_args)):
                    return sym
        sym = sp.Symbol("PW%d_%s" % (len(table), e.func.__name__), real=True)
        table.append(((e.func, args), sym))
        return sym
    try:
        return e.func(*args)
    except Exception:
        return e


def _eq_analytic(a, b):
    r, _ = _equivalent_analytic(a, b)
    return r is True


def equivalent(a, b, samples=6):
    """Decide a == b as expressions over positive/real symbols.
    Returns (True, None) | (False, witness) | (None, reason).
    Piecewise parts (min/max/floor/ceiling/abs) are compared structurally - same function of equal arguments -
    because a numeric identity test at a few points cannot distinguish e.g. min(x, 8) from x."""
    if a == b:
        return True, None
    a, b = sp.sympify(a), sp.sympify(b)
    if a.has(*_PW) or b.has(*_PW):
        table = []
        a2 = _abstract_pw(a, table)
        b2 = _abstract_pw(b, table)
        r, w = _equivalent_analytic(a2, b2)
        if r is True:
            return True, None
        wit = _numeric_witness(a - b)
        return False, wit
    return _equivalent_analytic(a, b, samples)


def _numeric_witness(d):
    try:
        with time_limit(5):
            return _numeric_witness_inner(d)
    except _Timeout:
        return None


def _numeric_witness_inner(d):
    syms = sorted(d.free_symbols, key=lambda s: s.name)
    # small values only: towers such as n**(h*n) with n = 1e5 keep a C-level big-number routine busy for minutes
    vals = [sp.Rational(3, 2), sp.Rational(7, 3), sp.Integer(3), sp.Rational(5, 4), sp.Rational(1, 3), sp.Integer(2), sp.Rational(2, 5)]
    for k in range(len(vals) * 2):
        sub = {s: vals[(i + k) % len(vals)] for i, s in enumerate(syms)}
        try:
            v = d.subs(sub)
            for j, f in enumerate(sorted(v.atoms(sp.core.function.AppliedUndef), key=str)):
                v = v.subs(f, vals[(j + k) % len(vals)])
            if abs(complex(sp.N(v, 30))) > 1e-12:
                return {str(s): str(x) for s, x in sub.items()}
        except Exception:
            continue
    return None


def _equivalent_analytic(a, b, samples=6):
    if a == b:
        return True, None
    d = a - b
    try:
        with time_limit(8):
            d = sp.simplify(a - b)
    except _Timeout:
        d = a - b
    except Exception as ex:  # pragma: no cover
        return None, "sympy failed: %r" % (ex,)
    if d == 0:
        return True, None
    try:
        with time_limit(8):
            d2 = sp.simplify(sp.expand_log(sp.expand(d), force=True))
            if d2 == 0:
                return True, None
            d3 = sp.simplify(sp.powsimp(sp.expand_power_base(d, force=True), force=True))
            if d3 == 0:
                return True, None
    except (_Timeout, Exception):
        pass
    # numeric witness at rational points (for the reader; also guards against simplify's incompleteness)
    syms = sorted(d.free_symbols, key=lambda s: s.name)
    funcs = d.atoms(sp.core.function.AppliedUndef)
    import itertools
    primes = [sp.Rational(3, 2), sp.Rational(7, 3), sp.Rational(5, 4), sp.Rational(11, 5), sp.Rational(13, 7),
              sp.Rational(17, 6), sp.Rational(19, 8), sp.Rational(23, 9)]
    nonzero = None
    allzero = True
    for k in range(samples):
        sub = {s: primes[(i + k) % len(primes)] + k for i, s in enumerate(syms)}
        try:
            with time_limit(5):
                val = d.subs(sub)
                for j, f in enumerate(sorted(val.atoms(sp.core.function.AppliedUndef), key=str)):
                    val = val.subs(f, primes[(j + 2 * k) % len(primes)])
                v = complex(sp.N(val, 30))
        except (_Timeout, Exception):
            return None, "cannot evaluate the difference numerically"
        if abs(v) > 1e-12:
            allzero = False
            nonzero = {str(s): str(x) for s, x in sub.items()}
            break
    if allzero:
        return True, None
    return False, nonzero
