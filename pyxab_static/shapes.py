"""Small shape predicates shared by the rules (tolerant of equivalent spellings)."""
import ast

from .report import norm_src


def is_increment(stmt, loc, by=1):
    """`loc += by`, `loc = loc + by`, `loc = by + loc`."""
    if isinstance(stmt, ast.AugAssign) and isinstance(stmt.op, ast.Add) and norm_src(stmt.target) == loc:
        return isinstance(stmt.value, ast.Constant) and stmt.value.value == by
    if isinstance(stmt, ast.Assign) and len(stmt.targets) == 1 and norm_src(stmt.targets[0]) == loc:
        v = stmt.value
        if isinstance(v, ast.BinOp) and isinstance(v.op, ast.Add):
            l, r = v.left, v.right
            if norm_src(l) == loc and isinstance(r, ast.Constant) and r.value == by:
                return True
            if norm_src(r) == loc and isinstance(l, ast.Constant) and l.value == by:
                return True
    return False


def is_decrement(stmt, loc, by=1):
    if isinstance(stmt, ast.AugAssign) and isinstance(stmt.op, ast.Sub) and norm_src(stmt.target) == loc:
        return isinstance(stmt.value, ast.Constant) and stmt.value.value == by
    if isinstance(stmt, ast.Assign) and len(stmt.targets) == 1 and norm_src(stmt.targets[0]) == loc:
        v = stmt.value
        return isinstance(v, ast.BinOp) and isinstance(v.op, ast.Sub) and norm_src(v.left) == loc and \
            isinstance(v.right, ast.Constant) and v.right.value == by
    return False


def is_add_to(stmt, loc, what_src):
    """`loc += what`, `loc = loc + what`."""
    if isinstance(stmt, ast.AugAssign) and isinstance(stmt.op, ast.Add) and norm_src(stmt.target) == loc:
        return norm_src(stmt.value) == what_src
    if isinstance(stmt, ast.Assign) and len(stmt.targets) == 1 and norm_src(stmt.targets[0]) == loc:
        v = stmt.value
        return isinstance(v, ast.BinOp) and isinstance(v.op, ast.Add) and {norm_src(v.left), norm_src(v.right)} == {loc, what_src}
    return False


def assigned_loc(stmt):
    if isinstance(stmt, ast.Assign) and len(stmt.targets) == 1:
        return norm_src(stmt.targets[0])
    if isinstance(stmt, (ast.AugAssign, ast.AnnAssign)):
        return norm_src(stmt.target)
    return None
