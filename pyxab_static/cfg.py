"""E2 - statement-level control-flow graph of one function, with the queries the
rules need: dominating guards, must-pass-through, stores between two points,
structured definite-assignment helpers.

Nodes are small records wrapping an AST statement (or the test of an if/while,
or the header of a for).  Edges carry a label: None, True / False (outcome of a
test), "iter" / "done" (for header).
"""
import ast

import networkx as nx

from .report import AnalysisError, norm_src


class N:
    """CFG node."""
    __slots__ = ("kind", "ast", "id", "label")

    def __init__(self, kind, node, idx):
        self.kind = kind      # 'entry','exit','raise','stmt','test','for'
        self.ast = node
        self.id = idx
        self.label = None

    def __repr__(self):
        if self.ast is None:
            return "<%s>" % self.kind
        src = norm_src(self.ast.test if self.kind == "test" else
                       (self.ast.iter if self.kind == "for" else self.ast))
        return "<%s %d:%s>" % (self.kind, getattr(self.ast, "lineno", 0), src[:50])

    @property
    def line(self):
        return getattr(self.ast, "lineno", None)


def _const_true(e):
    return isinstance(e, ast.Constant) and bool(e.value) is True and e.value is not None


class CFG:
    def __init__(self, fn):
        self.fn = fn
        self.G = nx.DiGraph()
        self.nodes = []
        self.entry = self._new("entry", None)
        self.exit = self._new("exit", None)       # normal return (explicit or fall-through)
        self.raise_exit = self._new("raise", None)
        self.of_stmt = {}      # id(ast stmt) -> node (for simple stmts: the node; for if/while: test node; for: header)
        self.returns = []      # nodes of Return statements
        self.fallthrough = []  # nodes that flow into exit without a return statement
        body = fn.body
        ends = self._block(body, [(self.entry, None)], None, None)
        for n, lab in ends:
            self._edge(n, self.exit, lab)
            self.fallthrough.append(n)
        self._idom = None
        self._ipdom = None

    # -- construction ---------------------------------------------------
    def _new(self, kind, node):
        n = N(kind, node, len(self.nodes))
        self.nodes.append(n)
        self.G.add_node(n)
        return n

    def _edge(self, a, b, label=None):
        if self.G.has_edge(a, b):
            # keep both labels if a test's two outcomes lead to the same node
            old = self.G[a][b]["labels"]
            old.add(label)
        else:
            self.G.add_edge(a, b, labels={label})

    def _block(self, stmts, preds, brk, cont):
        """preds: list of (node, label) flowing into the block; returns the list flowing out."""
        for s in stmts:
            if not preds:
                # unreachable code still gets nodes (so lookups work) but no incoming edges
                pass
            preds = self._stmt(s, preds, brk, cont)
        return preds

    def _stmt(self, s, preds, brk, cont):
        if isinstance(s, ast.If):
            t = self._new("test", s)
            self.of_stmt[id(s)] = t
            for p, lab in preds:
                self._edge(p, t, lab)
            out = []
            out += self._block(s.body, [(t, True)], brk, cont)
            if s.orelse:
                out += self._block(s.orelse, [(t, False)], brk, cont)
            else:
                out.append((t, False))
            return out
        if isinstance(s, ast.While):
            t = self._new("test", s)
            self.of_stmt[id(s)] = t
            for p, lab in preds:
                self._edge(p, t, lab)
            breaks = []
            conts = []
            body_out = self._block(s.body, [(t, True)], breaks, conts)
            for p, lab in body_out + conts:
                self._edge(p, t, lab)
            out = list(breaks)
            if not _const_true(s.test):
                if s.orelse:
                    out += self._block(s.orelse, [(t, False)], brk, cont)
                else:
                    out.append((t, False))
            return out
        if isinstance(s, ast.For):
            h = self._new("for", s)
            self.of_stmt[id(s)] = h
            for p, lab in preds:
                self._edge(p, h, lab)
            breaks = []
            conts = []
            body_out = self._block(s.body, [(h, "iter")], breaks, conts)
            for p, lab in body_out + conts:
                self._edge(p, h, lab)
            out = list(breaks)
            if s.orelse:
                out += self._block(s.orelse, [(h, "done")], brk, cont)
            else:
                out.append((h, "done"))
            return out
        if isinstance(s, (ast.Try,)):
            # conservative: an exception may leave the protected block after any of its statements (and before the first), so
            # every handler is reachable from the entry of the block and from each node inside it
            entry = self._new("stmt", ast.copy_location(ast.Pass(), s))
            self.of_stmt[id(s)] = entry
            for p, lab in preds:
                self._edge(p, entry, lab)
            first = len(self.nodes)
            out = self._block(s.body, [(entry, None)], brk, cont)
            inside = [n for n in self.nodes[first:] if n.kind in ("stmt", "test", "for")]
            if s.orelse:
                out = self._block(s.orelse, out, brk, cont)
            for h in s.handlers:
                hp = [(entry, None)] + [(n, None) for n in inside]
                out = out + self._block(h.body, hp, brk, cont)
            if s.finalbody:
                out = self._block(s.finalbody, out, brk, cont)
            return out
        if isinstance(s, ast.With):
            raise AnalysisError("with statement in %s" % self.fn.name)
        n = self._new("stmt", s)
        self.of_stmt[id(s)] = n
        for p, lab in preds:
            self._edge(p, n, lab)
        if isinstance(s, ast.Return):
            self._edge(n, self.exit)
            self.returns.append(n)
            return []
        if isinstance(s, ast.Raise):
            self._edge(n, self.raise_exit)
            return []
        if isinstance(s, ast.Break):
            if brk is None:
                raise AnalysisError("break outside loop")
            brk.append((n, None))
            return []
        if isinstance(s, ast.Continue):
            if cont is None:
                raise AnalysisError("continue outside loop")
            cont.append((n, None))
            return []
        return [(n, None)]

    # -- lookups ----------------------------------------------------------
    def node_of(self, astnode, model=None):
        """CFG node of the statement that contains `astnode`."""
        if id(astnode) in self.of_stmt:
            return self.of_stmt[id(astnode)]
        for n in self.nodes:
            if n.ast is None:
                continue
            roots = []
            if n.kind == "test":
                roots = [n.ast.test]
            elif n.kind == "for":
                roots = [n.ast.iter, n.ast.target]
            else:
                roots = [n.ast]
            for r in roots:
                for x in ast.walk(r):
                    if x is astnode:
                        return n
        raise AnalysisError("AST node not found in CFG of %s" % self.fn.name)

    def reachable_nodes(self):
        return nx.descendants(self.G, self.entry) | {self.entry}

    # -- dominance ----------------------------------------------------------
    def idom(self):
        if self._idom is None:
            self._idom = nx.immediate_dominators(self.G, self.entry)
        return self._idom

    def dominates(self, a, b):
        """a dominates b (every path entry->b passes a)."""
        idom = self.idom()
        if b not in idom:
            return False
        n = b
        while True:
            if n is a:
                return True
            p = idom.get(n)
            if p is None or p is n:
                return n is a
            n = p

    def edge_dominates(self, t, label, b):
        """Every path entry->b takes the edge of test/for node `t` labelled `label`."""
        H = self.G.copy()
        for succ in list(H.successors(t)):
            labs = H[t][succ]["labels"]
            if label in labs:
                if len(labs) == 1:
                    H.remove_edge(t, succ)
                else:
                    # both outcomes lead to the same node: the edge does not discriminate
                    return False
        if b is t:
            return False
        return b not in (nx.descendants(H, self.entry) | {self.entry})

    def guards(self, b):
        """All (test_node, outcome) pairs whose edge dominates node b."""
        out = []
        for t in self.nodes:
            if t.kind != "test":
                continue
            if not self.dominates(t, b):
                continue
            for lab in (True, False):
                if self.edge_dominates(t, lab, b):
                    out.append((t, lab))
        return out

    def succ_by_label(self, t, label):
        return [s for s in self.G.successors(t) if label in self.G[t][s]["labels"]]

    def paths_avoiding(self, a, b, avoid=()):
        """Is b reachable from a (a excluded as intermediate? no: a is the start) without passing
        through any node of `avoid` as an intermediate node?"""
        avoid = set(avoid) - {a, b}
        H = self.G.subgraph([n for n in self.G.nodes if n not in avoid])
        if a not in H or b not in H:
            return False
        if a is b:
            # needs a cycle
            return any(b in (nx.descendants(H, s) | {s}) for s in H.successors(a))
        return b in nx.descendants(H, a)

    def between(self, a, b, avoid=()):
        """Nodes s (other than a, b) lying on some path a -> ... -> s -> ... -> b that does not pass
        through `avoid` nodes.  If a is b, nodes on cycles through a."""
        avoid = set(avoid) - {a, b}
        H = self.G.subgraph([n for n in self.G.nodes if n not in avoid])
        if a not in H or b not in H:
            return set()
        # forward from a without passing through b (b is the end point)...
        Ha = H.subgraph([n for n in H.nodes if n is not b or n is a])
        fwd = set()
        for s in H.successors(a):
            if s is b:
                continue
            if s in Ha:
                fwd |= nx.descendants(Ha, s) | {s}
        # ...and backward from b without passing through a
        Hb = H.subgraph([n for n in H.nodes if n is not a or n is b])
        bwd = set()
        for p in H.predecessors(b):
            if p is a:
                continue
            if p in Hb:
                bwd |= nx.ancestors(Hb, p) | {p}
        return (fwd & bwd) - {a, b}

    def must_pass(self, a, targets, ends):
        """Every path from a to any node in `ends` passes through some node in `targets`."""
        targets = set(targets)
        H = self.G.subgraph([n for n in self.G.nodes if n not in targets or n is a])
        reach = nx.descendants(H, a) | {a}
        return not any(e in reach for e in ends if e is not a)


# ---------------------------------------------------------------------------
# condition normalisation


def flatten_cond(test, outcome):
    """Conjunction of atomic facts implied by `test` evaluating to `outcome`.
    Returns a list of (expr_ast, polarity).  `a and b` true -> a, b; `a or b` false -> not a, not b;
    other shapes stay opaque (one fact about the whole expression)."""
    out = []

    def rec(e, pol):
        if isinstance(e, ast.UnaryOp) and isinstance(e.op, ast.Not):
            rec(e.operand, not pol)
        elif isinstance(e, ast.BoolOp) and isinstance(e.op, ast.And) and pol:
            for v in e.values:
                rec(v, True)
        elif isinstance(e, ast.BoolOp) and isinstance(e.op, ast.Or) and not pol:
            for v in e.values:
                rec(v, False)
        elif isinstance(e, ast.Compare) and len(e.ops) > 1 and pol:
            left = e.left
            for op, c in zip(e.ops, e.comparators):
                out.append((ast.Compare(left=left, ops=[op], comparators=[c]), True))
                left = c
        else:
            out.append((e, pol))
    rec(test, outcome)
    return out


_NEG = {"<": ">=", ">=": "<", ">": "<=", "<=": ">", "==": "!=", "!=": "==", "is": "is not", "is not": "is",
        "in": "not in", "not in": "in"}
_OPS = {ast.Lt: "<", ast.LtE: "<=", ast.Gt: ">", ast.GtE: ">=", ast.Eq: "==", ast.NotEq: "!=",
        ast.Is: "is", ast.IsNot: "is not", ast.In: "in", ast.NotIn: "not in"}
_FLIP = {"<": ">", ">": "<", "<=": ">=", ">=": "<=", "==": "==", "!=": "!="}


def atom_of(expr, polarity, inline=None):
    """Canonical atomic fact (op, lhs_src, rhs_src) with op in {<, <=, ==, !=, is, is not, in, not in, truthy, falsy}.
    Comparisons are oriented so that op is one of <, <=, ==, !=, is, is not."""
    if inline is not None:
        expr = inline(expr)
    if isinstance(expr, ast.Compare) and len(expr.ops) == 1:
        op = _OPS.get(type(expr.ops[0]))
        if op is None:
            return ("truthy" if polarity else "falsy", norm_src(expr), "")
        if not polarity:
            op = _NEG[op]
        lhs, rhs = expr.left, expr.comparators[0]
        if inline is not None:
            lhs, rhs = inline(lhs), inline(rhs)
        l, r = norm_src(lhs), norm_src(rhs)
        if op in (">", ">="):
            op, l, r = _FLIP[op], r, l
        if op in ("==", "!=") and l > r:
            l, r = r, l
        return (op, l, r)
    return ("truthy" if polarity else "falsy", norm_src(expr), "")


def facts_at(cfg, node, inline=None):
    """All atomic facts established by dominating guards at `node`:
    list of (atom, test_node, outcome, expr_ast)."""
    out = []
    for t, lab in cfg.guards(node):
        for e, pol in flatten_cond(t.ast.test, lab):
            out.append((atom_of(e, pol, inline), t, lab, e))
    return out
