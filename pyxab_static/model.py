"""E1 - program model of PyXAB built from the working tree with `ast` only.

Nothing from /repo is imported or executed.
"""
import ast
import pathlib

from .report import AnalysisError, REPO

PACKAGES = ("PyXAB/algos", "PyXAB/partition", "PyXAB/synthetic_obj")


class ClassInfo:
    def __init__(self, name, file, node, module):
        self.name = name
        self.file = file
        self.node = node
        self.module = module
        self.bases = [ast.unparse(b) for b in node.bases]
        self.methods = {f.name: f for f in node.body if isinstance(f, ast.FunctionDef)}

    def __repr__(self):
        return "<class %s>" % self.name


class Model:
    def __init__(self, repo=None, normalize=True):
        self.repo = pathlib.Path(repo or REPO)
        self.norm_log = {}
        from . import normalize as NZ
        vocab = NZ.load_vocab() if normalize else None
        self.sources = {}
        self.trees = {}
        self.classes = {}
        self.functions = {}     # (file, name) -> FunctionDef  (module-level)
        self.parent = {}
        self.file_of = {}       # id(ast node of FunctionDef/ClassDef) -> file
        parsed = {}
        for pkg in PACKAGES:
            d = self.repo / pkg
            if not d.is_dir():
                raise AnalysisError("package directory %s is missing" % pkg)
            for p in sorted(d.glob("*.py")):
                rel = str(p.relative_to(self.repo))
                src = p.read_text()
                try:
                    parsed[rel] = ast.parse(src, filename=rel)
                except SyntaxError as ex:
                    raise AnalysisError("cannot parse %s: %s" % (rel, ex))
                self.sources[rel] = src
        if vocab:
            # consistent renamings of attributes / methods are undone first (alpha-renaming: always semantics-preserving)
            try:
                rl = NZ.undo_renames(parsed, vocab)
            except RecursionError:
                rl = []
            if rl:
                self.norm_log["<renames>"] = rl
            NZ.REBOUND[0] = NZ.collect_rebound(list(parsed.values()))
            NZ.MULTIPLY_DEFINED[0] = NZ.collect_multiply_defined(list(parsed.values()))
            NZ.INHERITED_HELPERS[0] = NZ.collect_inherited_helpers(parsed, vocab)
            NZ.IMPORTABLE_HELPERS[0] = NZ.collect_importable_helpers(parsed, vocab)
            NZ.COUNTERS[0] = NZ.collect_counters(list(parsed.values()))
            NZ.REBOUND_SITES[0] = NZ.collect_rebound_sites(list(parsed.values()))
        for rel, tree in parsed.items():
            if True:
                if vocab:
                    try:
                        log = NZ.normalize_tree(rel, tree, vocab)
                    except RecursionError:
                        log = ["normalisation skipped (recursion)"]
                    if log:
                        self.norm_log[rel] = log
                self.trees[rel] = tree
                for n in ast.walk(tree):
                    for c in ast.iter_child_nodes(n):
                        self.parent[id(c)] = n
                for n in tree.body:
                    if isinstance(n, ast.ClassDef):
                        if n.name in self.classes:
                            raise AnalysisError("duplicate class name %s" % n.name)
                        self.classes[n.name] = ClassInfo(n.name, rel, n, tree)
                        self.file_of[id(n)] = rel
                        for f in n.body:
                            if isinstance(f, ast.FunctionDef):
                                self.file_of[id(f)] = rel
                    elif isinstance(n, ast.FunctionDef):
                        self.functions[(rel, n.name)] = n
                        self.file_of[id(n)] = rel

    # -- classes -------------------------------------------------------
    def cls(self, name):
        if name not in self.classes:
            raise AnalysisError("class %s not found in the scanned packages" % name)
        return self.classes[name]

    def mro(self, name):
        out = []
        seen = set()
        todo = [name]
        while todo:
            n = todo.pop(0)
            if n in seen or n not in self.classes:
                continue
            seen.add(n)
            out.append(self.classes[n])
            todo.extend(self.classes[n].bases)
        return out

    def lookup(self, clsname, meth):
        for c in self.mro(clsname):
            if meth in c.methods:
                return c, c.methods[meth]
        return None, None

    def method(self, clsname, meth):
        c, f = self.lookup(clsname, meth)
        if f is None:
            raise AnalysisError("method %s.%s not found (anchor vanished)" % (clsname, meth))
        return f

    def own_method(self, clsname, meth):
        c = self.cls(clsname)
        if meth not in c.methods:
            raise AnalysisError("method %s.%s not found (anchor vanished)" % (clsname, meth))
        return c.methods[meth]

    def subclasses(self, base):
        return [c for c in self.classes.values()
                if c.name != base and any(b.name == base for b in self.mro(c.name))]

    def module_function(self, file, name):
        return self.functions.get((file, name))

    def module_functions_of(self, file):
        return {n: f for (fl, n), f in self.functions.items() if fl == file}

    # -- ast helpers ---------------------------------------------------
    def up(self, node):
        return self.parent.get(id(node))

    def enclosing_function(self, node):
        n = self.up(node)
        while n is not None and not isinstance(n, ast.FunctionDef):
            n = self.up(n)
        return n

    def enclosing_stmt(self, node):
        n = node
        while n is not None and not isinstance(n, ast.stmt):
            n = self.up(n)
        return n

    def node_class_of_algo(self, clsname):
        """The `node=` class an algorithm hands to its partition (default P_node)."""
        init = self.method(clsname, "__init__")
        for n in ast.walk(init):
            if isinstance(n, ast.Call) and isinstance(n.func, ast.Name) and n.func.id == "partition":
                for k in n.keywords:
                    if k.arg == "node":
                        return ast.unparse(k.value)
                return "P_node"
        return None


# ---------------------------------------------------------------------------
# small syntactic helpers used by many rules


def is_self_attr(n, attr=None):
    return (isinstance(n, ast.Attribute) and isinstance(n.value, ast.Name) and n.value.id == "self"
            and (attr is None or n.attr == attr))


def call_name(call):
    """Dotted name of a call's function ('np.random.uniform', 'self.expand', 'x.get_children')."""
    try:
        return ast.unparse(call.func)
    except Exception:  # pragma: no cover
        return ""


def method_name(call):
    return call.func.attr if isinstance(call.func, ast.Attribute) else (
        call.func.id if isinstance(call.func, ast.Name) else None)


def get_arg(call, pos, name):
    """Argument of a call by position or keyword, None if absent."""
    if pos is not None and len(call.args) > pos:
        return call.args[pos]
    for k in call.keywords:
        if k.arg == name:
            return k.value
    return None


def calls_in(node, meth=None):
    out = []
    for n in ast.walk(node):
        if isinstance(n, ast.Call) and (meth is None or method_name(n) == meth):
            out.append(n)
    return out


def stmts_of(fn):
    """All statements of a function in source order (nested included)."""
    out = []
    for n in ast.walk(fn):
        if isinstance(n, ast.stmt) and n is not fn:
            out.append(n)
    out.sort(key=lambda s: (s.lineno, s.col_offset))
    return out


def strip_doc(body):
    if body and isinstance(body[0], ast.Expr) and isinstance(body[0].value, ast.Constant) \
            and isinstance(body[0].value.value, str):
        return body[1:]
    return body


def qual(cls, fn):
    return "%s.%s" % (cls if isinstance(cls, str) else cls.name, fn if isinstance(fn, str) else fn.name)
