"""Findings, obligations, evidence and known-findings plumbing shared by all rules.

Exit codes of a check: 0 = every obligation of the decided clause discharged
(KNOWN-FINDING lines possible), 1 = VIOLATION, 2 = ANALYSIS-ERROR (anchor
vanished / engine failure; fail-closed, never a silent pass).
"""
import ast
import hashlib
import json
import os
import pathlib
import time

VERIF = pathlib.Path(__file__).resolve().parent.parent
REPO = pathlib.Path(os.environ.get("PYXAB_REPO", "/repo"))


class AnalysisError(Exception):
    """An anchor the rule needs is missing or the engine cannot interpret the code."""


class Uninterpretable(AnalysisError):
    """A statement kind one of the engines does not model, met in code that exists: reported as an undischarged obligation
    (a violation) by check.py, never as a pass."""



def norm_src(node):
    """Normalised source text of an AST node (no line numbers, no formatting)."""
    if isinstance(node, str):
        return " ".join(node.split())
    try:
        return " ".join(ast.unparse(node).split())
    except Exception:  # pragma: no cover
        return repr(node)


class Finding:
    def __init__(self, prop, rule, file, qual, construct, why, line=None, extra=None):
        self.prop = prop
        self.rule = rule
        self.file = file
        self.qual = qual
        self.construct = construct
        self.why = why
        self.line = line
        self.extra = extra or {}

    @property
    def key(self):
        return "%s|%s|%s|%s|%s" % (self.prop, self.rule, self.file, self.qual, self.construct)

    def human(self):
        loc = "%s:%s" % (self.file, self.line if self.line is not None else "?")
        return "%s %s [%s] %s -- %s" % (loc, self.qual, self.rule, self.construct, self.why)

    def as_dict(self):
        d = dict(property=self.prop, rule=self.rule, file=self.file, where=self.qual,
                 construct=self.construct, why=self.why, line=self.line, key=self.key)
        d.update(self.extra)
        return d


class Ctx:
    """Per-run context: collects obligations, findings and coverage facts."""

    def __init__(self, prop, tier, seed, model):
        self.prop = prop
        self.tier = tier
        self.seed = seed
        self.model = model
        self.findings = []
        self.obligations = []   # dicts: rule, where, construct, ok, detail
        self.functions = set()  # qualnames analysed
        self.call_sites = 0
        self.notes = []
        self.min_counts = {}    # rule -> (found, minimum)
        self.shortfalls = []
        self.extra = {}
        self.t0 = time.time()

    # -- recording -----------------------------------------------------
    def fn(self, qual):
        self.functions.add(qual)

    def ob(self, rule, ok, file, qual, construct, detail, line=None, nontrivial=True, extra=None,
           finding=True):
        """Record one obligation.  ok=False turns it into a finding (unless finding=False:
        the caller aggregates several failed instances into one finding itself)."""
        construct = norm_src(construct)
        self.obligations.append(dict(rule=rule, where="%s %s" % (file, qual), construct=construct,
                                     ok=bool(ok), detail=detail, nontrivial=bool(nontrivial)))
        if not ok and finding:
            self.findings.append(Finding(self.prop, rule, file, qual, construct, detail, line, extra))
        return ok

    def violation(self, rule, file, qual, construct, why, line=None, extra=None):
        return self.ob(rule, False, file, qual, construct, why, line, extra=extra)

    def add_finding(self, rule, file, qual, construct, why, line=None, extra=None):
        """A finding whose obligations were already recorded with finding=False."""
        self.findings.append(Finding(self.prop, rule, file, qual, norm_src(construct), why, line, extra))

    def attempt(self, rule, file, qual, what, func, *args, **kw):
        """Run one sub-check; code the formula/summary engines cannot interpret leaves the obligation undischarged
        (a violation naming the construct), it does not abort the run."""
        from .symx import Untranslatable
        try:
            return func(*args, **kw)
        except Untranslatable as ex:
            self.violation(rule, file, qual, what, "obligation not discharged: the code uses a construct the analysis cannot interpret (%s)" % ex)
        except AnalysisError as ex:
            if type(ex).__name__ in ("HasLoop",):
                self.violation(rule, file, qual, what, "obligation not discharged: %s" % ex)
            else:
                raise
        return None

    def count(self, rule, found, minimum):
        """Frozen minimum instance count of a rule: fewer is an ANALYSIS-ERROR."""
        self.min_counts[rule] = (found, minimum)
        if found < minimum:
            # deferred: if the run also found violations they are reported (exit 1); otherwise the shortfall
            # fails the run as analysis-broken (exit 2) - never a silent pass
            self.shortfalls.append("%s: rule matched %d instance(s), frozen minimum is %d "
                                   "(an anchor vanished or is no longer recognised)" % (rule, found, minimum))

    def note(self, text):
        self.notes.append(text)


def load_known():
    p = VERIF / "known_findings.json"
    if not p.exists():
        return []
    return json.loads(p.read_text()).get("findings", [])


def files_digest(model):
    h = hashlib.sha256()
    for rel in sorted(model.sources):
        h.update(rel.encode())
        h.update(model.sources[rel].encode())
    return h.hexdigest()[:16]


def finish(ctx, explanation, assumptions, level="other", technique=""):
    """Print the verdict, write evidence, return the exit code."""
    known = [k for k in load_known() if k.get("property") == ctx.prop and k.get("status") == "known"]
    known_keys = {k["key"]: k for k in known}
    new, old = [], []
    for f in ctx.findings:
        (old if f.key in known_keys else new).append(f)
    seen_known = set()
    for f in old:
        if f.key in seen_known:
            continue
        seen_known.add(f.key)
        print("KNOWN-FINDING: property=%s %s" % (ctx.prop, f.human()))
    ev_dir = pathlib.Path(os.environ.get("PYXAB_EVIDENCE_DIR") or (VERIF / "evidence"))
    ev_dir.mkdir(parents=True, exist_ok=True)
    n_ob = len(ctx.obligations)
    n_ok = sum(1 for o in ctx.obligations if o["ok"])
    distinct = len({(o["rule"], o["where"], o["construct"]) for o in ctx.obligations if o["nontrivial"]})
    samples = []
    by_rule = {}
    for o in ctx.obligations:
        by_rule.setdefault(o["rule"], []).append(o)
    rules_sorted = sorted(by_rule)
    # a few obligations per rule, rotated by seed so different runs show different ones
    for r in rules_sorted:
        obs = by_rule[r]
        k = ctx.seed % len(obs)
        for o in (obs[k:] + obs[:k])[:3]:
            samples.append(dict(rule=o["rule"], where=o["where"], construct=o["construct"][:300],
                                discharged=o["ok"], detail=str(o["detail"])[:400]))
    coverage = dict(
        explanation=explanation,
        obligations=n_ob,
        discharged=n_ok,
        evaluations=n_ob,
        distinct_nontrivial=distinct,
        rule=("one obligation = one rule instance at one construct of /repo's current source; "
              "distinct = distinct (rule, function, normalised construct); non-trivial = the check "
              "compared, evaluated or traced something (not mere existence)"),
        samples=samples,
        rules={r: dict(instances=len(by_rule[r]), discharged=sum(1 for o in by_rule[r] if o["ok"]))
               for r in rules_sorted},
        min_counts={r: dict(found=a, frozen_minimum=b) for r, (a, b) in sorted(ctx.min_counts.items())},
        functions_analysed=sorted(ctx.functions),
        n_functions=len(ctx.functions),
        call_sites=ctx.call_sites,
        files_digest=files_digest(ctx.model),
        files=sorted(ctx.model.sources),
        checker_cmd="python3-vt check.py --property %s --tier %s" % (ctx.prop, ctx.tier),
        trusted_base=["CPython ast", "sympy (single-expression normalisation)", "mpmath.iv", "networkx"],
        known_findings=[f.as_dict() for f in old],
        notes=ctx.notes,
        technique=technique,
        exhaustive=False,
    )
    coverage.update(ctx.extra)
    ev = dict(property_id=ctx.prop, tier=ctx.tier, seed=ctx.seed, level=level, coverage=coverage,
              assumptions=assumptions, wall_s=round(time.time() - ctx.t0, 3), violations=len(new))
    (ev_dir / ("%s.json" % ctx.prop)).write_text(json.dumps(ev, indent=1, default=str))
    print("%s tier=%s: %d obligations over %d functions, %d discharged, %d known finding(s), %d violation(s)"
          % (ctx.prop, ctx.tier, n_ob, len(ctx.functions), n_ok, len(seen_known), len(new)))
    if ctx.shortfalls and not new:
        for sf in ctx.shortfalls:
            print("ANALYSIS-ERROR property=%s %s" % (ctx.prop, sf))
        return 2
    for sf in ctx.shortfalls:
        print("  note: %s" % sf)
    if new:
        replay = ev_dir / ("%s.violation.json" % ctx.prop)
        replay.write_text(json.dumps(dict(property=ctx.prop, findings=[f.as_dict() for f in new]), indent=1, default=str))
        for f in new:
            print("  " + f.human())
        print("VIOLATION property=%s replay=%s" % (ctx.prop, replay))
        return 1
    stale = ev_dir / ("%s.violation.json" % ctx.prop)
    if stale.exists():
        stale.unlink()
    return 0
