"""Shared step analysis of the five partition classes (serves C02, C03, C14, C16).

`analyse(model, tier)` interprets Partition.__init__ and one (and, for history
independence, a second) make_children call per class / arity / dimension /
newlayer flag / oracle string with E5 and returns a list of obligation records
    dict(rule=..., ok=..., cls=..., cfg=..., construct=..., detail=...)
which the property modules filter by rule prefix.
"""
import ast
import functools
import os
import time

import sympy as sp

from . import absint as A
from .report import AnalysisError

CLASSES = {
    # class -> (takes K, equal_size, arity(K, d))
    "BinaryPartition": (False, True, lambda K, d: 2),
    "RandomBinaryPartition": (False, False, lambda K, d: 2),
    "KaryPartition": (True, True, lambda K, d: K),
    "RandomKaryPartition": (True, False, lambda K, d: K),
    "DimensionBinaryPartition": (False, True, lambda K, d: 2 ** d),
}


def ranges(tier):
    if tier == "thorough":
        return list(range(2, 9)), [1, 2, 3, 4]
    return list(range(2, 7)), [1, 2, 3]


def build_partition(model, pcls, K, d, I, prefix="", node_cls=None):
    """Interpret <pcls>.__init__(domain=..., [K=K]) from source on an abstract box."""
    lo = [A.atom("%slo%d" % (prefix, k), real=True) for k in range(d)]
    hi = [A.atom("%shi%d" % (prefix, k), real=True) for k in range(d)]
    dom = A.AList([A.AList([lo[k], hi[k]]) for k in range(d)])
    I.input_ids |= {id(dom)} | {id(x) for x in dom}
    for k in range(d):
        I.facts.append((lo[k].sym, hi[k].sym))
    part = A.Obj(pcls)
    part.f["__kind__"] = "partition"
    owner, init = model.lookup(pcls, "__init__")
    if init is None:
        raise AnalysisError("%s.__init__ not found" % pcls)
    kw = {"domain": dom}
    if K is not None:
        kw["K"] = K
    if node_cls is not None:
        kw["node"] = A.ClassRef(node_cls)
    I.call_function(init, part, [], kw, owner=owner.name)
    return part, dom, lo, hi


def new_parent(I, d, tag, depth, node_cls="P_node", aliased=False):
    if aliased:
        # the cube idiom [[lo, hi]] * d: one list object shared by every dimension
        l0, h0 = A.atom("lo%s0" % tag, real=True), A.atom("hi%s0" % tag, real=True)
        lo, hi = [l0] * d, [h0] * d
        shared = A.AList([l0, h0])
        dom = A.AList([shared] * d)
    else:
        lo = [A.atom("lo%s%d" % (tag, k), real=True) for k in range(d)]
        hi = [A.atom("hi%s%d" % (tag, k), real=True) for k in range(d)]
        dom = A.AList([A.AList([lo[k], hi[k]]) for k in range(d)])
    i = A.atom("i%s" % tag, integer=True, positive=True)
    I.input_ids |= {id(dom)} | {id(x) for x in dom}
    for k in range(d):
        I.facts.append((lo[k].sym, hi[k].sym))
    cpoint = A.AList([A.Num((lo[k].sym + hi[k].sym) / 2, ("pre-centre", tag, k)) for k in range(d)])
    parent = A.Obj(node_cls, depth=depth, index=i, parent=None, children=None, domain=dom, c_point=cpoint)
    parent.f["__tracked__"] = True
    return parent, lo, hi, i


class Step:
    pass


def run_steps(model, pcls, K, d, newlayer, oracle, two_step, aliased=False, node_cls=None):
    """__init__, then make_children(parent, newlayer) [, then make_children(cousin, False)]."""
    I = A.Interp(model, oracle)
    part, dom0, _, _ = build_partition(model, pcls, K, d, I, prefix="root_", node_cls=node_cls)
    init_events = list(I.events)
    init_state = dict(part.f)
    del I.events[:]
    h = A.atom("h", integer=True, nonnegative=True)
    D = h if newlayer else A.atom("D", integer=True, positive=True)
    table = A.LayerTable(I, base_depth=D)
    part.f["node_list"] = table
    part.f["depth"] = D
    I.partition_depth = lambda: part.f["depth"]
    owner, fn = model.lookup(pcls, "make_children")
    if fn is None:
        raise AnalysisError("%s.make_children not found" % pcls)
    steps = []
    parent, lo, hi, idx = new_parent(I, d, "", h, aliased=aliased)
    st = Step()
    st.parent, st.lo, st.hi, st.i, st.h, st.newlayer, st.D0 = parent, lo, hi, idx, h, newlayer, D
    st.crash = None
    st.ev0 = len(I.events)
    st.created0 = len(I.created)
    st.rng0 = len(I.rng_calls)
    try:
        I.call_function(fn, part, [parent], {"newlayer": newlayer}, owner=owner.name)
    except A.PathCrash as ex:
        st.crash = str(ex)
    st.events = I.events[st.ev0:]
    st.created = I.created[st.created0:]
    st.rng = I.rng_calls[st.rng0:]
    steps.append(st)
    if two_step and st.crash is None:
        # a cousin at the same depth, expanded into the (now existing) next layer
        Dnow = part.f["depth"]
        # the layers appended by the first step are part of the (abstract) table from now on
        if isinstance(part.f.get("node_list"), A.LayerTable) and part.f["node_list"].appended:
            tb = part.f["node_list"]
            tb.base_depth = I.arith(ast.Add(), tb.base_depth, len(tb.appended))
            tb.appended = []
        parent2, lo2, hi2, idx2 = new_parent(I, d, "b", h)
        s2 = Step()
        s2.parent, s2.lo, s2.hi, s2.i, s2.h, s2.newlayer, s2.D0 = parent2, lo2, hi2, idx2, h, False, Dnow
        s2.crash = None
        s2.ev0 = len(I.events)
        s2.created0 = len(I.created)
        s2.rng0 = len(I.rng_calls)
        try:
            I.call_function(fn, part, [parent2], {"newlayer": False}, owner=owner.name)
        except A.PathCrash as ex:
            s2.crash = str(ex)
        s2.events = I.events[s2.ev0:]
        s2.created = I.created[s2.created0:]
        s2.rng = I.rng_calls[s2.rng0:]
        steps.append(s2)
    res = Step()
    res.I, res.part, res.steps, res.init_events, res.init_state, res.dom0 = I, part, steps, init_events, init_state, dom0
    return res, I.trace


# ---------------------------------------------------------------------------


_SEEN = {}


def _num(v):
    return isinstance(v, A.Num) or (isinstance(v, (int, float)) and not isinstance(v, bool))


def check_step(model, pcls, K, d, st, I, second, out, aliased=False):
    """Append obligation records for one interpreted make_children call."""
    takesK, equal, ar = CLASSES[pcls]
    arity = ar(K, d)
    cfg = "%s K=%s d=%d newlayer=%s%s%s" % (pcls, K, d, st.newlayer, " (second expansion, cousin cell)" if second else "",
                                          " (cube given as [[lo, hi]] * d: one shared list)" if aliased else "")
    tagp = "2" if second else ""

    def ob(rule, ok, construct, detail):
        # detail may be a thunk: formatted only for failures and for the first few instances of a rule
        if callable(detail):
            n = _SEEN.get(rule, 0)
            if not ok or n < 4:
                detail = detail()
                _SEEN[rule] = n + 1
            else:
                detail = ""
        out.append(dict(rule=rule, ok=bool(ok), cls=pcls, cfg=cfg, construct=construct, detail=detail,
                        method="make_children"))
        return ok

    if st.crash is not None:
        ob("R02-TOTAL", False, "make_children raises", "on this path make_children raises: %s" % st.crash)
        ob("R03-STEP", False, "make_children raises", "on this path make_children raises: %s" % st.crash)
        return
    ob("R02-TOTAL", True, "make_children returns normally", "no exception on this path")
    parent = st.parent
    ch = parent.f.get("children")
    # ---- C03: children list, links, labels
    okc = isinstance(ch, A.AList) and all(isinstance(c, A.Obj) for c in ch)
    if not ob("R03-LINK", okc, "parent.children is a list of cells", lambda: "children = %r" % (ch,)):
        return
    ob("R02-ARITY", len(ch) == arity, "number of children",
       "%d children, documented arity %d" % (len(ch), arity))
    ob("R03-LINK", len(set(id(c) for c in ch)) == len(ch) and all(any(c is x for x in st.created) for c in ch),
       "children are distinct cells created by this call", "%d children, %d distinct" % (len(ch), len(set(id(c) for c in ch))))
    extra = [c for c in st.created if not any(c is x for x in ch)]
    ob("R03-LINK", not extra, "every cell created by the call is a child of the expanded cell",
       "%d cell(s) created but not linked as children" % len(extra))
    for j, c in enumerate(ch):
        ob("R03-LINK", c.f.get("parent") is parent, "child %d .parent" % j, "child's parent is the expanded cell")
        dep = c.f.get("depth")
        ob("R03-LINK", _num(dep) and A.same_real(dep, A.Num(st.h.sym + 1, None)), "child %d .depth" % j,
           lambda: "depth = %s, expected h+1" % (getattr(dep, "sym", dep),))
        ind = c.f.get("index")
        exp = arity * (st.i.sym - 1) + j + 1
        if isinstance(ind, A.Num) and "npint" in repr(ind.raw):
            ob("R03-INDEX", False, "child %d .index is an unbounded Python integer" % j,
               "the index is taken from a numpy integer array (fixed 64-bit width): K*i wraps around once the tree is deeper than 63/log2(K) levels")
        ob("R03-INDEX", _num(ind) and A.equal_terms(A._sym(ind), exp), "child %d .index" % j,
           lambda: "index = %s, expected K(i-1)+%d = %s" % (getattr(ind, "sym", ind), j + 1, sp.expand(exp)))
        ob("R03-LINK", c.f.get("children") is None, "child %d starts as a leaf" % j, lambda: "children = %r" % (c.f.get("children"),))
    # ---- writes to the expanded cell other than its child list
    bad = [e for e in st.events if e[0] == "setattr" and e[1] is parent and e[2] != "children"]
    ob("R03-STEP", not bad, "expanded cell keeps its own labels and box",
       "writes to parent attribute(s): %s" % sorted(set(e[2] for e in bad)))
    # ---- layer events
    appends = [e for e in st.events if e[0] == "append"]
    extends = [e for e in st.events if e[0] == "extend"]
    depths = [e for e in st.events if e[0] == "depth"]
    other = [e for e in st.events if e[0] in ("set-layer", "set-layer-item", "insert", "rebind-node_list", "layer-op")]
    ob("R03-STEP", not other, "no other operation on node_list", "events: %s" % [e[0] for e in other])
    if st.newlayer:
        ok = len(appends) == 1 and isinstance(appends[0][1], (A.AList, list)) and \
            len(appends[0][1]) == len(ch) and all(a is b for a, b in zip(appends[0][1], ch))
        ob("R03-STEP", ok, "newlayer=True: exactly one layer appended, holding exactly the new children in order",
           lambda: "%d append event(s)%s" % (len(appends), "" if ok or not appends else ", layer = %r" % (appends[0][1],)))
        ob("R03-STEP", not extends, "newlayer=True: no existing layer is extended", "%d extend event(s)" % len(extends))
        okd = len(depths) == 1 and _num(depths[0][1]) and A.same_real(depths[0][1], A.Num(st.h.sym + 1, None))
        ob("R03-STEP", okd, "newlayer=True: depth incremented exactly once (to h+1)",
           lambda: "%d depth write(s): %s" % (len(depths), [getattr(e[1], "sym", e[1]) for e in depths]))
        if appends:
            layer = appends[0][1]
            reach = reachable_lists(st, parent)
            alias = layer is ch or any(layer is r for r in reach)
            ob("R03-ALIAS", not alias, "the list registered as the new layer is owned by the partition alone",
               "the layer object %s the expanded cell's child list (a later in-place 'node_list[h] += ...' would grow that child list)"
               % ("IS" if layer is ch else ("is reachable from a cell;" if alias else "is distinct from")))
    else:
        elems = []
        okidx = True
        for e in extends:
            if not (_num(e[1]) and A.equal_terms(A._sym(e[1]), st.h.sym + 1)):
                okidx = False
            try:
                elems.extend(list(e[2]))
            except TypeError:
                okidx = False
        ok = bool(extends) and okidx and len(elems) == len(ch) and all(a is b for a, b in zip(elems, ch))
        ob("R03-STEP", ok, "newlayer=False: layer h+1 is extended by exactly the new children in order",
           lambda: "%d extend event(s), index(es) %s, %d element(s)" % (len(extends), [getattr(e[1], "sym", e[1]) for e in extends], len(elems)))
        ob("R03-STEP", not appends, "newlayer=False: no layer appended", "%d append event(s)" % len(appends))
        ob("R03-STEP", not depths, "newlayer=False: depth not written", "%d depth write(s)" % len(depths))
    # ---- C14/C02: the parent's box (aliased to the user's domain at the root) is not mutated
    mut = [e for e in st.events if e[0] == "mutate-input"]
    ob("R02-FRAME", not mut, "the expanded cell's box is not modified in place",
       "in-place stores into the parent's domain: %s" % [e[1] for e in mut])
    # ---- extra partition state written by the step (history dependence)
    dstores = [e for e in st.events if e[0] == "dict-store"]
    # ---- geometry
    order = A.Order(I.facts)
    boxes = []
    geo_ok = True
    for j, c in enumerate(ch):
        dm = c.f.get("domain")
        good = isinstance(dm, (A.AList, list)) and len(dm) == d and all(
            isinstance(iv, (A.AList, list, tuple)) and len(iv) == 2 and _num(iv[0]) and _num(iv[1]) for iv in dm)
        if not ob("R02-FRAME", good, "child %d box is a list of d [lo, hi] pairs" % j, lambda: "domain = %r" % (dm,)):
            geo_ok = False
            continue
        boxes.append([(iv[0], iv[1]) for iv in dm])
        cp = c.f.get("c_point")
        okcp = isinstance(cp, (A.AList, list)) and len(cp) == d and all(_num(x) for x in cp) and all(
            A.same_real(cp[k], A.Num((A._sym(dm[k][0]) + A._sym(dm[k][1])) / 2, None)) for k in range(d))
        ob("R02-CENTRE", okcp, "child %d representative point is the centre of its box" % j,
           lambda: "c_point = %s" % ([getattr(x, "sym", x) for x in cp] if isinstance(cp, list) else cp,))
    if not geo_ok or len(boxes) != len(ch):
        return
    # containment
    for j, bx in enumerate(boxes):
        for k in range(d):
            cl, cu = bx[k]
            inside = order.leq(st.lo[k].sym, A._sym(cl)) and order.leq(A._sym(cl), A._sym(cu)) and order.leq(A._sym(cu), st.hi[k].sym)
            ob("R02-INSIDE", inside, "child %d dim %d lies inside the parent" % (j, k),
               lambda: "[%s, %s] within [%s, %s]" % (A._sym(cl), A._sym(cu), st.lo[k].sym, st.hi[k].sym))
    # grid tiling
    grids = []
    tile_ok = True
    for k in range(d):
        terms = []
        for bx in boxes:
            for t in bx[k]:
                if not any(A.equal_terms(A._sym(t), A._sym(u)) for u in terms):
                    terms.append(t)
        for t in (st.lo[k], st.hi[k]):
            if not any(A.equal_terms(A._sym(t), A._sym(u)) for u in terms):
                terms.append(t)

        def cmp(a, b):
            if order.leq(A._sym(a), A._sym(b)):
                return -1
            if order.leq(A._sym(b), A._sym(a)):
                return 1
            raise LookupError((a, b))
        try:
            terms.sort(key=functools.cmp_to_key(cmp))
        except LookupError as ex:
            a, b = ex.args[0]
            ob("R02-CHAIN", False, "boundaries along dim %d are totally ordered" % k,
               "cannot order %s and %s from the known facts" % (A._sym(a), A._sym(b)))
            tile_ok = False
            break
        grids.append(terms)
    if tile_ok:
        def pos(k, t):
            for n, u in enumerate(grids[k]):
                if A.equal_terms(A._sym(t), A._sym(u)):
                    return n
            raise KeyError
        cover = {}
        for j, bx in enumerate(boxes):
            rngs = [range(pos(k, bx[k][0]), pos(k, bx[k][1])) for k in range(d)]
            import itertools
            for cell in itertools.product(*rngs):
                cover.setdefault(cell, []).append(j)
        import itertools
        total = list(itertools.product(*[range(pos(k, st.lo[k]), pos(k, st.hi[k])) for k in range(d)]))
        missing = [c for c in total if c not in cover]
        multi = {c: v for c, v in cover.items() if len(v) > 1}
        outside = [c for c in cover if c not in set(total)]
        ob("R02-CHAIN", not missing and not multi and not outside,
           "children tile the parent exactly (every grid cell covered once)",
           "grid %s: %d uncovered, %d covered more than once, %d outside the parent"
           % ([len(g) - 1 for g in grids], len(missing), len(multi), len(outside)))
        # bit-identical shared faces and own outer faces
        for k in range(d):
            for u in grids[k]:
                raws = set()
                for bx in boxes:
                    for t in bx[k]:
                        if A.equal_terms(A._sym(t), A._sym(u)):
                            raws.add(A._raw(t))
                if A.equal_terms(A._sym(u), st.lo[k].sym):
                    raws.add(st.lo[k].raw)
                if A.equal_terms(A._sym(u), st.hi[k].sym):
                    raws.add(st.hi[k].raw)
                ob("R02-BITS", len(raws) <= 1,
                   "boundary #%d along dim %d is the same computed value in every child that touches it" % (grids[k].index(u), k),
                   lambda: "%d different computations produce this boundary: %s" % (len(raws), sorted(map(str, raws))[:3]))
    # equal sizes
    if equal and tile_ok:
        for k in range(d):
            pieces = len(grids[k]) - 1
            for j, bx in enumerate(boxes):
                w = A._sym(bx[k][1]) - A._sym(bx[k][0])
                # a child spans whole dimension (not split) or exactly one equal piece
                full = A.equal_terms(w, st.hi[k].sym - st.lo[k].sym)
                piece = A.equal_terms(w, (st.hi[k].sym - st.lo[k].sym) / pieces)
                ob("R02-EQUAL", full if pieces == 1 else piece,
                   "child %d side length along dim %d" % (j, k),
                   lambda: "width %s, parent width/%d expected" % (sp.expand(w), pieces))
        split_dims = [k for k in range(d) if len(grids[k]) - 1 > 1]
        prod = 1
        for k in split_dims:
            prod *= len(grids[k]) - 1
        ob("R02-EQUAL", prod == arity, "pieces per split dimension multiply to the arity",
           "split dims %s with %s pieces, arity %d" % (split_dims, [len(grids[k]) - 1 for k in split_dims], arity))
    # which randomness was consumed
    for name, node in st.rng:
        ob("R14-RNG", name.startswith("np.random.") or name.startswith("numpy.random."),
           "random source %s" % name, "all randomness goes through numpy's global generator")


def reachable_lists(st, parent):
    out = []
    seen = set()

    def rec(v):
        if isinstance(v, (A.AList, list)):
            if id(v) in seen:
                return
            seen.add(id(v))
            out.append(v)
            for x in v:
                rec(x)
        elif isinstance(v, A.Obj):
            if id(v) in seen:
                return
            seen.add(id(v))
            for k, x in v.f.items():
                if k.startswith("__"):
                    continue
                rec(x)
    rec(parent)
    for c in st.created:
        rec(c)
    return out


def check_init(model, pcls, K, d, res, out):
    cfg = "%s K=%s d=%d __init__" % (pcls, K, d)
    part = res.part
    st = res.init_state

    def ob(rule, ok, construct, detail):
        out.append(dict(rule=rule, ok=bool(ok), cls=pcls, cfg=cfg, construct=construct, detail=detail, method="__init__"))
        return ok
    root = st.get("root")
    nl = st.get("node_list")
    okroot = isinstance(root, A.Obj)
    ob("R03-BASE", okroot, "root cell exists", "root = %r" % (root,))
    if okroot:
        ob("R03-BASE", root.f.get("depth") == 0 and root.f.get("index") == 1 and root.f.get("parent") is None
           and root.f.get("children") is None,
           "root is (depth 0, index 1, no parent, leaf)",
           "depth=%r index=%r parent=%r children=%r" % (root.f.get("depth"), root.f.get("index"), root.f.get("parent"), root.f.get("children")))
        ob("R03-BASE", root.f.get("domain") is res.dom0, "root box is the user's domain", "root.domain is the domain argument")
    ob("R03-BASE", isinstance(nl, (A.AList, list)) and len(nl) == 1 and isinstance(nl[0], (A.AList, list))
       and len(nl[0]) == 1 and nl[0][0] is root, "node_list == [[root]]", "node_list = %r" % (nl,))
    ob("R03-BASE", st.get("depth") == 0, "depth == 0", "depth = %r" % (st.get("depth"),))
    mut = [e for e in res.init_events if e[0] == "mutate-input"]
    ob("R02-FRAME", not mut, "__init__ does not modify the user's domain", "%d in-place store(s)" % len(mut))


# seconds of path enumeration per (class, K, d): a quarter of the whole check's time limit, at most 240 s
TIME_BUDGET = float(os.environ.get("PYXAB_CONFIG_BUDGET", "") or min(240.0, float(os.environ.get("PYXAB_CHECK_TIMEOUT", "900")) / 4))
PATH_BUDGET = 160
HARD_BUDGET = 4000


def explore_budgeted(model, pcls, K, d, newlayer, two_step, aliased=False):
    """All abstract runs of one configuration as a list of (oracle, result): with the cousin expansion when that stays within
    PATH_BUDGET paths, else with the single step; more than HARD_BUDGET paths even then is reported as Unsupported."""
    ts = two_step
    while True:
        out = []
        overflow = False
        for oracle, res in A.explore(lambda o: run_steps(model, pcls, K, d, newlayer, o, ts, aliased)):
            out.append((oracle, res))
            if (ts and len(out) > PATH_BUDGET) or len(out) > HARD_BUDGET:
                overflow = True
                break
        if not overflow:
            return out
        if not ts:
            raise A.Unsupported("make_children branches in more than %d ways on symbolic conditions" % HARD_BUDGET)
        ts = False


GEOMETRY_FIELDS = {"depth", "index", "parent", "children", "domain", "c_point"}


def fresh_state_records(model, node_cls="HOO_node"):
    """Every cell created by a split is a distinct object with its own mutable evidence fields (reward lists, rank lists, ...):
    one abstract make_children per partition class with an algorithm's cell class, all RNG outcomes."""
    out = []
    for pcls, (takesK, equal, ar) in CLASSES.items():
        K = 3 if takesK else None
        d = 2
        cfg = "%s K=%s d=%d cell class %s" % (pcls, K, d, node_cls)
        try:
            runs = list(A.explore(lambda o: run_steps(model, pcls, K, d, True, o, False, False, node_cls)))
        except (A.Unsupported, A.PathCrash) as ex:
            out.append(dict(rule="R04-FRESH", ok=False, cls=pcls, cfg=cfg, construct="one abstract step of make_children", method="make_children",
                            detail="obligation not discharged: make_children cannot be interpreted with cell class %s (%s)" % (node_cls, ex)))
            continue
        for oracle, res in runs:
            st = res.steps[0]
            if st.crash is not None:
                out.append(dict(rule="R04-FRESH", ok=False, cls=pcls, cfg=cfg, construct="make_children raises", method="make_children",
                                detail="raises: %s" % st.crash))
                continue
            ch = st.parent.f.get("children") or []
            ids = [id(c) for c in ch]
            ok = len(set(ids)) == len(ids)
            shared = []
            for a in range(len(ch)):
                for b in range(a + 1, len(ch)):
                    if not (isinstance(ch[a], A.Obj) and isinstance(ch[b], A.Obj)):
                        continue
                    for fld, v in ch[a].f.items():
                        if fld in GEOMETRY_FIELDS:
                            continue
                        if isinstance(v, (list, dict)) and ch[b].f.get(fld) is v:
                            shared.append(fld)
            out.append(dict(rule="R04-FRESH", ok=ok and not shared, cls=pcls, cfg=cfg, construct="every new cell has its own evidence fields",
                            method="make_children",
                            detail="%d distinct cells, no shared list/dict field" % len(ch) if ok and not shared else
                            ("sibling cells share the field(s) %s: a reward recorded in one cell appears in the others" % sorted(set(shared))
                             if shared else "the same cell object is registered more than once")))
    return out


def _one_config(args):
    model, pcls, K, d, two_step = args
    out = []
    samples = []
    paths = 0
    first = True
    variants = [(True, False), (False, False)] + ([(False, True)] if d >= 2 else [])
    t_start = time.time()
    for newlayer, aliased in variants:
        # the second (cousin) expansion is explored after a new-layer expansion only
        ts = two_step and newlayer
        # the cousin (second) expansion multiplies the paths; when make_children branches so often that one variant exceeds
        # the budget, the variant is re-explored with the single step only (the one-step lemma is what the rules need)
        while True:
            mark = len(out)
            vpaths = 0
            overflow = False
            for oracle, res in A.explore(lambda o: run_steps(model, pcls, K, d, newlayer, o, ts, aliased)):
                vpaths += 1
                if ts and (vpaths > PATH_BUDGET or time.time() - t_start > TIME_BUDGET / 2):
                    overflow = True
                    break
                if vpaths > HARD_BUDGET or time.time() - t_start > TIME_BUDGET:
                    # the step branches on so many symbolic comparisons that its outcomes cannot be enumerated: the step obligations
                    # of this configuration stay undischarged (reported as such by the caller)
                    raise A.Unsupported("one step of make_children branches on too many symbolic comparisons to enumerate "
                                        "(%d paths explored in %d s for K=%s, d=%s)" % (vpaths, time.time() - t_start, K, d))
                if first:
                    check_init(model, pcls, K, d, res, out)
                    first = False
                for n, st in enumerate(res.steps):
                    check_step(model, pcls, K, d, st, res.I, n == 1, out, aliased)
                if len(samples) < 1 and res.steps and res.steps[0].crash is None:
                    ch = res.steps[0].parent.f.get("children") or []
                    try:
                        samples.append(dict(
                            cls=pcls, K=K, d=d, newlayer=newlayer, oracle=list(oracle),
                            children=[[[str(A._sym(iv[0])), str(A._sym(iv[1]))] for iv in c.f["domain"]] for c in ch][:4],
                            events=[e[0] for e in res.steps[0].events]))
                    except Exception:
                        pass
            if overflow:
                del out[mark:]
                ts = False
                continue
            paths += vpaths
            break
    return out, samples, paths


_MODEL = None


def _worker(args):
    pcls, K, d, two_step = args
    try:
        return ("ok",) + _one_config((_MODEL, pcls, K, d, two_step))
    except A.PathCrash as ex:
        # the constructor (or a helper it calls) raises on an abstract run
        cfg = "%s K=%s d=%s" % (pcls, K, d)
        recs = [dict(rule=r, ok=False, cls=pcls, cfg=cfg, construct="abstract run of __init__ / make_children", method="__init__",
                     detail="raises on this abstract run: %s" % ex) for r in ("R02-TOTAL", "R03-BASE")]
        return ("ok", recs, [], 0)
    except A.Unsupported as ex:
        # make_children uses a construct the abstract interpreter has no sound model for: none of the step obligations of
        # this class can be discharged (a violation naming the construct - not an analysis failure)
        cfg = "%s K=%s d=%s" % (pcls, K, d)
        recs = [dict(rule=r, ok=False, cls=pcls, cfg=cfg, construct="one abstract step of make_children", method="make_children",
                     detail="obligation not discharged: make_children cannot be interpreted (%s)" % ex)
                for r in ("R02-TOTAL", "R03-STEP", "R14-RNG", "R16-GEOM")]
        return ("ok", recs, [], 0)
    except AnalysisError as ex:
        return ("err", "%s K=%s d=%s: %s" % (pcls, K, d, ex))
    except Exception as ex:  # engine failure: reported as ANALYSIS-ERROR by the caller
        import traceback
        return ("err", "%s K=%s d=%s: internal error %r\n%s" % (pcls, K, d, ex, traceback.format_exc()))


def analyse(model, tier, two_step=True, jobs=None):
    """Run everything; returns (records, stats)."""
    global _MODEL
    import multiprocessing as mp
    import os
    Ks, ds = ranges(tier)
    configs = []
    for pcls, (takesK, equal, ar) in CLASSES.items():
        if pcls not in model.classes:
            raise AnalysisError("partition class %s not found (anchor vanished)" % pcls)
        for K in (Ks if takesK else [None]):
            for d in ds:
                configs.append((pcls, K, d, two_step))
    _MODEL = model
    jobs = jobs or min(16, os.cpu_count() or 1, len(configs))
    if jobs > 1:
        ctx = mp.get_context("fork")
        with ctx.Pool(jobs) as pool:
            results = pool.map(_worker, configs, chunksize=1)
    else:
        results = [_worker(c) for c in configs]
    out = []
    stats = dict(paths=0, configs=2 * len(configs), samples=[])
    for r in results:
        if r[0] == "err":
            raise AnalysisError(r[1])
        out.extend(r[1])
        if len(stats["samples"]) < 8:
            stats["samples"].extend(r[2])
        stats["paths"] += r[3]
    return out, stats
