"""E5 - one-step abstract interpreter for PyXAB/partition (+ Node.py).

Interprets ONE call of a method (normally `make_children`) from the AST over an
abstract domain of symbolic terms:

* numbers are `Num(sym, raw)`: `sym` a sympy expression over the atoms of the
  abstract pre-state (box bounds lo_k/hi_k, depth h, index i, RNG draws u_j),
  `raw` the un-normalised operation tree exactly as the code computes it.  Two
  values with equal `raw` are produced by the same floating-point computation
  on the same inputs, i.e. they are bit-identical at run time; equal `sym`
  only means equal in real arithmetic.
* Python lists are `AList` objects with identity, so aliasing is observed;
* the partition's `node_list` is a `LayerTable` that records events
  (`append(L)`, `[e] += L`, ...) instead of holding layers;
* `np.random.randint` and branches on symbolic conditions are resolved by an
  oracle string that the driver enumerates exhaustively (every outcome);
  `np.random.uniform(a,b)` is a fresh atom u with the facts a <= u <= b (end
  points included); `np.linspace(a,b,num=n)` is the n-term equally spaced chain
  with both end points pinned (numpy's documented contract).

Ordering questions are answered by reachability in a <=-graph of terms closed
under convex combination - no solver is involved.
"""
import ast
import itertools

import networkx as nx
import sympy as sp

from .report import AnalysisError


class Unsupported(AnalysisError):
    pass


class PathCrash(Exception):
    """The interpreted code raises on this path (IndexError, explicit raise, ...)."""


class NeedOracle(Exception):
    def __init__(self, kind, options):
        self.kind = kind
        self.options = options


# ---------------------------------------------------------------------------
# values


def _sym(v):
    if isinstance(v, Num):
        return v.sym
    if isinstance(v, bool):
        return sp.Integer(int(v))
    if isinstance(v, int):
        return sp.Integer(v)
    if isinstance(v, float):
        if v != v or v in (float("inf"), float("-inf")):
            return sp.oo if v > 0 else (-sp.oo if v < 0 else sp.nan)
        return sp.nsimplify(v, rational=True)
    raise Unsupported("not a number: %r" % (v,))


def _raw(v):
    if isinstance(v, Num):
        return v.raw
    return ("const", repr(v))


class Num:
    __slots__ = ("sym", "raw")

    def __init__(self, sym, raw):
        self.sym = sym
        self.raw = raw

    def __repr__(self):
        return "Num(%s)" % (self.sym,)

    def __hash__(self):
        return hash(self.sym)

    def __eq__(self, other):
        if isinstance(other, Num):
            return self.sym == other.sym
        if isinstance(other, (int, float)) and not isinstance(other, bool):
            return self.sym == _sym(other)
        return False

    def __ne__(self, other):
        return not self.__eq__(other)


def atom(name, **assumptions):
    s = sp.Symbol(name, **assumptions)
    return Num(s, ("atom", name))


def is_numeric(v):
    return isinstance(v, (Num, int, float)) and not isinstance(v, bool) or isinstance(v, bool)


def binop(op, a, b):
    if not isinstance(a, Num) and not isinstance(b, Num):
        return None
    sa, sb = _sym(a), _sym(b)
    tag = type(op).__name__
    if tag == "Add":
        s = sa + sb
    elif tag == "Sub":
        s = sa - sb
    elif tag == "Mult":
        s = sa * sb
    elif tag == "Div":
        s = sa / sb
    elif tag == "Pow":
        s = sa ** sb
    elif tag == "FloorDiv":
        s = sp.floor(sa / sb)
    elif tag == "Mod":
        s = sp.Mod(sa, sb)
    else:
        raise Unsupported("operator %s on symbolic numbers" % tag)
    return Num(s, _raw_op(tag, a, b))


def _is_const(v, c):
    return not isinstance(v, Num) and isinstance(v, (int, float)) and not isinstance(v, bool) and v == c


def _raw_op(tag, a, b):
    """Operation tree of a floating-point computation, folded by the identities that are exact in
    IEEE arithmetic for finite operands (x+0, 0+x, x-0, x*1, 1*x, x/1, x*0, 0*x)."""
    ra, rb = _raw(a), _raw(b)
    if tag == "Add":
        if _is_const(b, 0):
            return ra
        if _is_const(a, 0):
            return rb
    elif tag == "Sub":
        if _is_const(b, 0):
            return ra
    elif tag == "Mult":
        if _is_const(b, 1):
            return ra
        if _is_const(a, 1):
            return rb
        if _is_const(a, 0) or _is_const(b, 0):
            return ("const", "0")
        if ra[0] == "const" and ra[1] == "0" or rb[0] == "const" and rb[1] == "0":
            return ("const", "0")
    elif tag == "Div":
        if _is_const(b, 1):
            return ra
    if tag == "Add" and ra == ("const", "0"):
        return rb
    if tag in ("Add", "Sub") and rb == ("const", "0"):
        return ra
    return (tag, ra, rb)


class AList(list):
    """A Python list with identity (hashable by id so it can sit in sets)."""
    __hash__ = object.__hash__

    def __eq__(self, other):  # identity semantics are what the analysis needs
        return self is other

    def __ne__(self, other):
        return self is not other


class NArr(AList):
    """A 1-D numpy array: elementwise arithmetic, broadcasting with scalars."""
    __hash__ = object.__hash__


class NView(NArr):
    """A basic slice of a numpy array: a VIEW - it reads and writes the storage of its base array (numpy semantics), so a
    later store into the base shows through every view taken earlier."""
    __hash__ = object.__hash__

    def __init__(self, base, start, stop):
        list.__init__(self)
        self.base, self.start, self.stop = base, start, stop

    def _idx(self, i):
        n = self.stop - self.start
        if isinstance(i, int):
            if i < 0:
                i += n
            if not 0 <= i < n:
                raise IndexError(i)
            return self.start + i
        raise TypeError(i)

    def __len__(self):
        return self.stop - self.start

    def __iter__(self):
        return iter([self.base[k] for k in range(self.start, self.stop)])

    def __getitem__(self, i):
        if isinstance(i, slice):
            a, b, st = i.indices(len(self))
            if st != 1:
                return NArr([self.base[self.start + k] for k in range(a, b, st)])
            return NView(self.base, self.start + a, self.start + max(a, b))
        return self.base[self._idx(i)]

    def __setitem__(self, i, v):
        self.base[self._idx(i)] = v

    def __repr__(self):
        return "NView(%r)" % (list(self),)


class Obj:
    def __init__(self, cls, **fields):
        self.cls = cls
        self.f = dict(fields)

    def __repr__(self):
        return "<%s obj>" % self.cls


class ClassRef:
    def __init__(self, name):
        self.name = name


class RecordType:
    """A module-level namedtuple type."""
    def __init__(self, name, fields):
        self.name = name
        self.fields = fields


class ARecord(tuple):
    """An instance of a namedtuple type: an immutable tuple whose positions also have names."""
    def __new__(cls, vals, fields):
        o = tuple.__new__(cls, vals)
        o.fields = fields
        return o


def module_record_types(model):
    out = {}
    for tree in model.trees.values():
        for st in tree.body:
            if isinstance(st, ast.Assign) and len(st.targets) == 1 and isinstance(st.targets[0], ast.Name) and isinstance(st.value, ast.Call) and \
                    ast.unparse(st.value.func) in ("namedtuple", "collections.namedtuple") and len(st.value.args) == 2 and not st.value.keywords:
                f = st.value.args[1]
                fields = None
                if isinstance(f, (ast.List, ast.Tuple)) and all(isinstance(e, ast.Constant) and isinstance(e.value, str) for e in f.elts):
                    fields = [e.value for e in f.elts]
                elif isinstance(f, ast.Constant) and isinstance(f.value, str):
                    fields = f.value.replace(",", " ").split()
                if fields:
                    out[st.targets[0].id] = fields
    return out


class BoundMethod:
    def __init__(self, obj, fn, owner):
        self.obj = obj
        self.fn = fn
        self.owner = owner


class ListMethod:
    def __init__(self, lst, name):
        self.lst = lst
        self.name = name


class Namespace:
    def __init__(self, name):
        self.name = name


class LazyTail:
    """A finite prefix followed by one value repeated for ever: chain([a, b], repeat(v)) / repeat(v)."""
    def __init__(self, prefix, value):
        self.prefix, self.value = list(prefix), value

    def take(self, n):
        return self.prefix[:n] + [self.value] * max(0, n - len(self.prefix))


class PartialCall:
    """functools.partial(f, *args, **kw)"""
    def __init__(self, f, args, kw):
        self.f, self.args, self.kw = f, list(args), dict(kw)


class DictMethod:
    def __init__(self, d, name):
        self.d = d
        self.name = name


class LayerTable:
    """Abstract `node_list`: records what is done to it."""

    def __init__(self, interp, base_depth=None):
        self.interp = interp
        self.base_depth = base_depth      # depth of the tree when the table was set up: the table then holds base_depth + 1 layers
        self.appended = []                # layer objects appended since (they are concrete lists the code may go on filling)

    def resolve(self, i):
        """The concrete list object of a layer appended during this run when the index designates one, else None."""
        if not self.appended:
            return None
        if isinstance(i, int) and not isinstance(i, bool) and i < 0:
            return self.appended[i] if -i <= len(self.appended) else None
        if self.base_depth is None:
            return None
        try:
            si = _sym(i)
        except Exception:
            return None
        for k, layer in enumerate(self.appended):
            if equal_terms(si, _sym(self.base_depth) + 1 + k):
                return layer
        return None


class LayerSlot:
    def __init__(self, table, index):
        self.table = table
        self.index = index


class LayerMethod:
    def __init__(self, target, name):
        self.target = target
        self.name = name


class Lin:
    """np.linspace(a, b, num=n)."""

    def __init__(self, a, b, n, interp):
        if not isinstance(n, int):
            raise Unsupported("np.linspace with a symbolic number of points")
        if n < 2:
            raise PathCrash("np.linspace with num=%r cannot provide two boundaries" % (n,))
        self.terms = []
        for j in range(n):
            if j == 0:
                t = a if isinstance(a, Num) else Num(_sym(a), _raw(a))
            elif j == n - 1:
                t = b if isinstance(b, Num) else Num(_sym(b), _raw(b))
            else:
                t = Num(_sym(a) + sp.Rational(j, n - 1) * (_sym(b) - _sym(a)),
                        ("linspace", _raw(a), _raw(b), n, j))
            self.terms.append(t)
        interp.lins.append(self)

    def __len__(self):
        return len(self.terms)


class _Return(Exception):
    def __init__(self, v):
        self.v = v


class _Break(Exception):
    pass


class _Continue(Exception):
    pass


# ---------------------------------------------------------------------------


class Interp:
    MAX_STEPS = 200000

    def __init__(self, model, oracle=()):
        self.model = model
        self.oracle = list(oracle)
        self.opos = 0
        self.trace = []          # decisions taken (kind, choice, n_options)
        self.facts = []          # (a_sym, b_sym) meaning a <= b
        self.events = []         # layer / depth / input-mutation events
        self.lins = []
        self.nu = 0
        self.input_ids = set()
        self.created = []        # node objects created
        self.steps = 0
        self.rng_calls = []      # (name, args) of every np.random call
        self.stack = []
        self.class_attrs = {}    # (class, attr) -> shared class-level object

    # -- oracle -------------------------------------------------------
    def choose(self, kind, options):
        options = list(options)
        if not options:
            raise PathCrash("%s over an empty range" % kind)
        if self.opos < len(self.oracle):
            c = self.oracle[self.opos]
        else:
            c = 0
        self.opos += 1
        self.trace.append((kind, c, len(options)))
        return options[c]

    # -- functions ----------------------------------------------------
    def call_function(self, fn, selfobj, args, kwargs, owner=None):
        params = [a.arg for a in fn.args.args]
        if fn.args.vararg or fn.args.kwarg or fn.args.kwonlyargs:
            raise Unsupported("*args/**kwargs in %s" % fn.name)
        vals = {}
        pos = ([selfobj] if selfobj is not None else []) + list(args)
        if len(pos) > len(params):
            raise PathCrash("too many arguments for %s" % fn.name)
        for p, v in zip(params, pos):
            vals[p] = v
        for k, v in kwargs.items():
            if k not in params:
                raise PathCrash("unexpected keyword %s for %s" % (k, fn.name))
            vals[k] = v
        defaults = fn.args.defaults
        for p, d in zip(params[len(params) - len(defaults):], defaults):
            if p not in vals:
                vals[p] = self.ev(d, {})
        for p in params:
            if p not in vals:
                raise PathCrash("missing argument %s for %s" % (p, fn.name))
        env = dict(vals)
        env["__owner__"] = owner
        self.stack.append(fn.name)
        if len(self.stack) > 40:
            raise Unsupported("recursion too deep")
        try:
            self.block(fn.body, env)
        except _Return as r:
            return r.v
        finally:
            self.stack.pop()
        return None

    def block(self, stmts, env):
        for s in stmts:
            self.stmt(s, env)

    def tick(self):
        self.steps += 1
        if self.steps > self.MAX_STEPS:
            raise Unsupported("step budget exhausted (unbounded loop?)")

    # -- statements ---------------------------------------------------
    def stmt(self, s, env):
        self.tick()
        if isinstance(s, ast.Expr):
            if isinstance(s.value, ast.Constant):
                return
            self.ev(s.value, env)
            return
        if isinstance(s, ast.Assign):
            v = self.ev(s.value, env)
            for t in s.targets:
                self.assign(t, v, env)
            return
        if isinstance(s, ast.AnnAssign):
            if s.value is not None:
                self.assign(s.target, self.ev(s.value, env), env)
            return
        if isinstance(s, ast.AugAssign):
            cur = self.ev_target_load(s.target, env)
            v = self.ev(s.value, env)
            if isinstance(cur, LayerSlot):
                if not isinstance(s.op, ast.Add):
                    raise Unsupported("augmented op on a layer")
                self.events.append(("extend", cur.index, v, s))
                return
            if isinstance(cur, LayerTable):
                if not isinstance(s.op, ast.Add):
                    raise Unsupported("augmented op on node_list")
                for layer in self.as_iter(v):
                    self.events.append(("append", layer, s))
                    if isinstance(layer, AList):
                        cur.appended.append(layer)
                return
            if isinstance(cur, AList) and isinstance(s.op, ast.Add):
                self.note_mutation(cur, s)
                cur.extend(self.as_iter(v))
                return
            self.assign(s.target, self.arith(s.op, cur, v), env)
            return
        if isinstance(s, ast.If):
            if self.truth(self.ev(s.test, env), s.test):
                self.block(s.body, env)
            else:
                self.block(s.orelse, env)
            return
        if isinstance(s, ast.For):
            it = self.as_iter(self.ev(s.iter, env))
            broke = False
            for x in list(it):
                self.tick()
                self.assign(s.target, x, env)
                try:
                    self.block(s.body, env)
                except _Break:
                    broke = True
                    break
                except _Continue:
                    continue
            if not broke:
                self.block(s.orelse, env)
            return
        if isinstance(s, ast.While):
            n = 0
            while self.truth(self.ev(s.test, env), s.test):
                n += 1
                self.tick()
                if n > 4096:
                    raise Unsupported("while loop does not terminate within 4096 iterations")
                try:
                    self.block(s.body, env)
                except _Break:
                    break
                except _Continue:
                    continue
            return
        if isinstance(s, ast.Return):
            raise _Return(self.ev(s.value, env) if s.value is not None else None)
        if isinstance(s, ast.Raise):
            raise PathCrash("explicit raise: %s" % ast.unparse(s))
        if isinstance(s, ast.Pass):
            return
        if isinstance(s, ast.Break):
            raise _Break()
        if isinstance(s, ast.Continue):
            raise _Continue()
        if isinstance(s, ast.Assert):
            return
        if isinstance(s, (ast.Import, ast.ImportFrom)):
            return
        if isinstance(s, ast.Delete):
            for t in s.targets:
                if isinstance(t, ast.Subscript):
                    o = self.ev(t.value, env)
                    i = self.ev(t.slice, env)
                    if isinstance(o, AList):
                        self.note_mutation(o, s)
                        del o[self.index(i)]
                        continue
                raise Unsupported("del %s" % ast.unparse(t))
            return
        raise Unsupported("statement %s" % type(s).__name__)

    def note_mutation(self, lst, node):
        if id(lst) in self.input_ids:
            self.events.append(("mutate-input", ast.unparse(node), node))

    def ev_target_load(self, t, env):
        if isinstance(t, (ast.Name, ast.Attribute, ast.Subscript)):
            load = t
            return self.ev(load, env, force_load=True)
        raise Unsupported("augmented target")

    def assign(self, t, v, env):
        if isinstance(t, ast.Name):
            env[t.id] = v
        elif isinstance(t, ast.Attribute):
            o = self.ev(t.value, env)
            if isinstance(o, Obj):
                if o.f.get("__kind__") == "partition" and t.attr == "depth":
                    self.events.append(("depth", v, t))
                if o.f.get("__kind__") == "partition" and t.attr == "node_list":
                    self.events.append(("rebind-node_list", v, t))
                if o.f.get("__tracked__"):
                    self.events.append(("setattr", o, t.attr, v, t))
                o.f[t.attr] = v
            else:
                raise Unsupported("attribute store on %r" % (o,))
        elif isinstance(t, ast.Subscript):
            o = self.ev(t.value, env)
            i = self.ev(t.slice, env)
            if isinstance(o, AList):
                self.note_mutation(o, t)
                if isinstance(i, slice):
                    o[i] = list(self.as_iter(v))
                else:
                    idx = self.index(i)
                    try:
                        o[idx] = v
                    except IndexError:
                        raise PathCrash("IndexError in store %s" % ast.unparse(t))
            elif isinstance(o, Lin):
                try:
                    o.terms[self.index(i)] = v
                except IndexError:
                    raise PathCrash("IndexError in store %s" % ast.unparse(t))
            elif isinstance(o, dict):
                self.events.append(("dict-store", o, i, v, t))
                try:
                    o[i] = v
                except TypeError:
                    raise Unsupported("unhashable dict key in %s" % ast.unparse(t))
            elif isinstance(o, LayerTable):
                self.events.append(("set-layer", i, v, t))
            elif isinstance(o, LayerSlot):
                self.events.append(("set-layer-item", o.index, i, v, t))
            else:
                raise Unsupported("subscript store on %r" % (o,))
        elif isinstance(t, (ast.Tuple, ast.List)):
            vals = list(self.as_iter(v))
            if len(vals) != len(t.elts):
                raise PathCrash("unpacking mismatch in %s" % ast.unparse(t))
            for e, x in zip(t.elts, vals):
                self.assign(e, x, env)
        else:
            raise Unsupported("assignment target %s" % type(t).__name__)

    # -- helpers ------------------------------------------------------
    def index(self, i):
        if isinstance(i, bool):
            return int(i)
        if isinstance(i, int):
            return i
        if isinstance(i, Num):
            s = sp.nsimplify(i.sym)
            if s.is_Integer:
                return int(s)
            raise Unsupported("symbolic subscript %s" % (i.sym,))
        if isinstance(i, float) and i == int(i):
            raise PathCrash("float used as a list index")
        raise Unsupported("subscript %r" % (i,))

    def as_iter(self, v):
        if isinstance(v, (AList, list, tuple, range)):
            return v
        if isinstance(v, Lin):
            return v.terms
        if isinstance(v, (itertools.chain, zip, enumerate)):
            return list(v)
        if isinstance(v, LayerSlot) or isinstance(v, LayerTable):
            raise Unsupported("iteration over the abstract node_list")
        if isinstance(v, dict):
            return list(v)
        raise Unsupported("iteration over %r" % (v,))

    def truth(self, v, node):
        if isinstance(v, Num):
            s = sp.simplify(v.sym)
            if s.is_number:
                return bool(s != 0)
            raise Unsupported("truth value of a symbolic number in %s" % ast.unparse(node))
        if isinstance(v, SymCond):
            c = self.choose("branch:" + ast.unparse(node), [True, False])
            if hasattr(self, "decisions"):
                self.decisions.append((v.op, v.a, v.b, c))      # exact outcome (facts below forget strictness)
            fact = v.fact(c)
            if fact is not None:
                self.facts.append(fact)
            return c
        if isinstance(v, (Obj, ClassRef, BoundMethod)):
            return True
        if isinstance(v, (LayerTable, LayerSlot)):
            return True
        return bool(v)

    def arith(self, op, a, b):
        if isinstance(a, Lin):
            a = NArr(a.terms)
        if isinstance(b, Lin):
            b = NArr(b.terms)
        if isinstance(a, NArr) or isinstance(b, NArr):
            if isinstance(a, NArr) and isinstance(b, NArr):
                if len(a) != len(b):
                    raise PathCrash("operands could not be broadcast together")
                return NArr([self.arith(op, x, y) for x, y in zip(a, b)])
            if isinstance(a, NArr):
                if isinstance(b, (AList, list)):
                    raise Unsupported("array op list")
                return NArr([self.arith(op, x, b) for x in a])
            if isinstance(a, (AList, list)):
                raise Unsupported("list op array")
            return NArr([self.arith(op, a, y) for y in b])
        r = binop(op, a, b)
        if r is not None:
            return r
        try:
            if isinstance(op, ast.Add):
                if isinstance(a, AList) or isinstance(b, AList):
                    return AList(list(a) + list(b))
                return a + b
            if isinstance(op, ast.Sub):
                return a - b
            if isinstance(op, ast.Mult):
                if isinstance(a, AList):
                    return AList(list(a) * b)
                if isinstance(b, AList):
                    return AList(a * list(b))
                return a * b
            if isinstance(op, ast.Div):
                if isinstance(a, int) and isinstance(b, int) and not isinstance(a, bool):
                    # keep exact rationals out of floating point: lift to a symbolic constant
                    if b == 0:
                        raise PathCrash("division by zero")
                    q = sp.Rational(a, b)
                    return Num(q, ("Div", _raw(a), _raw(b)))
                return a / b
            if isinstance(op, ast.FloorDiv):
                return a // b
            if isinstance(op, ast.Mod):
                return a % b
            if isinstance(op, ast.Pow):
                return a ** b
            if isinstance(op, ast.LShift):
                return a << b
            if isinstance(op, ast.RShift):
                return a >> b
            if isinstance(op, ast.BitAnd):
                return a & b
            if isinstance(op, ast.BitOr):
                return a | b
            if isinstance(op, ast.BitXor):
                return a ^ b
        except ZeroDivisionError:
            raise PathCrash("division by zero")
        except TypeError as ex:
            raise Unsupported("arithmetic %s on %r, %r (%s)" % (type(op).__name__, a, b, ex))
        raise Unsupported("operator %s" % type(op).__name__)

    def compare(self, op, a, b, node):
        if isinstance(op, ast.Is):
            return a is b
        if isinstance(op, ast.IsNot):
            return a is not b
        if isinstance(op, (ast.In, ast.NotIn)) and isinstance(b, dict):
            try:
                r = a in b
            except TypeError:
                raise Unsupported("unhashable dict key")
            return r if isinstance(op, ast.In) else not r
        if isinstance(op, (ast.In, ast.NotIn)):
            r = any((x is a) or (not isinstance(x, (Obj, AList, Num)) and not isinstance(a, (Obj, AList, Num)) and x == a)
                    for x in self.as_iter(b))
            return r if isinstance(op, ast.In) else not r
        if isinstance(a, Num) or isinstance(b, Num):
            if not (is_numeric(a) and is_numeric(b)):
                if isinstance(op, ast.Eq):
                    return False
                if isinstance(op, ast.NotEq):
                    return True
                raise Unsupported("comparison of a number with %r" % (b,))
            d = sp.simplify(_sym(a) - _sym(b))
            if d.is_number and d.is_real is not False and d.is_finite:
                d = float(d)
                return {ast.Eq: d == 0, ast.NotEq: d != 0, ast.Lt: d < 0, ast.LtE: d <= 0,
                        ast.Gt: d > 0, ast.GtE: d >= 0}[type(op)]
            return SymCond(type(op).__name__, _sym(a), _sym(b))
        if isinstance(a, (Obj, AList)) or isinstance(b, (Obj, AList)):
            if isinstance(op, ast.Eq):
                return a is b
            if isinstance(op, ast.NotEq):
                return a is not b
            raise Unsupported("ordering of objects")
        try:
            return {ast.Eq: lambda: a == b, ast.NotEq: lambda: a != b, ast.Lt: lambda: a < b,
                    ast.LtE: lambda: a <= b, ast.Gt: lambda: a > b, ast.GtE: lambda: a >= b}[type(op)]()
        except TypeError as ex:
            raise Unsupported("comparison %s (%s)" % (ast.unparse(node), ex))

    # -- expressions --------------------------------------------------
    def ev(self, e, env, force_load=False):
        self.tick()
        if isinstance(e, ast.Constant):
            return e.value
        if isinstance(e, ast.Name):
            if e.id in env:
                return env[e.id]
            if e.id in ("np", "numpy", "copy", "math", "random", "itertools", "functools"):
                return Namespace(e.id)
            if e.id in _BUILTINS:
                return Namespace("builtins." + e.id)
            if not hasattr(self, "_from_imports"):
                self._from_imports = {}
                for tree in self.model.trees.values():
                    for st in tree.body:
                        if isinstance(st, ast.ImportFrom) and st.module in ("itertools", "functools", "collections", "copy", "math"):
                            for al in st.names:
                                self._from_imports[al.asname or al.name] = "%s.%s" % (st.module, al.name)
            if e.id in self._from_imports:
                return Namespace(self._from_imports[e.id])
            if e.id in self.model.classes:
                return ClassRef(e.id)
            if not hasattr(self, "_rectypes"):
                self._rectypes = module_record_types(self.model)
            if e.id in self._rectypes:
                return RecordType(e.id, self._rectypes[e.id])
            for (fl, nm), fdef in self.model.functions.items():
                if nm == e.id and fl.startswith("PyXAB/partition/"):
                    return BoundMethod(None, fdef, None)
            if e.id in ("True", "False", "None"):
                return {"True": True, "False": False, "None": None}[e.id]
            raise PathCrash("NameError: name %r is not defined" % e.id)
        if isinstance(e, ast.List):
            return AList([self.ev(x, env) for x in e.elts])
        if isinstance(e, ast.Tuple):
            return tuple(self.ev(x, env) for x in e.elts)
        if isinstance(e, ast.BinOp):
            return self.arith(e.op, self.ev(e.left, env), self.ev(e.right, env))
        if isinstance(e, ast.UnaryOp):
            v = self.ev(e.operand, env)
            if isinstance(e.op, ast.USub):
                if isinstance(v, Num):
                    return Num(-v.sym, ("Neg", v.raw))
                return -v
            if isinstance(e.op, ast.UAdd):
                return v
            if isinstance(e.op, ast.Not):
                if isinstance(v, SymCond):
                    return v.negate()
                return not self.truth(v, e)
            raise Unsupported("unary op")
        if isinstance(e, ast.BoolOp):
            if isinstance(e.op, ast.And):
                v = True
                for x in e.values:
                    v = self.ev(x, env)
                    if not self.truth(v, x):
                        return v if not isinstance(v, SymCond) else False
                return v if not isinstance(v, SymCond) else True
            v = False
            for x in e.values:
                v = self.ev(x, env)
                if self.truth(v, x):
                    return v if not isinstance(v, SymCond) else True
            return v if not isinstance(v, SymCond) else False
        if isinstance(e, ast.IfExp):
            return self.ev(e.body, env) if self.truth(self.ev(e.test, env), e.test) else self.ev(e.orelse, env)
        if isinstance(e, ast.Compare):
            left = self.ev(e.left, env)
            result = True
            for op, c in zip(e.ops, e.comparators):
                right = self.ev(c, env)
                r = self.compare(op, left, right, e)
                if len(e.ops) == 1:
                    return r
                if not self.truth(r, e):
                    return False
                left = right
            return result
        if isinstance(e, ast.Attribute):
            o = self.ev(e.value, env)
            return self.getattr(o, e.attr, e)
        if isinstance(e, ast.Subscript):
            o = self.ev(e.value, env)
            i = self.ev(e.slice, env)
            return self.getitem(o, i, e)
        if isinstance(e, ast.Slice):
            lo = self.ev(e.lower, env) if e.lower is not None else None
            hi = self.ev(e.upper, env) if e.upper is not None else None
            st = self.ev(e.step, env) if e.step is not None else None
            return slice(None if lo is None else self.index(lo), None if hi is None else self.index(hi),
                         None if st is None else self.index(st))
        if isinstance(e, ast.Call):
            f = self.ev(e.func, env)
            args = []
            for a in e.args:
                if isinstance(a, ast.Starred):
                    args.extend(self.as_iter(self.ev(a.value, env)))
                else:
                    args.append(self.ev(a, env))
            kw = {}
            for k in e.keywords:
                if k.arg is None:
                    raise Unsupported("**kwargs call")
                kw[k.arg] = self.ev(k.value, env)
            return self.call(f, args, kw, e, env)
        if isinstance(e, ast.Dict):
            d = {}
            for k, v in zip(e.keys, e.values):
                if k is None:
                    raise Unsupported("dict unpacking")
                d[self.ev(k, env)] = self.ev(v, env)
            return d
        if isinstance(e, ast.ListComp):
            return AList(self.comprehension(e, env))
        if isinstance(e, ast.GeneratorExp):
            return AList(self.comprehension(e, env))
        if isinstance(e, ast.JoinedStr):
            return "<fstring>"
        if isinstance(e, ast.Starred):
            raise Unsupported("starred expression")
        raise Unsupported("expression %s" % type(e).__name__)

    def comprehension(self, e, env):
        out = []
        env2 = dict(env)

        def rec(k):
            if k == len(e.generators):
                out.append(self.ev(e.elt, env2))
                return
            g = e.generators[k]
            for x in list(self.as_iter(self.ev(g.iter, env2))):
                self.assign(g.target, x, env2)
                if all(self.truth(self.ev(c, env2), c) for c in g.ifs):
                    rec(k + 1)
        rec(0)
        return out

    def getattr(self, o, attr, node):
        if isinstance(o, Namespace):
            return Namespace(o.name + "." + attr)
        if isinstance(o, ARecord):
            if attr in o.fields:
                return o[o.fields.index(attr)]
            raise PathCrash("AttributeError: record has no field %r" % attr)
        if isinstance(o, Obj):
            if attr in o.f:
                return o.f[attr]
            owner, fn = self.model.lookup(o.cls, attr)
            if fn is not None:
                if any(isinstance(dc, ast.Name) and dc.id == "staticmethod" for dc in fn.decorator_list):
                    return BoundMethod(None, fn, owner.name)
                return BoundMethod(o, fn, owner.name)
            # class-level attribute: one object shared by every instance of the class
            for c in self.model.mro(o.cls):
                for s in c.node.body:
                    if isinstance(s, ast.Assign) and any(isinstance(t, ast.Name) and t.id == attr for t in s.targets):
                        k = (c.name, attr)
                        if k not in self.class_attrs:
                            self.class_attrs[k] = self.ev(s.value, {})
                        return self.class_attrs[k]
            raise PathCrash("AttributeError: %s object has no attribute %r" % (o.cls, attr))
        if isinstance(o, NArr) and attr in ("tolist", "copy"):
            return ListMethod(o, "copy")
        if isinstance(o, NArr) and attr == "size":
            return len(o)
        if isinstance(o, AList):
            if attr in ("append", "extend", "reverse", "insert", "pop", "copy", "index", "sort", "clear", "remove", "count"):
                return ListMethod(o, attr)
            raise PathCrash("AttributeError: list has no attribute %r" % attr)
        if isinstance(o, (LayerTable, LayerSlot)):
            return LayerMethod(o, attr)
        if isinstance(o, dict):
            return DictMethod(o, attr)
        if isinstance(o, Lin):
            if attr in ("tolist",):
                return ListMethod(AList(o.terms), "copy")
            if attr == "size":
                return len(o.terms)
        if isinstance(o, SuperProxy):
            mro = self.model.mro(o.obj.cls)
            names = [c.name for c in mro]
            start = names.index(o.after) + 1 if o.after in names else 1
            for c in mro[start:]:
                if attr in c.methods:
                    return BoundMethod(o.obj, c.methods[attr], c.name)
            if attr == "__init__":
                return Namespace("builtins.noop")
            raise PathCrash("AttributeError: super has no attribute %r" % attr)
        if isinstance(o, ClassRef):
            if attr == "__name__":
                return o.name
            if o.name in self.model.classes:
                for c in self.model.mro(o.name):
                    for s in c.node.body:
                        if isinstance(s, ast.Assign) and any(isinstance(t, ast.Name) and t.id == attr for t in s.targets):
                            k = (c.name, attr)
                            if k not in self.class_attrs:
                                self.class_attrs[k] = self.ev(s.value, {})
                            return self.class_attrs[k]
        raise Unsupported("attribute %s on %r" % (attr, o))

    def getitem(self, o, i, node):
        if isinstance(o, LayerTable):
            got = o.resolve(i)
            if got is not None:
                return got
            return LayerSlot(o, i)
        if isinstance(o, LayerSlot):
            raise Unsupported("reading an element of an abstract layer")
        if isinstance(o, Lin):
            if isinstance(i, slice):
                return AList(o.terms[i])
            try:
                return o.terms[self.index(i)]
            except IndexError:
                raise PathCrash("IndexError in %s" % ast.unparse(node))
        if isinstance(o, (AList, list, tuple, range)):
            if isinstance(i, slice):
                if isinstance(o, NView):
                    return o[i]
                if isinstance(o, NArr):
                    a, b, st = i.indices(len(o))
                    if st == 1:
                        return NView(o, a, max(a, b))       # basic slicing of an ndarray returns a view
                r = list.__getitem__(o, i) if isinstance(o, list) else o[i]
                if isinstance(o, NArr):
                    return NArr(r)
                return AList(r) if isinstance(o, (AList, list)) else r
            try:
                return o[self.index(i)]
            except IndexError:
                raise PathCrash("IndexError in %s" % ast.unparse(node))
        if isinstance(o, dict):
            try:
                return o[i]
            except KeyError:
                raise PathCrash("KeyError in %s" % ast.unparse(node))
            except TypeError:
                raise Unsupported("unhashable dict key in %s" % ast.unparse(node))
        raise Unsupported("subscript on %r" % (o,))

    def deepcopy(self, v, memo=None):
        """copy.deepcopy: fresh containers, sharing inside the copied structure preserved (memo)."""
        if memo is None:
            memo = {}
        if isinstance(v, (AList, list)):
            if id(v) in memo:
                return memo[id(v)]
            out = NArr() if isinstance(v, NArr) else AList()
            memo[id(v)] = out
            for x in v:
                out.append(self.deepcopy(x, memo))
            return out
        if isinstance(v, tuple):
            return tuple(self.deepcopy(x, memo) for x in v)
        if isinstance(v, Lin):
            return AList(list(v.terms))
        if isinstance(v, Obj):
            raise Unsupported("deepcopy of an object")
        return v

    def call(self, f, args, kw, node, env):
        if isinstance(f, PartialCall):
            return self.call(f.f, f.args + list(args), dict(f.kw, **kw), node, env)
        if isinstance(f, Namespace) and f.name == "functools.partial":
            if not args:
                raise PathCrash("TypeError: partial() needs a callable")
            return PartialCall(args[0], args[1:], kw)
        if isinstance(f, BoundMethod):
            return self.call_function(f.fn, f.obj, args, kw, owner=f.owner)
        if isinstance(f, RecordType):
            if len(args) + len(kw) != len(f.fields) or any(k not in f.fields[len(args):] for k in kw):
                raise PathCrash("TypeError: %s() arguments do not match its fields" % f.name)
            vals = list(args) + [kw[k] for k in f.fields[len(args):]]
            return ARecord(vals, f.fields)
        if isinstance(f, ClassRef):
            if f.name not in self.model.classes:
                raise Unsupported("class %s" % f.name)
            o = Obj(f.name)
            self.created.append(o)
            owner, init = self.model.lookup(f.name, "__init__")
            if init is not None:
                self.call_function(init, o, args, kw, owner=owner.name)
            return o
        if isinstance(f, ListMethod):
            lst, m = f.lst, f.name
            if m in ("append", "extend", "reverse", "insert", "pop", "sort", "clear", "remove"):
                self.note_mutation(lst, node)
            if m == "extend":
                lst.extend(self.as_iter(args[0]))
                return None
            if m == "copy":
                return AList(lst)
            if m == "pop":
                try:
                    return lst.pop(*[self.index(a) for a in args])
                except IndexError:
                    raise PathCrash("pop from empty list")
            if m == "insert":
                lst.insert(self.index(args[0]), args[1])
                return None
            if m == "sort":
                raise Unsupported("list.sort in interpreted code")
            if m == "index":
                for k, x in enumerate(lst):
                    if x is args[0]:
                        return k
                raise PathCrash("ValueError: not in list")
            if m == "remove":
                for k, x in enumerate(lst):
                    if x is args[0]:
                        del lst[k]
                        return None
                raise PathCrash("ValueError: not in list")
            if m == "count":
                return sum(1 for x in lst if x is args[0])
            return getattr(list, m)(lst, *args)
        if isinstance(f, LayerMethod):
            t, m = f.target, f.name
            if isinstance(t, LayerTable):
                if m == "append":
                    self.events.append(("append", args[0], node))
                    if isinstance(args[0], AList):
                        t.appended.append(args[0])
                    return None
                if m == "extend":
                    for layer in self.as_iter(args[0]):
                        self.events.append(("append", layer, node))
                        if isinstance(layer, AList):
                            t.appended.append(layer)
                    return None
                if m == "insert":
                    self.events.append(("insert", args[0], args[1], node))
                    return None
                raise Unsupported("node_list.%s" % m)
            if m == "extend":
                self.events.append(("extend", t.index, args[0], node))
                return None
            if m == "append":
                self.events.append(("extend", t.index, AList([args[0]]), node))
                return None
            self.events.append(("layer-op", t.index, m, node))
            return None
        if isinstance(f, DictMethod):
            d, m = f.d, f.name
            try:
                if m == "get":
                    return d.get(args[0], args[1] if len(args) > 1 else None)
                if m == "setdefault":
                    if args[0] not in d:
                        self.events.append(("dict-store", d, args[0], args[1] if len(args) > 1 else None, node))
                    return d.setdefault(args[0], args[1] if len(args) > 1 else None)
                if m == "keys":
                    return AList(d.keys())
                if m == "values":
                    return AList(d.values())
                if m == "items":
                    return AList(d.items())
                if m == "pop":
                    return d.pop(*args)
                if m == "clear":
                    d.clear()
                    return None
            except TypeError:
                raise Unsupported("unhashable dict key")
            except KeyError:
                raise PathCrash("KeyError")
            raise Unsupported("dict.%s" % m)
        if isinstance(f, Namespace):
            return self.builtin(f.name, args, kw, node, env)
        raise PathCrash("TypeError: %r is not callable in %s" % (f, ast.unparse(node)))

    def builtin(self, n, args, kw, node, env):
        if n.startswith("builtins."):
            n = n[len("builtins."):]
        if n == "noop":
            return None
        if n == "len":
            v = args[0]
            if isinstance(v, LayerTable):
                if v.base_depth is not None:
                    return self.arith(ast.Add(), v.base_depth, 1 + len(v.appended))
                d = self.partition_depth()
                return self.arith(ast.Add(), d, 1)
            if isinstance(v, Lin):
                return len(v.terms)
            if isinstance(v, LayerSlot):
                raise Unsupported("len() of an abstract layer")
            return len(v)
        if n == "range":
            return range(*[self.index(a) for a in args])
        if n == "list":
            return AList(self.as_iter(args[0])) if args else AList()
        if n == "tuple":
            return tuple(self.as_iter(args[0])) if args else ()
        if n == "dict":
            if args or kw:
                raise Unsupported("dict(...) with arguments")
            return {}
        if n == "set":
            raise Unsupported("set() in interpreted code")
        if n == "enumerate":
            st = args[1] if len(args) > 1 else kw.get("start", 0)
            try:
                start = self.index(st)
                return [(k, x) for k, x in enumerate(self.as_iter(args[0]), start)]
            except Unsupported:
                # a symbolic start (a cell index): position k is start + k
                return [(self.arith(ast.Add(), st, k) if k else st, x) for k, x in enumerate(self.as_iter(args[0]))]
        if n == "zip":
            fin = [list(self.as_iter(a)) for a in args if not isinstance(a, LazyTail)]
            if not fin:
                raise Unsupported("zip of unbounded iterators only")
            ln = min(len(x) for x in fin)
            cols = [a.take(ln) if isinstance(a, LazyTail) else list(self.as_iter(a))[:ln] for a in args]
            return [tuple(t) for t in zip(*cols)]
        if n in ("itertools.repeat", "repeat"):
            if len(args) == 2 or "times" in kw:
                return AList([args[0]] * self.index(args[1] if len(args) == 2 else kw["times"]))
            return LazyTail([], args[0])
        if n in ("itertools.islice", "islice"):
            a = [None if x is None else self.index(x) for x in args[1:]]
            if isinstance(args[0], LazyTail):
                stop = a[0] if len(a) == 1 else a[1]
                if stop is None:
                    raise Unsupported("islice of an unbounded iterator without a stop")
                seq = args[0].take(stop)
            else:
                seq = list(self.as_iter(args[0]))
            return AList(seq[slice(*a)] if len(a) > 1 else seq[:a[0]])
        if n == "reversed":
            return AList(reversed(list(self.as_iter(args[0]))))
        if n in ("int", "float"):
            v = args[0]
            if isinstance(v, Num):
                if n == "float":
                    return v
                s = sp.nsimplify(v.sym)
                if s.is_Integer:
                    return int(s)
                if s.is_number:
                    return int(s)
                raise Unsupported("int() of a symbolic number")
            return int(v) if n == "int" else v
        if n == "bool":
            return self.truth(args[0], node)
        if n == "map":
            fnv = args[0]
            seqs = [list(self.as_iter(a)) for a in args[1:]]
            return AList([self.call(fnv, list(xs), {}, node, env) for xs in zip(*seqs)])
        if n in ("itertools.product", "product"):
            import itertools as _it
            rep = self.index(kw.get("repeat", 1)) if "repeat" in kw else 1
            seqs = [list(self.as_iter(a)) for a in args]
            return AList([tuple(t) for t in _it.product(*seqs, repeat=rep)])
        if n in ("itertools.chain", "chain"):
            out = AList()
            for k2, a in enumerate(args):
                if isinstance(a, LazyTail):
                    if k2 != len(args) - 1:
                        raise Unsupported("an unbounded iterator in the middle of a chain")
                    return LazyTail(list(out) + a.prefix, a.value)
                out.extend(self.as_iter(a))
            return out
        if n in ("itertools.chain.from_iterable", "chain.from_iterable"):
            out = AList()
            for a in self.as_iter(args[0]):
                out.extend(self.as_iter(a))
            return out
        if n in ("all", "any"):
            # (the elements were evaluated eagerly; for side-effect-free elements only the number of evaluations differs)
            want = n == "any"
            for x in self.as_iter(args[0]):
                if self.truth(x, node) == want:
                    return want
            return not want
        if n == "isinstance":
            return True
        if n == "abs":
            v = args[0]
            if isinstance(v, Num):
                return Num(sp.Abs(v.sym), ("abs", v.raw))
            return abs(v)
        if n in ("min", "max"):
            vals = list(self.as_iter(args[0])) if len(args) == 1 else list(args)
            if any(isinstance(v, Num) for v in vals):
                f = sp.Min if n == "min" else sp.Max
                return Num(f(*[_sym(v) for v in vals]), (n,) + tuple(_raw(v) for v in vals))
            return min(vals) if n == "min" else max(vals)
        if n == "sum":
            tot = 0
            for v in self.as_iter(args[0]):
                tot = self.arith(ast.Add(), tot, v)
            return tot
        if n == "divmod":
            a, b = args
            if isinstance(a, Num) or isinstance(b, Num):
                raise Unsupported("divmod of symbolic numbers")
            return divmod(a, b)
        if n == "print":
            return None
        if n == "round":
            v = args[0]
            if isinstance(v, Num):
                nd = args[1] if len(args) > 1 else 0
                return Num(sp.Function("round")(v.sym, _sym(nd)), ("round", v.raw, _raw(nd)))
            return round(*args)
        if n == "super":
            selfobj = env.get("self")
            owner = env.get("__owner__")
            if len(args) == 2 and isinstance(args[0], ClassRef):
                owner = args[0].name
                selfobj = args[1]
            return SuperProxy(selfobj, owner)
        if n in ("copy.deepcopy",):
            return self.deepcopy(args[0])
        if n in ("copy.copy",):
            v = args[0]
            if isinstance(v, Obj):
                # shallow copy: a new object whose fields refer to the SAME values (lists and dicts are shared)
                o2 = Obj(v.cls, **dict(v.f))
                self.created.append(o2)
                return o2
            if isinstance(v, dict):
                return dict(v)
            return AList(v) if isinstance(v, (AList, list)) else v
        if n in ("np.random.randint", "numpy.random.randint"):
            self.rng_calls.append((n, node))
            if len(args) == 1:
                lo, hi = 0, args[0]
            else:
                lo, hi = args[0], args[1]
            if "high" in kw:
                hi = kw["high"]
            if "low" in kw:
                lo = kw["low"]
            lo, hi = self.index(lo), self.index(hi)
            return self.choose("randint", list(range(lo, hi)))
        if n in ("np.random.choice", "numpy.random.choice"):
            self.rng_calls.append((n, node))
            v = args[0]
            opts = list(range(self.index(v))) if is_numeric(v) else list(self.as_iter(v))
            return self.choose("choice", opts)
        if n in ("np.random.uniform", "numpy.random.uniform"):
            self.rng_calls.append((n, node))
            a = args[0] if args else kw.get("low", 0)
            b = args[1] if len(args) > 1 else kw.get("high", 1)
            self.nu += 1
            u = atom("u%d" % self.nu, real=True)
            self.facts.append((_sym(a), u.sym))
            self.facts.append((u.sym, _sym(b)))
            self.uniform_draws = getattr(self, "uniform_draws", []) + [(u, a, b)]
            return u
        if n in ("np.random.rand", "np.random.random", "np.random.random_sample", "numpy.random.rand"):
            self.rng_calls.append((n, node))
            self.nu += 1
            u = atom("u%d" % self.nu, real=True)
            self.facts.append((sp.Integer(0), u.sym))
            self.facts.append((u.sym, sp.Integer(1)))
            return u
        if n in ("np.random.seed", "numpy.random.seed", "random.seed"):
            # reseeding is an effect on the global generator only (reported by C14); it produces no value
            self.rng_calls.append((n, node))
            return None
        if n.startswith("random.") or n.startswith("np.random.") or n.startswith("numpy.random."):
            self.rng_calls.append((n, node))
            raise Unsupported("random source %s" % n)
        if n in ("np.linspace", "numpy.linspace"):
            a, b = args[0], args[1]
            num = args[2] if len(args) > 2 else kw.get("num", 50)
            if kw.get("endpoint", True) is not True:
                raise Unsupported("np.linspace(endpoint=False)")
            num = self.index(num) if isinstance(num, Num) else num
            return Lin(a, b, num, self)
        if n in ("np.array", "np.asarray", "numpy.array"):
            return NArr(self.as_iter(args[0]))
        if n in ("np.arange", "numpy.arange"):
            if len(args) == 2 and not kw and any(isinstance(a, Num) for a in args):
                # symbolic start with a concrete length: the elements are start + j, numpy fixed-width integers
                n_el = sp.simplify(_sym(args[1]) - _sym(args[0]))
                if n_el.is_Integer and 0 <= int(n_el) <= 64:
                    return NArr([Num(_sym(args[0]) + j, ("npint", _raw(args[0]), j)) for j in range(int(n_el))])
            if any(isinstance(a, Num) for a in args) or kw:
                vals = [self.index(a) for a in args]
            else:
                vals = list(args)
            if not all(isinstance(v, int) for v in vals):
                raise Unsupported("np.arange with non-integer arguments")
            return NArr(range(*vals))
        if n in ("np.zeros", "np.ones", "numpy.zeros", "numpy.ones"):
            return NArr([0 if n.endswith("zeros") else 1] * self.index(args[0]))
        if n in ("np.cumsum", "numpy.cumsum"):
            tot = 0
            out = NArr()
            for v in self.as_iter(args[0]):
                tot = self.arith(ast.Add(), tot, v)
                out.append(tot)
            return out
        if n in ("np.inf", "math.inf"):
            return float("inf")
        if n in ("np.floor", "math.floor", "np.ceil", "math.ceil"):
            v = args[0]
            if isinstance(v, Num):
                f = sp.floor if n.endswith("floor") else sp.ceiling
                return Num(f(v.sym), (n, v.raw))
            import math
            return (math.floor if n.endswith("floor") else math.ceil)(v)
        if n in ("np.power", "math.pow"):
            return self.arith(ast.Pow(), args[0], args[1])
        if n in ("np.abs", "np.fabs", "math.fabs"):
            return self.builtin("abs", args, kw, node, env)
        if n in ("np.minimum", "np.maximum"):
            return self.builtin("min" if n.endswith("minimum") else "max", args, kw, node, env)
        if n in ("np.mean", "np.average"):
            vals = list(self.as_iter(args[0]))
            tot = self.builtin("sum", [vals], {}, node, env)
            return self.arith(ast.Div(), tot, len(vals))
        if n.startswith(("np.", "numpy.", "math.")) and not kw and args:
            # any other numeric library function: an opaque value (elementwise on arrays)
            fname = n.split(".")[-1]

            def op(*xs):
                if any(isinstance(x, Num) for x in xs):
                    return Num(sp.Function("F_" + fname)(*[_sym(x) for x in xs]), (n,) + tuple(_raw(x) for x in xs))
                if all(isinstance(x, (int, float)) and not isinstance(x, bool) for x in xs):
                    import math
                    import builtins
                    f = getattr(math, fname, None)
                    if fname == "round":
                        return float(builtins.round(*xs))
                    if f is not None:
                        try:
                            return f(*xs)
                        except Exception:
                            pass
                    return Num(sp.Function("F_" + fname)(*[_sym(x) for x in xs]), (n,) + tuple(_raw(x) for x in xs))
                raise Unsupported("call of %s on %r" % (n, xs))
            if isinstance(args[0], (NArr, Lin)):
                arr = args[0].terms if isinstance(args[0], Lin) else args[0]
                return NArr([op(x, *args[1:]) for x in arr])
            if all(is_numeric(a) for a in args):
                return op(*args)
        raise Unsupported("call of %s" % n)

    def partition_depth(self):
        raise Unsupported("len(node_list) without a partition in scope")


class SuperProxy:
    def __init__(self, obj, after):
        self.obj = obj
        self.after = after


class SymCond:
    """A comparison between symbolic numbers whose outcome the oracle enumerates."""

    def __init__(self, op, a, b):
        self.op, self.a, self.b = op, a, b

    def negate(self):
        neg = {"Lt": "GtE", "GtE": "Lt", "Gt": "LtE", "LtE": "Gt", "Eq": "NotEq", "NotEq": "Eq"}
        return SymCond(neg[self.op], self.a, self.b)

    def fact(self, outcome):
        op = self.op if outcome else self.negate().op
        if op in ("Lt", "LtE"):
            return (self.a, self.b)
        if op in ("Gt", "GtE"):
            return (self.b, self.a)
        return None


_BUILTINS = {"divmod", "round", "dict", "set", "len", "range", "list", "tuple", "enumerate", "zip", "reversed", "int", "float", "bool", "all", "any", "map",
             "isinstance", "abs", "min", "max", "sum", "print", "super"}


# ---------------------------------------------------------------------------
# ordering oracle over terms


_CANON = {}


def canon(e):
    """Canonical form of a term: frozenset of (monomial, rational coefficient) after expansion.
    Terms are affine in the atoms in practice, so this is a cheap exact normal form."""
    e = sp.sympify(e)
    r = _CANON.get(e)
    if r is None:
        x = sp.expand(e)
        d = x.as_coefficients_dict()
        r = frozenset((k, v) for k, v in d.items() if v != 0)
        _CANON[e] = r
    return r


def csub(a, b):
    d = dict(a)
    for k, v in b:
        d[k] = d.get(k, 0) - v
    return {k: v for k, v in d.items() if v != 0}


def cconst(d):
    """Value of a coefficient dict if it is a plain real number, else None."""
    if not d:
        return sp.Integer(0)
    if len(d) == 1 and sp.Integer(1) in d:
        v = d[sp.Integer(1)]
        if v.is_real and v.is_finite:
            return v
    return None


def equal_terms(a, b):
    return canon(a) == canon(b)


class Order:
    """a <= b decided by reachability in the graph of known facts, closed under
    convex combinations of comparable end points."""

    def __init__(self, facts):
        self.G = nx.DiGraph()
        for a, b in facts:
            self.G.add_edge(canon(a), canon(b))
        self.combos = {}   # term -> list of (x, y, lam)
        self.memo = {}

    def _reach(self, x, y):
        d = self.memo.get(x)
        if d is None:
            d = nx.descendants(self.G, x) if x in self.G else set()
            d.add(x)
            self.memo[x] = d
        return y in d

    def _place(self, t):
        if t in self.G:
            return t
        nodes = list(self.G.nodes)
        placed = False
        for x in nodes:
            tx = csub(t, x)
            for y in nodes:
                if x == y or not self._reach(x, y):
                    continue
                den = csub(y, x)
                if not den:
                    continue
                # t - x == lam * (y - x) ?
                lam = None
                ok = set(tx) <= set(den)
                if ok:
                    for k, v in den.items():
                        q = tx.get(k, 0) / v
                        if lam is None:
                            lam = q
                        elif q != lam:
                            ok = False
                            break
                if ok and lam is not None and lam.is_number and lam.is_real and 0 <= lam <= 1:
                    self.combos.setdefault(t, []).append((x, y, lam))
                    placed = True
        if placed:
            self.memo.clear()
            for (x, y, lam) in self.combos[t]:
                self.G.add_edge(x, t)
                self.G.add_edge(t, y)
            for other, lst in list(self.combos.items()):
                if other == t:
                    continue
                for (x1, y1, l1) in lst:
                    for (x2, y2, l2) in self.combos[t]:
                        if x1 == x2 and y1 == y2:
                            if l1 <= l2:
                                self.G.add_edge(other, t)
                            if l2 <= l1:
                                self.G.add_edge(t, other)
        else:
            self.G.add_node(t)
        return t

    def leq(self, a, b):
        a = canon(a)
        b = canon(b)
        if a == b:
            return True
        c = cconst(csub(b, a))
        if c is not None:
            return bool(c >= 0)
        a = self._place(a)
        b = self._place(b)
        return self._reach(a, b)


def same_real(a, b):
    """Equality in real arithmetic of two Num/number values."""
    return canon(_sym(a)) == canon(_sym(b))


def same_bits(a, b):
    """Sufficient condition for run-time bit-identity: the same computation on the same atoms."""
    return _raw(a) == _raw(b)


# ---------------------------------------------------------------------------
# exhaustive exploration of oracle strings


def explore(run, limit=20000):
    """Call run(oracle) for every oracle string; `run` returns (result, trace).
    Yields (oracle, result)."""
    todo = [()]
    n = 0
    while todo:
        o = todo.pop()
        n += 1
        if n > limit:
            raise Unsupported("more than %d paths" % limit)
        result, trace = run(o)
        # decisions beyond the prefix were taken with choice 0: schedule their siblings
        for pos in range(len(o), len(trace)):
            kind, c, nopt = trace[pos]
            prefix = tuple(t[1] for t in trace[:pos])
            for alt in range(1, nopt):
                todo.append(prefix + (alt,))
        yield tuple(t[1] for t in trace), result


class StepResult:
    pass


def make_children_step(model, pcls, K, d, newlayer, oracle, node_cls="P_node", method="make_children"):
    """Interpret one `make_children(parent, newlayer)` on an abstract pre-state."""
    I = Interp(model, oracle)
    lo = [atom("lo%d" % k, real=True) for k in range(d)]
    hi = [atom("hi%d" % k, real=True) for k in range(d)]
    h = atom("h", integer=True, nonnegative=True)
    i = atom("i", integer=True, positive=True)
    dom = AList([AList([lo[k], hi[k]]) for k in range(d)])
    I.input_ids = {id(dom)} | {id(x) for x in dom}
    for k in range(d):
        I.facts.append((lo[k].sym, hi[k].sym))
    cpoint = AList([Num((lo[k].sym + hi[k].sym) / 2, ("pre-centre", k)) for k in range(d)])
    parent = Obj(node_cls, depth=h, index=i, parent=None, children=None, domain=dom, c_point=cpoint)
    parent.f["__tracked__"] = False
    table = LayerTable(I)
    if newlayer:
        D = h                      # precondition of newlayer=True: the parent sits at the deepest level
    else:
        D = atom("D", integer=True, positive=True)   # precondition h < D is checked at the call sites (C03)
    part = Obj(pcls, node=ClassRef(node_cls), node_list=table, depth=D, domain=None, root=None)
    part.f["__kind__"] = "partition"
    if K is not None:
        part.f["K"] = K
    I.partition_depth = lambda: part.f["depth"]
    owner, fn = model.lookup(pcls, method)
    if fn is None:
        raise AnalysisError("%s.%s not found" % (pcls, method))
    r = StepResult()
    r.interp, r.parent, r.part, r.lo, r.hi, r.h, r.i, r.D0 = I, parent, part, lo, hi, h, i, D
    r.crash = None
    try:
        I.call_function(fn, part, [parent], {"newlayer": newlayer}, owner=owner.name)
    except PathCrash as ex:
        r.crash = str(ex)
    return r, I.trace
