"""C06 - tree bandits grow only at the pulled leaf, under the published rule."""
import ast

import sympy as sp

from .. import access as AC
from .. import callsites as CS
from .. import cfg as C
from .. import effects as E
from .. import summary as SM
from .. import symx as SX
from ..model import calls_in, get_arg, is_self_attr, method_name, strip_doc
from ..report import AnalysisError, Ctx, norm_src
from . import c03, c05

TREE_ALGOS = c05.TREE_ALGOS


def growth_sites(model, algo, eff):
    """Own methods of `algo` reachable from receive_reward, and the expansion call sites in them."""
    start = model.lookup(algo, "receive_reward")[1]
    seen, todo = [], [start]
    while todo:
        f = todo.pop()
        if f in seen:
            continue
        seen.append(f)
        for call in ast.walk(f):
            if isinstance(call, ast.Call) and isinstance(call.func, ast.Attribute) and isinstance(call.func.value, ast.Name) \
                    and call.func.value.id == "self":
                o, callee = model.lookup(algo, call.func.attr)
                if callee is not None:
                    todo.append(callee)
    return seen


def check_site(ctx, algo, eff):
    model = ctx.model
    c = model.cls(algo)
    fns = growth_sites(model, algo, eff)
    wrappers = {f.name for f in fns if calls_in(f, "make_children")}
    # expansion sites = calls of wrapper methods (expand) or direct make_children outside wrappers
    sites = []
    for f in fns:
        for call in ast.walk(f):
            if isinstance(call, ast.Call) and isinstance(call.func, ast.Attribute):
                if call.func.attr in wrappers and isinstance(call.func.value, ast.Name) and call.func.value.id == "self":
                    sites.append((f, call))
                elif call.func.attr == "make_children" and f.name not in wrappers:
                    sites.append((f, call))
    ok = len(sites) == 1
    ctx.ob("R06-SITE", ok, c.file, "%s.receive_reward" % algo, "exactly one expansion site per round",
           "%s" % ["%s: %s" % (f.name, norm_src(s)) for f, s in sites], fns[0].lineno)
    for f in fns:
        ctx.fn("%s.%s" % (algo, f.name))
    if not sites:
        return None
    f, call = sites[0]
    fc = CS.FnCtx(model, eff, algo, f)
    at = fc.node_of(call)
    # not inside a loop
    in_loop = at in __import__("networkx").descendants(fc.cfg.G, at)
    ctx.ob("R06-SITE", not in_loop, c.file, fc.qual, norm_src(call), "executed at most once per round" if not in_loop else
           "the expansion sits inside a loop: more than one set of children can be added in a round", call.lineno)
    # the expanded cell is the handed-out cell: path[-1] with path the parameter bound to self.path
    X = get_arg(call, 0, "parent")
    xs = norm_src(X)
    handed = False
    why = ""
    if isinstance(X, ast.Name):
        ds, entry = fc.reaching(xs, at)
        if not entry and len(ds) == 1 and ds[0][1][0] == "assign":
            X = ds[0][1][1]
            xs = norm_src(X)
    if isinstance(X, ast.Subscript) and norm_src(X.slice) == "-1" and isinstance(X.value, ast.Name):
        P = X.value.id
        params = [a.arg for a in f.args.args]
        if P in params and not fc.defs_of(P):
            pos = params.index(P) - 1
            callers = []
            for g in fns:
                for c2 in calls_in(g, f.name):
                    callers.append((g, c2))
            handed = bool(callers) and all(norm_src(get_arg(c2, pos, P)) == "self.path" for g, c2 in callers)
            why = "callers pass %s" % [norm_src(get_arg(c2, pos, P)) for g, c2 in callers]
        else:
            why = "'%s' is not an untouched parameter" % P
    elif xs == "self.path[-1]":
        handed = True
    else:
        why = "expanded cell is '%s'" % xs
    ctx.ob("R06-SITE", handed, c.file, fc.qual, norm_src(call),
           "expands the last cell of self.path - the cell pull handed out (pairing: C04 R04-PAIR)" if handed else
           "the expanded cell is not the handed-out cell self.path[-1]: %s" % why, call.lineno)
    # the wrapper reached from the site (expand) grows the tree unconditionally: the decision is taken at the site, where the
    # published predicate is checked - a further condition inside the wrapper would suppress a due expansion
    for wn in sorted(wrappers):
        wf = model.lookup(algo, wn)[1]
        if wf is None:
            continue
        gw = C.CFG(wf)
        mcs = {gw.node_of(x) for x in calls_in(wf, "make_children")}
        okw = bool(mcs) and gw.must_pass(gw.entry, mcs, {gw.exit}) and not any(gw.paths_avoiding(a, b) for a in mcs for b in mcs)
        ctx.ob("R06-SITE", okw, c.file, "%s.%s" % (algo, wn), "make_children inside %s" % wn,
               "every call of %s adds the children (exactly one make_children on every path)" % wn if okw else
               "%s does not always reach its make_children call (or has several): an expansion that is due by the published rule can be skipped"
               % wn, wf.lineno)
    # pull / get_last_point never grow the tree
    acc = AC.Access(model, eff, algo)
    for m in ("pull", "get_last_point"):
        fn = model.lookup(algo, m)[1]
        R, W, _ = acc.summary(fn, "algo")
        ctx.ob("R06-SITE", "TREE" not in W, c.file, "%s.%s" % (algo, m), "%s adds no cells" % m,
               "transitive write set %s" % sorted(W), fn.lineno)
    return fc, call, at


def check_pred(ctx, algo, site):
    """R06-PRED: the guards dominating the expansion are exactly the published rule."""
    model = ctx.model
    c = model.cls(algo)
    fc, call, at = site
    facts = C.facts_at(fc.cfg, at)
    X = norm_src(get_arg(call, 0, "parent"))
    # resolve aliases of the expanded cell and of its depth
    alias = {}
    for n, r in [(n, r) for nm in ("end_node", "en_depth") for n, r in fc.defs_of(nm)]:
        pass
    atoms = []
    for a, t, lab, e in facts:
        atoms.append(a)
    def sub_alias(s):
        for nm in ("en_depth",):
            ds = fc.defs_of(nm)
            if len(ds) == 1 and ds[0][1][0] == "assign":
                s = s.replace(nm, norm_src(ds[0][1][1]))
        return s
    atoms = [(op, sub_alias(l), sub_alias(r)) for op, l, r in atoms]
    leafs = [a for a in atoms if a[0] == "is" and a[2] == "None" and a[1] in ("%s.get_children()" % X, "%s.children" % X)]
    others = [a for a in atoms if a not in leafs]
    if algo == "T_HOO":
        ok = False
        why = "guards: %s" % atoms
        if len(others) == 1 and others[0][0] == "<=":
            op, l, r = others[0]
            okl = l in ("%s.depth" % X, "%s.get_depth()" % X)
            T = SX.Translator(positive=True)
            T.attr_cb = lambda e: T.sym(e.attr) if is_self_attr(e) else None
            try:
                got = T.tr(ast.parse(r, mode="eval").body)
                n, nu, rho = T.sym("rounds"), T.sym("nu"), T.sym("rho")
                ref = sp.ceiling((sp.log(n) / 2 - sp.log(1 / nu)) / sp.log(1 / rho))
                eq, wit = SX.equivalent(got, ref)
            except SX.Untranslatable as ex:
                eq, wit = None, str(ex)
            ok = okl and eq is True
            why = ("depth(%s) <= ceil((ln(n)/2 - ln(1/nu))/ln(1/rho))" % X) if ok else (
                "bound is %s, published bound is ceil((ln(n)/2 - ln(1/nu))/ln(1/rho))%s" % (r, " (differ at %s)" % wit if wit else "") if okl
                else "compared quantity '%s' is not the depth of the expanded cell" % l)
        ctx.ob("R06-PRED", ok, c.file, fc.qual, norm_src(call), why, call.lineno)
        return
    want_tau = "self.tau_h[%s.get_depth()]" % X if algo == "HCT" else "%s.get_tau_hi_value()" % X
    okp = len(others) == 1 and others[0] == ("<=", want_tau, "%s.get_visited_times()" % X)
    ctx.ob("R06-PRED", okp and len(leafs) == 1, c.file, fc.qual, norm_src(call),
           "expanded exactly when it is a leaf and pulls >= its threshold (threshold formula: C05 R05-TAU)" if okp and leafs else
           "guards are %s; published rule: leaf and T >= tau" % atoms, call.lineno)


def check_init(ctx, algo, ncls):
    model = ctx.model
    c = model.cls(ncls)
    init = model.own_method(ncls, "__init__")
    ctx.fn("%s.__init__" % ncls)
    want = {"visited_times": "0", "u_value": "np.inf", "b_value": "np.inf", "rewards": "[]"}
    got = {}
    for s in init.body:
        if isinstance(s, ast.Assign) and len(s.targets) == 1 and is_self_attr(s.targets[0]):
            got[s.targets[0].attr] = norm_src(s.value)
    for a, v in want.items():
        ctx.ob("R06-INIT", got.get(a) in (v, v.replace("np.", "math.")), c.file, "%s.__init__" % ncls, "self.%s = %s" % (a, v),
               "new cells start with %s = %s" % (a, got.get(a)), init.lineno)
    # the constructor passes the geometry on unchanged
    sup = [x for x in ast.walk(init) if isinstance(x, ast.Call) and isinstance(x.func, ast.Attribute) and x.func.attr == "__init__"]
    oks = len(sup) == 1 and [norm_src(a) for a in sup[0].args] == [a.arg for a in init.args.args][1:]
    ctx.ob("R06-INIT", oks, c.file, "%s.__init__" % ncls, "super().__init__(depth, index, parent, domain)", "arguments forwarded in order", init.lineno,
           nontrivial=False)
    a = model.cls(algo)
    ainit = model.own_method(algo, "__init__")
    ex = [x for x in ast.walk(ainit) if isinstance(x, ast.Call) and method_name(x) in ("expand", "make_children", "deepen")]
    ok = len(ex) == 1 and method_name(ex[0]) == "expand" and norm_src(get_arg(ex[0], 0, "parent")) == "self.partition.get_root()"
    ctx.ob("R06-INIT", ok, a.file, "%s.__init__" % algo, "root split exactly once at construction", "%s" % [norm_src(x) for x in ex], ainit.lineno)
    part = [x for x in ast.walk(ainit) if isinstance(x, ast.Call) and isinstance(x.func, ast.Name) and x.func.id == "partition"]
    okp = len(part) == 1 and {k.arg: norm_src(k.value) for k in part[0].keywords} == {"domain": "domain", "node": ncls}
    ctx.ob("R06-INIT", okp, a.file, "%s.__init__" % algo, "partition(domain=domain, node=%s)" % ncls, "%s" % [norm_src(x) for x in part], ainit.lineno)


def import_rules(ctx, algo):
    """R03-LEAF / R03-NEWLAYER at this algorithm's expansion sites, and R05-TAU, re-reported under C06."""
    tmp = Ctx(ctx.prop, ctx.tier, ctx.seed, ctx.model)
    c03.check_sites(tmp)
    for o in tmp.obligations:
        if o["rule"] in ("R03-LEAF", "R03-NEWLAYER") and (" %s." % algo) in (" " + o["where"].split(" ")[-1]):
            ctx.obligations.append(dict(o, rule=o["rule"].replace("R03", "R06")))
    for f in tmp.findings:
        if f.rule in ("R03-LEAF", "R03-NEWLAYER") and f.qual.startswith(algo + "."):
            ctx.add_finding(f.rule.replace("R03", "R06"), f.file, f.qual, f.construct, f.why, f.line)


def run(ctx):
    model = ctx.model
    eff = E.Effects(model)
    for algo, ncls in TREE_ALGOS.items():
        fa = model.cls(algo).file
        site = ctx.attempt("R06-SITE", fa, "%s.receive_reward" % algo, "expansion site", check_site, ctx, algo, eff)
        if site is not None:
            ctx.attempt("R06-PRED", fa, algo, "expansion predicate", check_pred, ctx, algo, site)
        ctx.attempt("R06-INIT", fa, ncls, "new cells", check_init, ctx, algo, ncls)
        import_rules(ctx, algo)
        if algo != "T_HOO":
            tmp = Ctx(ctx.prop, ctx.tier, ctx.seed, model)
            c05.check_tau(tmp, algo)
            c05.delta_sites(tmp, algo, rule="R06-TAU", only_tau=True)
            for o in tmp.obligations:
                ctx.obligations.append(dict(o, rule="R06-TAU"))
            for f in tmp.findings:
                ctx.add_finding("R06-TAU", f.file, f.qual, f.construct, f.why, f.line)
            ctx.functions |= tmp.functions
            ctx.shortfalls += tmp.shortfalls
    # the quantities the predicate compares are the empirical ones: pull count (and, for VHCT, the clipped empirical variance)
    from . import c04
    tmp = Ctx(ctx.prop, ctx.tier, ctx.seed, model)
    c04.check_node_classes(tmp, only=sorted(TREE_ALGOS.values()))
    for o in tmp.obligations:
        ctx.obligations.append(dict(o, rule="R06-STAT"))
    for f in tmp.findings:
        if f.construct.startswith(("self.visited_times", "self.variance", "variance floor", "recording")) or f.construct == "update_reward":
            ctx.add_finding("R06-STAT", f.file, f.qual, f.construct, f.why, f.line)
    ctx.functions |= tmp.functions
    ctx.shortfalls += tmp.shortfalls
    # a round adds one set of children under the pulled cell: the child list of a cell must hold exactly the cells created by splitting it (C03's one-step lemma: no aliasing between a child list and a layer, parent/child links consistent)
    from . import _partition
    _partition.feed(ctx, (), rename={"R03-ALIAS": "R06-TREE", "R03-LINK": "R06-TREE"})
    return dict(
        explanation=(
            "For T-HOO, HCT, VHCT: SITE - the code reachable from receive_reward contains exactly one expansion call, outside any loop, "
            "whose argument is the last cell of self.path (the cell pull handed out); pull and get_last_point add no cells (transitive "
            "effect summary). LEAF/NEWLAYER - the call-site obligations of C03 at these sites (leaf by traversal exit for T-HOO, by an "
            "explicit guard for HCT/VHCT). PRED - the guards dominating the expansion are exactly the published rule: T-HOO depth <= "
            "ceil((ln n/2 - ln(1/nu))/ln(1/rho)) (symbolic equivalence), HCT/VHCT leaf and pulls >= threshold, with the threshold "
            "formulas of C05 (re-checked here as R06-TAU). INIT - cell constructors start with zero pulls, infinite U and B, a fresh "
            "reward list; each algorithm splits the root exactly once at construction. Not decided: the numeric depth reached in a run."),
        assumptions=["positive parameters", "pull/receive_reward alternate"],
        technique="call-graph site census + dominating-guard comparison with the published predicates (sympy) + constructor scans",
    )
