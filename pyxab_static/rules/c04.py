"""C04 - every reward is credited exactly once to the cell(s) that produced the point."""
import ast

import sympy as sp

from .. import callsites as CS
from .. import credit as CR
from .. import effects as E
from .. import normalize as NZ
from .. import routes as RT
from .. import summary as SM
from .. import symx as SX
from ..model import get_arg, is_self_attr, method_name, strip_doc
from ..symx import safe_simplify
from ..report import AnalysisError, Ctx, norm_src

EVIDENCE_FIELDS = {"visited_times", "rewards", "mean_reward", "variance", "reward", "reward_tilde"}
# zero-credit paths of receive_reward that are part of the algorithm's documented state machine
FINISHED_GUARDS = {"StroquOOL": ("self.end", True), "GPO": ("self.phase > self.N", True)}
# frozen exceptions of R04-WRITE (one symbol each, with reason)
WRITE_EXCEPTIONS = {
    ("StroquOOL", "receive_reward", "self.curr_node.visited_times"):
        "StroquOOL counts evaluations in the algorithm, next to its update_reward call (paired in R04-ONCE)",
}
MIN_ALGOS = 14


def algos(model):
    return sorted(model.subclasses("Algorithm"), key=lambda c: c.name)


def is_credit(ev, reward_name):
    if ev[0] in ("node", "learner", "each", "each-varying", "while-credit"):
        if ev[0] in ("each", "each-varying"):
            if isinstance(ev[2], str):
                # a nested loop summarised as text: conservative - it credits if it mentions a credit event at all
                return any(k in ev[2] for k in ("'node'", "'learner'", "'mean'"))
            inner = ev[2] if ev[0] == "each" else [x for s in ev[2] for x in s]
            return any(is_credit(x if len(x) > 3 else (x[0], x[1], x[2], None), reward_name) for x in inner
                       if isinstance(x, (tuple, list)) and len(x) >= 3)
        return True
    if ev[0] == "mean":
        v = ev[2]
        if isinstance(v, str):
            import re
            return re.search(r"\b%s\b" % re.escape(reward_name), v) is not None
        return isinstance(v, ast.AST) and any(isinstance(n, ast.Name) and n.id == reward_name for n in ast.walk(v))
    return False


def check_once(ctx, cls, info):
    """R04-ONCE for one algorithm; returns the list of (kind, receiver) credit designators."""
    model = ctx.model
    fn, params, paths, fns = info
    reward = params[2] if len(params) > 2 else "reward"
    qual = "%s.receive_reward" % cls.name
    for f in fns:
        ctx.fn(f)
    designators = []
    for p in paths:
        credits = [e for e in p.events if is_credit(e, reward)]
        prim = [e for e in credits if e[0] in ("node", "learner", "each")]
        means = [e for e in credits if e[0] == "mean"]
        bad = [e for e in p.events if e[0] in ("each-varying", "while-credit") and is_credit(e, reward)]
        cond_txt = " and ".join("%s%s" % ("" if pol else "not ", c) for c, pol in p.conds[:3]) or "always"
        label = "credit events on the path [%s]" % cond_txt
        for e in bad:
            ctx.violation("R04-ONCE", cls.file, qual, norm_src(e[3]) if e[3] is not None else e[1],
                          "credit inside a loop whose iterations do not all credit the same way", fn.lineno)
        if not credits:
            g = FINISHED_GUARDS.get(cls.name)
            ok = g is not None and g in p.conds
            ctx.ob("R04-ONCE", ok, cls.file, qual, label,
                   "no credit on this path, which is the documented 'finished' state (%s)" % (g,) if ok else
                   "a reward arriving on this path is recorded nowhere (no update_reward / learner forward / score update)", fn.lineno)
            continue
        ok = (len(prim) == 1) or (len(prim) == 0 and len(means) == 1)
        ctx.ob("R04-ONCE", ok, cls.file, qual, label,
               "exactly one credit: %s" % describe(credits) if ok else "expected exactly one credit, found %d: %s" % (len(prim) or len(means), describe(credits)),
               fn.lineno)
        for e in prim:
            evs = [e] if e[0] != "each" else [x for x in e[2] if x[0] in ("node", "learner")]
            if e[0] == "each":
                ok1 = len(evs) == 1
                ctx.ob("R04-ONCE", ok1, cls.file, qual, "loop over %s" % e[1], "one update_reward per element" if ok1 else
                       "%d credits per element" % len(evs), fn.lineno)
                # the loop must run over the whole hand-out container
                it = e[1]
                cont = it[len("range(len("):-2] if it.startswith("range(len(") and it.endswith("))") else it
                if cont.startswith("enumerate(") and cont.endswith(")") and "," not in cont:
                    cont = cont[len("enumerate("):-1]       # for k, cell in enumerate(L): the cells are the elements of L
                whole = is_plain_container(cont) and all(x[1] in ("EACH(%s)" % it, "EACH(%s)" % cont, "%s[EACH(%s)]" % (cont, it)) for x in evs)
                ctx.ob("R04-ONCE", whole, cls.file, qual, "loop over %s covers every handed-out cell" % it,
                       "iterates the whole container %s" % cont if whole else
                       "the crediting loop iterates '%s' and credits %s: not every cell of the handed-out chain is credited" % (it, [x[1] for x in evs]),
                       fn.lineno)
            for x in evs:
                if x[0] == "node":
                    ctx.ob("R04-ONCE", x[2] == reward, cls.file, qual, "%s.update_reward(%s)" % (x[1], x[2]),
                           "argument is the reward parameter itself" if x[2] == reward else
                           "the recorded value '%s' is not the reward that was received" % x[2], fn.lineno)
                elif x[0] == "learner":
                    okl = reward in x[2][-1:] or ("reward=%s" % reward) in x[2]
                    ctx.ob("R04-ONCE", okl, cls.file, qual, "%s.receive_reward(%s)" % (x[1], ", ".join(x[2])),
                           "reward forwarded unchanged" if okl else "forwarded value is not the reward parameter", fn.lineno)
                d = (e[0], e[1] if e[0] != "each" else e[1], x[1])
                if d not in designators:
                    designators.append(d)
        for e in means:
            d = ("mean", e[1], e[1])
            if d not in designators:
                designators.append(d)
    # no other update_reward / learner.receive_reward call anywhere else in the class
    closure = {f.split(".")[1] for f in fns}
    for m, f in cls.methods.items():
        if m in closure:
            continue
        for n in ast.walk(f):
            if isinstance(n, ast.Call) and isinstance(n.func, ast.Attribute) and n.func.attr == "update_reward":
                ctx.violation("R04-ONCE", cls.file, "%s.%s" % (cls.name, m), norm_src(n),
                              "update_reward is called outside the receive_reward path", n.lineno)
            if isinstance(n, ast.Call) and isinstance(n.func, ast.Attribute) and n.func.attr == "receive_reward" and \
                    CR.is_learner_expr(n.func.value):
                ctx.violation("R04-ONCE", cls.file, "%s.%s" % (cls.name, m), norm_src(n),
                              "a learner is given a reward outside the receive_reward path", n.lineno)
    return designators, reward


def is_plain_container(src):
    try:
        e = ast.parse(src, mode="eval").body
    except SyntaxError:
        return False
    return is_self_attr(e) or isinstance(e, ast.Name)


def describe(evs):
    out = []
    for e in evs:
        if e[0] == "each":
            out.append("for each of %s: %s" % (e[1], describe(e[2])))
        elif e[0] == "mean":
            out.append("running mean %s" % e[1])
        else:
            out.append("%s %s" % (e[0], e[1]))
    return "; ".join(out)


# ---------------------------------------------------------------------------
# R04-PAIR


def expand_aliases(fc, e, at):
    """Replace local names whose single reaching definition is an attribute/getter chain by that chain."""
    class S(ast.NodeTransformer):
        def visit_Name(self, n):
            if isinstance(n.ctx, ast.Load):
                ds, entry = fc.reaching(n.id, at)
                if not entry and len(ds) == 1 and ds[0][1][0] == "assign":
                    v = ds[0][1][1]
                    if isinstance(v, (ast.Attribute, ast.Call)) and norm_src(v).startswith("self.") and \
                            not fc.stores_between(ds[0][0], at, CS.deps(v) - {"self"}, ()):
                        return ast.parse(norm_src(v), mode="eval").body
                    # a local alias of an element / layer expression (layer = node_list[h]): the same object as long as
                    # nothing the expression reads is stored, and the tree does not grow, on any path from the definition
                    if isinstance(v, ast.Subscript) and not isinstance(v.slice, ast.Slice) and \
                            all(isinstance(x, (ast.Name, ast.Subscript, ast.Constant, ast.Load, ast.Attribute, ast.UnaryOp, ast.USub, ast.BinOp,
                                               ast.Add, ast.Sub)) for x in ast.walk(v)) and \
                            not fc.stores_between(ds[0][0], at, CS.deps(v), ()) and \
                            (NZ.stable_index(v.slice) or not fc.growth_between(ds[0][0], at)):
                        return self.visit(ast.parse(norm_src(v), mode="eval").body)
            return n
    return S().visit(ast.parse(ast.unparse(e), mode="eval").body)


def pair_attr_receiver(ctx, cls, fc, recv_src, rets):
    """Credit receiver mentions instance attributes that pull sets: substitute, at each value return of pull,
    the values pull has just stored and compare with the cell whose representative is returned."""
    model = ctx.model
    recv = ast.parse(recv_src, mode="eval").body
    attrs = sorted({n.attr for n in ast.walk(recv) if is_self_attr(n) and n.attr != "partition"})
    n_ok = 0
    for r in rets:
        at = fc.cfg.node_of(r)
        val = r.value
        if isinstance(val, ast.Call) and isinstance(val.func, ast.Attribute) and val.func.attr in ("get_cpoint", "sample_uniform"):
            R = expand_aliases(fc, val.func.value, at)
            # a cell is handed out: the finished flag (under which receive_reward credits nothing) must not be set on the way
            g = FINISHED_GUARDS.get(cls.name)
            want = g[0].replace("not ", "").strip() if g else None
            if want and want.startswith("self.") and want[5:].isidentifier():
                ds_f, _entry = fc.reaching(want, at)
                bad_f = [n for n, rr in ds_f if not (rr[0] == "assign" and isinstance(rr[1], ast.Constant) and rr[1].value is (not g[1]))]
                ctx.ob("R04-PAIR", not bad_f, cls.file, fc.qual, "%s  [finished flag]" % norm_src(r),
                       "the finished flag is not set on the way to this hand-out" if not bad_f else
                       "%s is set (line %s) on a path that still hands out a cell: receive_reward will drop the reward of that evaluation" % (
                           want, bad_f[0].line), r.lineno)
        elif isinstance(val, ast.Call) and norm_src(val) == "self.get_last_point()":
            g = FINISHED_GUARDS.get(cls.name)
            flag = None
            if g:
                # the finished flag must be set before this return so that the next receive_reward credits nothing
                want = g[0].replace("not ", "").strip()
                for n, rr in fc.defs_of(want):
                    if rr[0] == "assign" and isinstance(rr[1], ast.Constant) and rr[1].value is g[1]:
                        if fc.cfg.dominates(n, at):
                            flag = n
            ctx.ob("R04-PAIR", flag is not None, cls.file, fc.qual, norm_src(r),
                   "returns the recommendation after setting the finished flag (line %s): the next reward credits nothing" % (flag.line if flag else "?")
                   if flag is not None else "returns a recommendation without entering the finished state: the next reward would be credited to a stale cell",
                   r.lineno)
            continue
        else:
            ctx.violation("R04-PAIR", cls.file, fc.qual, norm_src(r), "returned value is not the representative of a cell", r.lineno)
            continue
        if norm_src(R) == recv_src:
            n_ok += 1
            ctx.ob("R04-PAIR", True, cls.file, fc.qual, norm_src(r),
                   "returns the representative of %s itself, the cell receive_reward credits" % recv_src, r.lineno)
            continue
        sub = {}
        problem = None
        for a in attrs:
            ds, entry = fc.reaching("self." + a, at)
            if norm_src(R) == recv_src and not ds:
                continue
            if entry or not ds:
                if norm_src(R) == recv_src:
                    continue
                problem = "self.%s is not (always) set before this return" % a
                break
            vals = set()
            for n, rr in ds:
                if rr[0] != "assign":
                    problem = "self.%s is set by something other than a plain assignment" % a
                    break
                v = expand_aliases(fc, rr[1], n)
                if fc.stores_between(n, at, CS.deps(v) - {"self"}, [k for k, _ in ds if k is not n]):
                    problem = "a component of '%s' changes between 'self.%s = ...' (line %s) and the return" % (norm_src(v), a, n.line)
                    break
                vals.add(norm_src(v))
            if problem:
                break
            if len(vals) != 1:
                problem = "self.%s may hold different cells at this return: %s" % (a, sorted(vals))
                break
            sub["self." + a] = vals.pop()
        if problem:
            ctx.violation("R04-PAIR", cls.file, fc.qual, norm_src(r), problem, r.lineno)
            continue
        credited = substitute_attrs(recv, sub)
        ok = norm_src(credited) == norm_src(R)
        if not ok:
            # e.g. the credited designator uses an index and the returned cell is held by reference
            cr2 = CS_unexpand(fc, credited, at)
            ok, _how = CS.cells_equal(fc, cr2, val.func.value, at)
        n_ok += ok
        ctx.ob("R04-PAIR", ok, cls.file, fc.qual, norm_src(r),
               "receive_reward credits %s = %s, the cell whose representative is returned" % (recv_src, norm_src(credited)) if ok else
               "receive_reward will credit %s = %s, but the point returned here belongs to %s" % (recv_src, norm_src(credited), norm_src(R)),
               r.lineno)
    return n_ok


def CS_unexpand(fc, e, at):
    """Replace `self.partition.get_node_list()` by the local alias used in this function, if there is exactly one."""
    aliases = [n for n, in [(k,) for k in set(x.id for x in ast.walk(fc.fn) if isinstance(x, ast.Name))]
               if any(r[0] == "assign" and norm_src(r[1]) in CS.NODELIST_CALLS for _, r in fc.defs_of(n))]
    if len(aliases) != 1:
        return e

    class S(ast.NodeTransformer):
        def visit_Call(self, n):
            if norm_src(n) in CS.NODELIST_CALLS:
                return ast.Name(id=aliases[0], ctx=ast.Load())
            return self.generic_visit(n)
    return S().visit(ast.parse(ast.unparse(e), mode="eval").body)


def substitute_attrs(e, sub):
    class S(ast.NodeTransformer):
        def visit_Attribute(self, n):
            s = norm_src(n)
            if s in sub:
                return ast.parse(sub[s], mode="eval").body
            return self.generic_visit(n)
    return S().visit(ast.parse(ast.unparse(e), mode="eval").body)


def _ancestors(model, node):
    out = []
    p_ = model.up(node)
    while p_ is not None and not isinstance(p_, ast.FunctionDef):
        out.append(p_)
        p_ = model.up(p_)
    return out


def lockstep_list(fc, list_src, cursor):
    """In fc.fn the list `list_src` (Name or self.attr) is [cursor0] followed by one append per cursor move,
    each appended element being the new cursor, which is a child of the previous one.
    Returns (ok, why)."""
    inits = fc.defs_of(list_src)
    if len(inits) != 1 or inits[0][1][0] != "assign" or not isinstance(inits[0][1][1], ast.List) or len(inits[0][1][1].elts) != 1:
        return False, "%s is not initialised as a one-element list" % list_src
    init_node = inits[0][0]
    first = norm_src(inits[0][1][1].elts[0])
    if first != cursor:
        # ... or with the very expression the cursor is initialised with, when that expression always designates the same
        # object (the partition's root): [root] and cursor = root written separately
        first_ast = inits[0][1][1].elts[0]

        def designator(e):
            if isinstance(e, (ast.Name, ast.Constant)):
                return True
            if isinstance(e, ast.Attribute):
                return designator(e.value)
            if isinstance(e, ast.Subscript):
                return designator(e.value) and designator(e.slice)
            if isinstance(e, ast.Call) and isinstance(e.func, ast.Attribute) and e.func.attr in ("get_root", "get_node_list") and not e.args and not e.keywords:
                return designator(e.func.value)
            return False
        first_is_start = designator(first_ast)
        # the cursor's only definition outside the stepping loop must be that expression
        outside = [(n, r) for n, r in fc.defs_of(cursor) if not (r[0] == "assign" and CS._is_child_step(r[1], cursor)) and
                   not any(isinstance(p_, (ast.For, ast.While)) for p_ in _ancestors(fc.model, n.ast))]
        ok_start = first_is_start and len(outside) == 1 and outside[0][1][0] == "assign" and norm_src(outside[0][1][1]) == first
        if ok_start:
            # nothing the designator reads is rebound between the two initialisations (either order)
            a_, b_ = sorted([init_node, outside[0][0]], key=lambda n_: n_.id)
            rd = {x.id for x in ast.walk(first_ast) if isinstance(x, ast.Name)}
            ok_start = not fc.stores_between(a_, b_, rd, ()) and not fc.growth_between(a_, b_, ())
        if not ok_start:
            return False, "%s starts with %s, not with the cursor %s" % (list_src, first, cursor)
    muts = [n for n in fc.cfg.nodes if (list_src + "[]") in E.stored_locs(n) and n is not init_node]
    moves = [(n, r) for n, r in fc.defs_of(cursor) if fc.cfg.paths_avoiding(init_node, n, ())]
    if first != cursor:
        # the cursor's own initialisation (the same root expression, written next to the list's) is not a move
        moves = [(n, r) for n, r in moves if not (r[0] == "assign" and norm_src(r[1]) == first)]
    if len(muts) != len(moves):
        return False, "%s is extended %d time(s) but the cursor moves %d time(s)" % (list_src, len(muts), len(moves))
    for n, r in moves:
        if r[0] != "assign":
            return False, "cursor moved by a non-assignment"
        twin = [m for m in muts if CS.together(fc, n, m)]
        if len(twin) != 1:
            return False, "cursor move at line %s is not accompanied by an append to %s" % (n.line, list_src)
        calls = [c for c in ast.walk(twin[0].ast) if isinstance(c, ast.Call) and method_name(c) == "append"]
        if len(calls) != 1 or len(calls[0].args) != 1:
            return False, "%s is not extended by a single append" % list_src
        arg = norm_src(calls[0].args[0])
        if arg not in (cursor, norm_src(r[1])):
            return False, "append(%s) does not append the new cursor" % arg
        if twin[0].id < n.id and arg == cursor:
            return False, "append happens before the cursor moves"
        # the new cursor is a child of the old one
        if not CS.is_child_of(fc, r[1], cursor, n):
            return False, "the new cursor '%s' is not taken from the old cursor's children" % norm_src(r[1])
    return True, "%s = [start] + one append per step to a child" % list_src


def pair_path(ctx, cls, fcs, recv_kind, attr):
    """T-HOO / HCT / VHCT: pull stores (cursor, self.<attr>) from a traversal that returns (exit node, lock-step path)."""
    model = ctx.model
    pull = model.lookup(cls.name, "pull")[1]
    fc = fcs(cls.name, pull)
    rets = [r for r in ast.walk(pull) if isinstance(r, ast.Return) and r.value is not None]
    ok_all = bool(rets)
    for r in rets:
        at = fc.cfg.node_of(r)
        val = r.value
        if not (isinstance(val, ast.Call) and isinstance(val.func, ast.Attribute) and val.func.attr == "get_cpoint"):
            ctx.violation("R04-PAIR", cls.file, fc.qual, norm_src(r), "returned value is not a cell representative", r.lineno)
            ok_all = False
            continue
        R = norm_src(val.func.value)
        ds, entry = fc.reaching("self." + attr, at)
        good = False
        why = "self.%s is not set from a traversal before the return" % attr
        if not entry and len(ds) == 1 and ds[0][1][0] == "unpack" and isinstance(ds[0][1][1], ast.Call) and is_self_attr(ds[0][1][1].func):
            tgt = ds[0][1][2]
            names = [norm_src(e) for e in tgt.elts]
            k_path = names.index("self." + attr)
            k_cur = names.index(R) if R in names else None
            trav = model.lookup(cls.name, ds[0][1][1].func.attr)[1]
            if k_cur is None:
                why = "the returned cell '%s' is not the traversal's result" % R
            elif trav is None:
                why = "traversal not found"
            else:
                ft = fcs(cls.name, trav)
                ctx.fn(ft.qual)
                good = True
                for rn in ft.cfg.returns:
                    v = rn.ast.value
                    if not isinstance(v, ast.Tuple) or len(v.elts) <= max(k_path, k_cur):
                        good, why = False, "traversal does not return (cell, path)"
                        break
                    cur, pth = norm_src(v.elts[k_cur]), norm_src(v.elts[k_path])
                    ok2, why2 = lockstep_list(ft, pth, cur)
                    if not ok2:
                        good, why = False, why2
                        break
                    why = "path = root .. returned cell, each step to a child (%s)" % why2
                if fc.stores_between(ds[0][0], at, {R, "self." + attr}, ()):
                    good, why = False, "the cell or the path changes between the traversal and the return"
        ok_all &= good
        ctx.ob("R04-PAIR", good, cls.file, fc.qual, norm_src(r),
               ("receive_reward credits %s of self.%s, and %s" % ("every element" if recv_kind == "each" else "the last element", attr, why)) if good
               else "cannot match the credited path with the returned cell: %s" % why, r.lineno)
    return ok_all


def handout_attrs_only_set_by_pull(ctx, cls, designators):
    """The instance attributes a credit designator reads (curr_node, path, best_arm, ...) carry the hand-out from
    pull to receive_reward: nothing but pull (and the constructor) may write them - a query or any other method
    writing them would re-direct the next reward."""
    model = ctx.model
    attrs = set()
    for kind, outer, recv in designators:
        if kind == "learner" or (kind == "mean" and cls.name != "Zooming"):
            continue       # routers: the schedule state is covered by the routing rules
        for src in (outer, recv):
            try:
                e = ast.parse(src.replace("EACH(", "(").replace("range(len(", "((") if "EACH" in src else src, mode="eval").body
            except SyntaxError:
                continue
            for n in ast.walk(e):
                if is_self_attr(n) and n.attr not in ("partition",):
                    attrs.add(n.attr)
    if cls.name == "Zooming":
        attrs -= {"average_rewards", "pulled_times", "active_points"}
    if not attrs:
        return
    pull = model.lookup(cls.name, "pull")[1]
    closure, todo = set(), [pull]
    while todo:
        f = todo.pop()
        if f.name in closure:
            continue
        closure.add(f.name)
        for call in ast.walk(f):
            if isinstance(call, ast.Call) and isinstance(call.func, ast.Attribute) and isinstance(call.func.value, ast.Name) and call.func.value.id == "self":
                o, callee = model.lookup(cls.name, call.func.attr)
                if callee is not None:
                    todo.append(callee)
    n = 0
    for fn in cls.methods.values():
        for s in ast.walk(fn):
            hit = None
            tg = s.targets if isinstance(s, ast.Assign) else ([s.target] if isinstance(s, (ast.AugAssign, ast.AnnAssign)) else [])
            for t in tg:
                for tt in (t.elts if isinstance(t, (ast.Tuple, ast.List)) else [t]):
                    base = tt
                    while isinstance(base, ast.Subscript):
                        base = base.value
                    if is_self_attr(base) and base.attr in attrs:
                        hit = base.attr
            if isinstance(s, ast.Call) and isinstance(s.func, ast.Attribute) and is_self_attr(s.func.value) and s.func.value.attr in attrs \
                    and s.func.attr in E.MUTATING_CONTAINER_METHODS:
                hit = s.func.value.attr
            if hit is None:
                continue
            n += 1
            ok = fn.name in closure or fn.name == "__init__"
            ctx.ob("R04-PAIR", ok, cls.file, "%s.%s" % (cls.name, fn.name), norm_src(s)[:90],
                   "hand-out state self.%s written by pull (or the constructor)" % hit if ok else
                   "self.%s tells receive_reward which cell/arm to credit; it is overwritten in %s, so a call of %s between pull and "
                   "receive_reward re-directs the reward" % (hit, fn.name, fn.name), s.lineno, nontrivial=not ok)
    return n


def check_pair(ctx, cls, designators, fcs):
    model = ctx.model
    handout_attrs_only_set_by_pull(ctx, cls, designators)
    pull = model.lookup(cls.name, "pull")[1]
    fc = fcs(cls.name, pull)
    ctx.fn(fc.qual)
    rets = [r for r in ast.walk(pull) if isinstance(r, ast.Return) and r.value is not None]
    for kind, outer, recv in designators:
        if kind == "learner" or kind == "mean" and cls.name in ("POO", "GPO"):
            continue       # routers: R09-ROUTE / R10-ROUTE (checked in C09 / C10 and below for agreement)
        if kind == "each" and outer == "self.path" or recv == "self.path[-1]":
            pair_path(ctx, cls, fcs, kind, "path")
            continue
        if kind == "each" and "update_list" in outer:
            # VROOM: update_list rebuilt in pull in lock-step with the cursor whose cell is sampled
            ok, why = lockstep_list(fc, "self.update_list", "node")
            for r in rets:
                v = r.value
                good = ok and isinstance(v, ast.Call) and norm_src(v.func) == "node.sample_uniform"
                ctx.ob("R04-PAIR", good, cls.file, fc.qual, norm_src(r),
                       "the point is sampled from the last cell of self.update_list, the chain credited by receive_reward (%s)" % why if good
                       else "credited chain and sampled cell do not match: %s" % why, r.lineno)
            continue
        if kind == "mean":
            # Zooming: score of the arm whose point is returned
            key = recv[recv.index("[") + 1:-1]
            for r in rets:
                good = norm_src(r.value) == "%s.get_point()" % key
                ctx.ob("R04-PAIR", good, cls.file, fc.qual, norm_src(r),
                       "returns the point of %s, the arm whose statistics receive_reward updates" % key if good else
                       "receive_reward updates the statistics of %s but the returned point is %s" % (key, norm_src(r.value)), r.lineno)
            continue
        pair_attr_receiver(ctx, cls, fc, recv, rets)


# ---------------------------------------------------------------------------
# R04-NODE


def node_expectations(T):
    """Expected update_reward summaries (sympy over pre-state symbols) per cell class."""
    r = T.sym("reward")
    Tn = T.sym("visited_times")
    R = T.sym("rewards")
    R1 = SX.APPEND(R, r)
    mean = SX.SUM(R1) / (Tn + 1)
    return {
        "HOO_node": {"visited_times": Tn + 1, "rewards": R1, "mean_reward": mean},
        "HCT_node": {"visited_times": Tn + 1, "rewards": R1, "mean_reward": mean},
        "StoSOO_node": {"visited_times": Tn + 1, "rewards": R1, "mean_reward": mean},
        "VHCT_node": {"visited_times": Tn + 1, "rewards": R1, "mean_reward": mean,
                      "variance": sp.Max(SX.VAR(R1), T.sym("minvariance"))},
        "DOO_node": {"reward": r},
        "SOO_node": {"reward": r},
        "SequOOL_node": {"rewards": R1},
        "StroquOOL_node": {"rewards": R1},
        "VROOM_node": {"reward": SX.APPEND(T.sym("reward_list"), r)},
    }


def canon_mean(e, T, invariant=True):
    """LEN(APPEND(R, r)) == visited_times + 1 (list length and counter move together); SUM(APPEND(R, r)) = SUM(R) + r;
    and, by the inductive hypothesis on the pre-state, mean_reward == SUM(R)/visited_times - so an incremental
    (running-mean) update is recognised as the same value as the batch mean."""
    Tn = T.sym("visited_times")
    R = T.sym("rewards")
    r = T.sym("reward")
    e = sp.sympify(e).subs(SX.LEN(SX.APPEND(R, r)), Tn + 1).subs(SX.LEN(R), Tn)
    e = e.replace(lambda x: getattr(x, "func", None) == SX.SUM and len(x.args) == 1 and getattr(x.args[0], "func", None) == SX.APPEND,
                  lambda x: SX.SUM(x.args[0].args[0]) + x.args[0].args[1])
    if invariant:
        e = e.subs(T.sym("mean_reward"), SX.SUM(R) / Tn)
    return e


def base_case(e, T):
    """The same expression on an empty history (no rewards yet, counter 0, stored mean 0)."""
    Tn = T.sym("visited_times")
    R = T.sym("rewards")
    return canon_mean(e, T, invariant=False).subs(SX.SUM(R), 0).subs(Tn, 0).subs(T.sym("mean_reward"), 0)


def check_stored_fields(ctx, only=None):
    """Every attribute a cell class reads through `self.<a>` in its own methods is a STORED field - assigned by a constructor of
    the class chain - and not a property or method computing it from other fields: a derived count/mean changes when the field
    it is derived from is reset (StroquOOL's remove_reward), although no reward was recorded or withdrawn for it."""
    model = ctx.model
    for c in sorted(model.subclasses("P_node"), key=lambda c: c.name):
        if only is not None and c.name not in only:
            continue
        chain = model.mro(c.name)
        stored = set()
        for k in chain:
            init = k.methods.get("__init__")
            if init is not None:
                for x in ast.walk(init):
                    if is_self_attr(x) and isinstance(x.ctx, ast.Store):
                        stored.add(x.attr)
        props = {}
        for k in chain:
            for name, f in k.methods.items():
                if any(isinstance(d, ast.Name) and d.id == "property" for d in f.decorator_list) or \
                        any(isinstance(d, ast.Attribute) and d.attr in ("setter", "getter") for d in f.decorator_list):
                    props.setdefault(name, (k, f))
        for name, (k, f) in sorted(props.items()):
            reads = any(is_self_attr(x, name) for k2 in chain for f2 in k2.methods.values() for x in ast.walk(f2))
            if reads or name in stored:
                ctx.violation("R04-NODE", k.file, "%s.%s" % (k.name, name), "@property %s" % name,
                              "the evidence field '%s' of %s is computed by a property instead of being stored: it changes whenever the fields "
                              "it is derived from change, not only when a reward is recorded" % (name, c.name), f.lineno)
        ctx.ob("R04-NODE", not [n2 for n2 in props if any(is_self_attr(x, n2) for k2 in chain for f2 in k2.methods.values() for x in ast.walk(f2))],
               c.file, c.name, "evidence fields are stored fields", "%d constructor-assigned field(s), %d propert%s" % (
                   len(stored), len(props), "y" if len(props) == 1 else "ies"), c.node.lineno, nontrivial=False, finding=False)


def check_node_classes(ctx, only=None):
    model = ctx.model
    check_stored_fields(ctx, only)
    n = 0
    for c in sorted(model.subclasses("P_node"), key=lambda c: c.name):
        if "update_reward" not in c.methods or (only is not None and c.name not in only):
            continue
        n += 1
        fn = c.methods["update_reward"]
        qual = "%s.update_reward" % c.name
        ctx.fn(qual)
        S = SM.Summarizer(model, c.name)
        T = S.T
        attr_syms = {}
        if c.name == "VROOM_node":
            S.attr_syms = {"reward": T.sym("reward_list")}
        try:
            ps = S.run(fn, params={"reward": T.sym("reward")})
        except (SM.HasLoop, SX.Untranslatable) as ex:
            ctx.violation("R04-NODE", c.file, qual, "update_reward", "cannot summarise the recording step: %s" % ex, fn.lineno)
            continue
        exp = node_expectations(T).get(c.name)
        if exp is None:
            ctx.violation("R04-NODE", c.file, qual, "update_reward", "cell class without a reference recording rule", fn.lineno)
            continue
        ok1 = len(ps) == 1 and not ps[0].conds
        ctx.ob("R04-NODE", ok1, c.file, qual, "recording is unconditional",
               "single path" if ok1 else "the reward is recorded only under a condition: %s" % [p.conds for p in ps][:3], fn.lineno)
        for p in ps:
            if p.raises:
                continue
            for a, want in exp.items():
                got = p.stores.get(a)
                if got is None:
                    ctx.violation("R04-NODE", c.file, qual, "self.%s" % a,
                                  "not updated on the path %s" % (p.conds or "(always)"), fn.lineno)
                    continue
                eq, wit = SX.equivalent(canon_mean(got, T), canon_mean(want, T))
                if eq is True and a == "mean_reward" and got.has(T.sym("mean_reward")):
                    # incremental form: the induction also needs its base case (first reward of a cell)
                    try:
                        eq, wit = SX.equivalent(base_case(got, T), base_case(want, T))
                    except Exception:
                        eq, wit = None, None
                ctx.ob("R04-NODE", eq is True, c.file, qual, "self.%s after update_reward" % a,
                       "== %s" % want if eq is True else "is %s, expected %s%s" % (got, want, " (they differ e.g. at %s)" % wit if wit else ""),
                       fn.lineno)
            extra = sorted(set(p.stores) - set(exp))
            extra = [a for a in extra if a in EVIDENCE_FIELDS]
            ctx.ob("R04-NODE", not extra, c.file, qual, "no other evidence field is touched", "also writes %s" % extra if extra else "only %s" % sorted(exp),
                   fn.lineno)
            ctx.ob("R04-NODE", not p.calls, c.file, qual, "no other effect", "other calls/stores: %s" % p.calls if p.calls else "none", fn.lineno,
                   nontrivial=False)
        if c.name == "VHCT_node":
            init = c.methods["__init__"]
            mv = [s for s in ast.walk(init) if isinstance(s, ast.Assign) and is_self_attr(s.targets[0], "minvariance")]
            ok = len(mv) == 1 and isinstance(mv[0].value, ast.Constant) and abs(float(mv[0].value.value) - 1e-3) < 1e-15
            ctx.ob("R04-NODE", ok, c.file, "VHCT_node.__init__", "variance floor", "minvariance = 1e-3" if ok else
                   "the variance floor is not the documented 1e-3", init.lineno)
    ctx.count("R04-NODE cell classes with update_reward", n, 9 if only is None else len(only))


# ---------------------------------------------------------------------------
# R04-WRITE


def check_write(ctx):
    model = ctx.model
    node_names = {c.name for c in model.subclasses("P_node")} | {"P_node"}
    n = 0
    for c in model.classes.values():
        if not c.file.startswith("PyXAB/algos/"):
            continue
        is_node = c.name in node_names
        for fn in c.methods.values():
            qual = "%s.%s" % (c.name, fn.name)
            for s in ast.walk(fn):
                tg = []
                if isinstance(s, ast.Assign):
                    tg = s.targets
                elif isinstance(s, (ast.AugAssign, ast.AnnAssign)):
                    tg = [s.target]
                for t in tg:
                    for tt in (t.elts if isinstance(t, (ast.Tuple, ast.List)) else [t]):
                        base = tt
                        while isinstance(base, ast.Subscript):
                            base = base.value
                        if isinstance(base, ast.Attribute) and base.attr in EVIDENCE_FIELDS:
                            n += 1
                            own = isinstance(base.value, ast.Name) and base.value.id == "self"
                            if is_node and own:
                                okm = fn.name in ("__init__", "update_reward", "compute_u_value", "compute_b_value", "compute_mean_reward",
                                                  "remove_reward", "update_reward_tilde")
                                ctx.ob("R04-WRITE", okm, c.file, qual, norm_src(s),
                                       "evidence field written by its own cell class in a recording/recomputing method" if okm else
                                       "evidence field '%s' is written in %s, which is not a recording method" % (base.attr, fn.name), s.lineno,
                                       nontrivial=False)
                            elif not is_node and own and base.attr in ("reward",):
                                pass       # an algorithm's own attribute that happens to share the name
                            else:
                                key = (c.name, fn.name, norm_src(base))
                                exc = WRITE_EXCEPTIONS.get(key)
                                ctx.ob("R04-WRITE", exc is not None, c.file, qual, norm_src(s),
                                       "frozen exception: %s" % exc if exc else
                                       "evidence field '%s' of a cell is written from outside the cell's own recording methods" % base.attr, s.lineno)
            for call in ast.walk(fn):
                if isinstance(call, ast.Call) and isinstance(call.func, ast.Attribute) and call.func.attr == "remove_reward":
                    n += 1
                    ok, why = remove_reward_site_ok(model, c, fn, call)
                    ctx.ob("R04-WRITE", ok, c.file, qual, norm_src(call), why, call.lineno)
    ctx.count("R04-WRITE evidence-field stores examined", n, 20)
    check_arm_statistics(ctx)


ARM_STATS = ("average_rewards", "pulled_times")


def check_arm_statistics(ctx):
    """Zooming keeps its evidence in two maps keyed by arm.  An arm's statistics may be written only by the
    crediting step (key = the pulled arm) or, with zeros, for an arm object created in the same call."""
    model = ctx.model
    if "Zooming" not in model.classes:
        return
    c = model.cls("Zooming")
    n = 0
    for fn in c.methods.values():
        qual = "Zooming.%s" % fn.name
        for s in ast.walk(fn):
            tg = s.targets if isinstance(s, ast.Assign) else ([s.target] if isinstance(s, (ast.AugAssign, ast.AnnAssign)) else [])
            for t in tg:
                if isinstance(t, ast.Subscript) and is_self_attr(t.value) and t.value.attr in ARM_STATS:
                    n += 1
                    key = norm_src(t.slice)
                    if fn.name == "receive_reward":
                        ok = key == "self.best_arm"
                        why = "statistics of the pulled arm" if ok else "statistics of '%s' are changed while crediting %s" % (key, "self.best_arm")
                    else:
                        zero = isinstance(s, ast.Assign) and isinstance(s.value, ast.Constant) and s.value.value == 0
                        defs = [a for a in ast.walk(fn) if isinstance(a, ast.Assign) and any(norm_src(x) == key for x in a.targets)]
                        fresh = isinstance(t.slice, ast.Name) and len(defs) == 1 and isinstance(defs[0].value, ast.Call) and \
                            norm_src(defs[0].value.func) == "point" and key not in [a.arg for a in fn.args.args]
                        ok = zero and fresh
                        why = ("zero statistics for an arm created in this very call" if ok else
                               "the statistics of '%s' are %s outside the crediting step: an existing arm's history can be overwritten"
                               % (key, "reset to 0" if zero else "written"))
                    ctx.ob("R04-WRITE", ok, c.file, qual, norm_src(s)[:90], why, s.lineno)
            if isinstance(s, ast.Call) and isinstance(s.func, ast.Attribute) and is_self_attr(s.func.value) and s.func.value.attr in ARM_STATS \
                    and s.func.attr in ("pop", "clear", "update", "setdefault", "popitem"):
                ctx.violation("R04-WRITE", c.file, qual, norm_src(s), "arm statistics changed through %s()" % s.func.attr, s.lineno)
        for s in ast.walk(fn):
            tg = s.targets if isinstance(s, ast.Assign) else ([s.target] if isinstance(s, (ast.AugAssign, ast.AnnAssign)) else [])
            if any(is_self_attr(t) and t.attr in ARM_STATS for t in tg) and fn.name != "__init__":
                ctx.violation("R04-WRITE", c.file, qual, norm_src(s), "an arm-statistics map is replaced", s.lineno)
    ctx.count("R04-WRITE arm-statistics stores in Zooming", n, 4)


def remove_reward_site_ok(model, c, fn, call):
    """The documented exception: StroquOOL clears the reward list of its final candidates once, when the
    candidate list is built (inside `if not self.candidate:`), for every candidate."""
    if (c.name, fn.name) != ("StroquOOL", "pull"):
        return False, "remove_reward called outside StroquOOL's candidate construction"
    loop = model.up(model.up(call))
    if isinstance(model.up(call), ast.Expr):
        loop = model.up(model.up(call))
    if not (isinstance(loop, ast.For) and norm_src(loop.iter) == "self.candidate" and isinstance(loop.target, ast.Name)
            and norm_src(call.func.value) == loop.target.id):
        return False, "remove_reward is not applied to each element of self.candidate in one loop"
    guard = model.up(loop)
    if not (isinstance(guard, ast.If) and norm_src(guard.test) == "not self.candidate" and loop in guard.body):
        return False, "the clearing loop is not inside the one-off candidate construction (if not self.candidate)"
    # the loop follows the construction of the candidate list in the same block
    idx = guard.body.index(loop)
    built = any(isinstance(s, ast.For) and any(isinstance(x, ast.Call) and norm_src(x.func) == "self.candidate.append" for x in ast.walk(s))
                for s in guard.body[:idx])
    if not built:
        return False, "candidates are cleared before the candidate list is built"
    # the exception covers the reward LIST only: the evaluation count of the cell must survive it - what the count getter reads
    # (directly or through own methods / inlined properties) is disjoint from what remove_reward writes
    ncls = model.node_class_of_algo(c.name)
    if ncls in model.classes:
        owner_r, rr = model.lookup(ncls, "remove_reward")
        owner_g, gv = model.lookup(ncls, "get_visited_times")
        if rr is not None and gv is not None:
            def attrs(fn2, store, seen=None):
                seen = seen or set()
                if id(fn2) in seen:
                    return set()
                seen.add(id(fn2))
                out = set()
                for x in ast.walk(fn2):
                    if is_self_attr(x) and isinstance(x.ctx, ast.Store if store else ast.Load):
                        o2, f3 = model.lookup(ncls, x.attr)
                        if f3 is not None and not store:
                            out |= attrs(f3, store, seen)
                        else:
                            out.add(x.attr)
                    if isinstance(x, ast.Call) and isinstance(x.func, ast.Attribute) and is_self_attr(x.func):
                        o2, f3 = model.lookup(ncls, x.func.attr)
                        if f3 is not None:
                            out |= attrs(f3, store, seen)
                    if store and isinstance(x, ast.Call) and isinstance(x.func, ast.Attribute) and is_self_attr(x.func.value) and \
                            x.func.attr in ("clear", "pop", "remove", "append", "extend"):
                        out.add(x.func.value.attr)
                return out
            clash = attrs(rr, True) & attrs(gv, False)
            if clash:
                return False, ("remove_reward resets %s, which the evaluation count (get_visited_times) is read from: the count of a final "
                               "candidate no longer equals the number of rewards it was credited with" % sorted(clash))
    return True, "documented exception: final candidates restart their reward list once, when validation begins"


# ---------------------------------------------------------------------------
# R04-MEAN


def check_means(ctx, cls, info, reward):
    """Running-mean shape of every score update: S = (S*n + r)/(n+1) with the counter incremented once after."""
    fn, params, paths, fns = info
    qual = "%s.receive_reward" % cls.name
    seen = set()
    # a running mean (S*n + r)/(n+1) is the mean of the rewards only if it starts from a FINITE value with weight n = 0 (0*S must be
    # 0): every new slot of a score list is opened with the constant 0
    for m, f2 in cls.methods.items():
        for x in ast.walk(f2):
            if isinstance(x, ast.Call) and isinstance(x.func, ast.Attribute) and x.func.attr in ("append", "insert") and is_self_attr(x.func.value) and \
                    x.func.value.attr in ("V_reward",) and x.args:
                v = x.args[-1]
                ok0 = isinstance(v, ast.Constant) and isinstance(v.value, (int, float)) and not isinstance(v.value, bool) and v.value == 0
                ctx.ob("R04-MEAN", ok0, cls.file, "%s.%s" % (cls.name, m), norm_src(x), "a new score slot starts at 0" if ok0 else
                       "a new score slot starts at '%s': with weight 0 the running mean multiplies it by 0 (inf*0 = nan) or keeps a part of it, "
                       "so the score is not the mean of the rewards received" % norm_src(v), x.lineno)
    for p in paths:
        for e in p.events:
            if e[0] != "mean" or not is_credit(e, reward):
                continue
            target = e[1]
            if target in seen:
                continue
            seen.add(target)
            T = SX.Translator(positive=True)
            S = T.sym("S")

            def attr_cb(a, target=target, S=S):
                return None
            val = e[2]
            # rename the target occurrences to S
            class Ren(ast.NodeTransformer):
                def visit_Subscript(self, n):
                    if norm_src(n) == target:
                        return ast.Name(id="S", ctx=ast.Load())
                    return self.generic_visit(n)
            v2 = Ren().visit(ast.parse(ast.unparse(val), mode="eval").body)
            try:
                expr = T.tr(v2)
            except SX.Untranslatable as ex:
                ctx.violation("R04-MEAN", cls.file, qual, target, "cannot read the score update: %s" % ex, fn.lineno)
                continue
            r = T.sym(reward)
            # solve for n: expr == (S*n + r)/(n+1)  =>  n = (r - expr)/(expr - S) ... check by matching numerator/denominator instead
            num, den = sp.fraction(sp.together(expr))
            nsym = safe_simplify(den - 1)
            ok = safe_simplify(expr - (S * nsym + r) / (nsym + 1)) == 0 and S not in nsym.free_symbols and r not in nsym.free_symbols
            count_src = str(nsym)
            ctx.ob("R04-MEAN", ok, cls.file, qual, "%s = %s" % (target, norm_src(val)),
                   "running mean with count n = %s" % count_src if ok else "not of the form (S*n + reward)/(n + 1)", fn.lineno)
            if ok:
                ctx.extra.setdefault("running_means", {})["%s:%s" % (cls.name, target)] = count_src


def import_leaf(ctx):
    """'No evidence is lost': a cell that holds rewards is never re-expanded (its subtree would be orphaned).
    These are C03's R03-LEAF obligations at the expansion sites, re-reported here."""
    from ..report import Ctx
    from . import c03
    tmp = Ctx(ctx.prop, ctx.tier, ctx.seed, ctx.model)
    c03.check_sites(tmp)
    for o in tmp.obligations:
        if o["rule"] == "R03-LEAF":
            ctx.obligations.append(dict(o, rule="R04-LEAF"))
    for f in tmp.findings:
        if f.rule == "R03-LEAF":
            ctx.add_finding("R04-LEAF", f.file, f.qual, f.construct,
                            "an internal cell can be expanded again, orphaning the rewards recorded below it: " + f.why, f.line)
    ctx.functions |= tmp.functions


def run(ctx):
    model = ctx.model
    eff = E.Effects(model)
    cache = {}

    def fcs(cls, fn):
        k = (cls, fn.name)
        if k not in cache:
            cache[k] = CS.FnCtx(model, eff, cls, fn)
        return cache[k]
    al = algos(model)
    ctx.count("R04 Algorithm subclasses", len(al), MIN_ALGOS)
    for cls in al:
        info = CR.credit_paths(model, cls.name)
        designators, reward = check_once(ctx, cls, info)
        ctx.ob("R04-ONCE", bool(designators), cls.file, "%s.receive_reward" % cls.name, "credit designators",
               "%s" % [(k, r) for k, o, r in designators] if designators else "receive_reward credits nothing at all", info[0].lineno,
               nontrivial=False)
        check_pair(ctx, cls, designators, fcs)
        check_means(ctx, cls, info, reward)
        if any(k == "learner" for k, o, r in designators):
            RT.check_route(ctx, cls, "R04-PAIR")
    check_node_classes(ctx)
    check_write(ctx)
    import_leaf(ctx)
    # GPO's validation rounds: the reward is recorded in the score of the point being validated - the score slot of the running phase,
    # kept as the running mean of that phase's validation rewards (C09's R09-VALID, re-reported)
    from . import c09
    tmp9 = Ctx(ctx.prop, ctx.tier, ctx.seed, ctx.model)
    tmp9.attempt("R09-VALID", "PyXAB/algos", "check_validation", "scores", c09.check_validation, tmp9)
    for o in tmp9.obligations:
        if o["rule"] == "R09-VALID":
            ctx.obligations.append(dict(o, rule="R04-SCORE"))
    for f in tmp9.findings:
        if f.rule == "R09-VALID":
            ctx.add_finding("R04-SCORE", f.file, f.qual, f.construct, f.why, f.line)
    ctx.functions |= tmp9.functions
    # every cell created by a split has its own evidence fields (no sharing between siblings)
    from .. import partition_step as PS
    groups = {}
    for r in PS.fresh_state_records(ctx.model):
        cobj = ctx.model.classes[r["cls"]]
        owner, fnm = ctx.model.lookup(r["cls"], r["method"])
        ctx.ob("R04-FRESH", r["ok"], (owner or cobj).file, "%s.%s" % (r["cls"], r["method"]), "%s [%s]" % (r["construct"], r["cfg"]), r["detail"], finding=False)
        if not r["ok"]:
            groups.setdefault(((owner or cobj).file, "%s.%s" % (r["cls"], r["method"]), r["construct"]), []).append(r)
    for (file, qual, construct), rs in sorted(groups.items()):
        ctx.add_finding("R04-FRESH", file, qual, construct, "%s (in %d abstract run(s), first: %s)" % (rs[0]["detail"], len(rs), rs[0]["cfg"]))
    # rewards are credited along parent/child links: a cell's child list must hold exactly its own children (C03's one-step lemma: no aliasing between a child list and a layer, parent/child links consistent)
    from . import _partition
    _partition.feed(ctx, (), rename={"R03-ALIAS": "R04-TREE", "R03-LINK": "R04-TREE"})
    # ... and nothing outside the partition may edit those lists (C03's who-may-write rule): a cell removed from its parent's child
    # list keeps its evidence where the property does not look for it (the tree reachable from the root)
    from . import c03
    tmp = Ctx(ctx.prop, ctx.tier, ctx.seed, ctx.model)
    c03.check_own(tmp)
    for f in tmp.findings:
        if f.rule == "R03-OWN":
            ctx.add_finding("R04-TREE", f.file, f.qual, f.construct, "the tree's lists are edited outside the partition: %s" % f.why, f.line)
    ctx.ob("R04-TREE", not [f for f in tmp.findings if f.rule == "R03-OWN"], "PyXAB/algos", "*", "who-may-write scan",
           "child lists, layers and link fields are written by the partition only", nontrivial=False, finding=False)
    return dict(
        explanation=(
            "ONCE: receive_reward of each of the 14 algorithms is walked path by path (own methods inlined, parameters substituted); "
            "every path must perform exactly one credit - one update_reward(reward) on a cell, or one per element of the handed-out "
            "path/chain, or one learner.receive_reward(time, reward), or one running-mean score update - with the reward parameter "
            "itself as the recorded value; zero-credit paths are accepted only in the documented finished states (StroquOOL.end, GPO "
            "phase > N); no update_reward call exists outside that closure. PAIR: the credited designator is matched with what pull "
            "handed out: at every value return of pull the attributes the designator reads have just been assigned (reaching "
            "definitions, no intervening change) and, substituted, give exactly the cell whose get_cpoint()/sample_uniform() is "
            "returned; for T-HOO/HCT/VHCT the stored path is built in lock-step with the traversal cursor (root, then child by child, "
            "ending in the returned cell), for VROOM update_list likewise, for Zooming the arm key is the same. NODE: each cell "
            "class's update_reward is summarised symbolically and must equal the reference recording step (count+1, append, mean = "
            "sum/count, VHCT variance = max(var, 1e-3)), unconditionally. WRITE: evidence fields are written only by the cell's own "
            "recording methods (frozen exceptions: StroquOOL's visited_times increment and its one-off remove_reward of final "
            "candidates). MEAN: score updates have running-mean shape. Equality of stored statistics with a replayed history is not "
            "observed - it follows from these necessary conditions together with C03's leaf-only expansion."),
        assumptions=["pull and receive_reward alternate", "field-based view of cells", "len(rewards) == visited_times is maintained by the "
                     "recording step itself (both move together)"],
        technique="path-wise credit-event analysis of receive_reward + reaching-definition pairing with pull + symbolic method summaries (sympy)",
    )
