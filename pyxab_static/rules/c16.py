"""C16 - algorithms see the domain only through the partition (affine equivariance).

(A) R16-GEOM  PyXAB/partition + Node.py, from the E5 abstract runs: every bound of every child along axis k and
              every representative coordinate is an affine combination with weights summing to one of this cell's
              own axis-k atoms (and of random draws whose own end points are such), with no constant term - so a
              per-axis translation and a positive scaling of the box map children to children; split decisions never
              compare a coordinate with anything but a like coordinate.
(B) R16-TYPE  PyXAB/algos: coordinate-bearing values (boxes, points, their elements) may be stored, returned,
              passed on, subscripted and iterated; an element may be compared only with another coordinate of the
              same axis; any other use (arithmetic, test, argument of a numeric function, subscript position) is
              reported.
(C) R16-DOO   the single documented exception: DOO.delta_init squares differences of same-axis coordinates
              (translation-invariant, degree 2) and is reachable only as the default delta.
"""
import ast
from fractions import Fraction

import sympy as sp

from .. import absint as A
from .. import partition_step as PS
from ..model import call_name, is_self_attr, method_name
from ..report import AnalysisError, norm_src

BOX_SOURCES_ATTR = {"domain"}
BOX_SOURCES_CALL = {"get_domain"}
PT_SOURCES_ATTR = {"c_point", "goodx"}
PT_SOURCES_CALL = {"get_cpoint", "sample_uniform", "get_point", "get_last_point"}
PASS_THROUGH_CALLS = {"append", "point", "make_active", "list", "tuple", "deepcopy", "copy", "extend", "insert"}
EXCEPTION = ("DOO", "delta_init")


# ---------------------------------------------------------------------------
# (A) geometry from E5


def check_geometry(ctx):
    model = ctx.model
    Ks, ds = PS.ranges(ctx.tier)
    n = 0
    for pcls, (takesK, equal, ar) in PS.CLASSES.items():
        cls = model.cls(pcls)
        qual = "%s.make_children" % pcls
        owner, fn = model.lookup(pcls, "make_children")
        ctx.fn(qual)
        bad = {}
        runs = 0
        for K in ((Ks[:3] if ctx.tier == "quick" else Ks) if takesK else [None]):
            for d in ds:
                try:
                    explored = PS.explore_budgeted(model, pcls, K, d, True, True)
                except A.Unsupported as ex:
                    bad.setdefault("obligation not discharged: make_children cannot be interpreted (%s)" % ex, []).append("K=%s d=%d" % (K, d))
                    continue
                except A.PathCrash as ex:
                    bad.setdefault("obligation not discharged: the constructor cannot be interpreted / raises (%s)" % ex, []).append("K=%s d=%d" % (K, d))
                    continue
                for oracle, res in explored:
                    runs += 1
                    I = res.I
                    draws = {u.sym: (a, b) for (u, a, b) in getattr(I, "uniform_draws", [])}
                    for si, st in enumerate(res.steps):
                        if st.crash is not None:
                            bad.setdefault("make_children raises on this path: %s" % st.crash, []).append("K=%s d=%d step %d" % (K, d, si + 1))
                            continue
                        own = {}
                        for k in range(d):
                            own[st.lo[k].sym] = k
                            own[st.hi[k].sym] = k
                        ch = st.parent.f.get("children") or []
                        for j, c in enumerate(ch):
                            dm = c.f.get("domain")
                            cp = c.f.get("c_point")
                            if not isinstance(dm, list):
                                continue
                            for k in range(min(d, len(dm))):
                                terms = list(dm[k]) if isinstance(dm[k], (list, tuple)) else []
                                if isinstance(cp, list) and k < len(cp):
                                    terms.append(cp[k])
                                for t in terms:
                                    n += 1
                                    why = affine_problem(A._sym(t), k, own, draws)
                                    if why:
                                        bad.setdefault(why, []).append("K=%s d=%d step %d child %d axis %d: %s" % (K, d, si + 1, j, k, A._sym(t)))
                    # branches taken on symbolic conditions
                    for kind, choice, nopt in I.trace:
                        if kind.startswith("branch:"):
                            bad.setdefault("split code branches on a coordinate-valued condition (%s)" % kind[7:], []).append(
                                "K=%s d=%d" % (K, d))
        ctx.ob("R16-GEOM", not bad, owner.file, qual, "child bounds and centres are weight-one affine in the cell's own axis atoms",
               "%d abstract runs" % runs if not bad else "; ".join("%s [%s]" % (w, v[0]) for w, v in sorted(bad.items())[:3]),
               fn.lineno)
    ctx.count("R16-GEOM coordinate terms examined", n, 500)


def affine_problem(t, axis, own, draws, depth=0):
    """None if term t is sum(w_i * atom_i) with atoms of this cell's axis `axis` (or draws bounded by such) and
    sum w_i == 1, no constant, no products; else a description."""
    t = sp.expand(t)
    coeffs = t.as_coefficients_dict()
    total = Fraction(0)
    for mon, c in coeffs.items():
        if mon == 1:
            if c != 0:
                return "coordinate contains an absolute constant"
            continue
        if not mon.is_Symbol:
            return "coordinate is not affine in the cell's bounds"
        if mon in own:
            if own[mon] != axis:
                return "coordinate of one axis is computed from another axis' bounds"
        elif mon in draws:
            if depth > 6:
                return "draw chain too deep"
            a, b = draws[mon]
            for e in (a, b):
                w = affine_problem(A._sym(e), axis, own, draws, depth + 1)
                if w:
                    return "random draw between end points that are not such coordinates (%s)" % w
        else:
            return "coordinate depends on '%s', which is not a bound of the cell being split" % mon
        total += Fraction(int(sp.numer(c)), int(sp.denom(c))) if c.is_Rational else None
    if total != 1:
        return "affine weights sum to %s instead of 1 (not translation-equivariant)" % total
    return None


# ---------------------------------------------------------------------------
# (B) coordinate typing in PyXAB/algos


class CoordTaint:
    """level 2 = box (list of [lo,hi]), 1 = interval or point (list of coordinates), 0 = a coordinate.
    value(expr) -> (level, axis_src) or None."""

    def __init__(self, fn, in_node_class):
        self.fn = fn
        self.env = {}
        self.in_node = in_node_class
        # the search box arrives as the constructor parameter `domain` (and is handed on under that name)
        for a in list(fn.args.args) + list(fn.args.kwonlyargs):
            if a.arg == "domain":
                self.env["domain"] = (2, None, "box")
        for _ in range(8):
            ch = False
            for n in ast.walk(fn):
                if isinstance(n, ast.Assign):
                    v = self.val(n.value)
                    for t in n.targets:
                        ch |= self.bind(t, v)
                elif isinstance(n, (ast.For, ast.comprehension)):
                    ch |= self.bind_iter(n.target, n.iter)
            if not ch:
                break

    def bind_iter(self, target, it):
        """for <target> in <it>: element typing through enumerate / zip / tuple-unpacking of intervals."""
        axis = "<each:%s>" % norm_src(target)
        if isinstance(it, ast.Call) and isinstance(it.func, ast.Name) and it.func.id == "enumerate" and it.args and \
                isinstance(target, (ast.Tuple, ast.List)) and len(target.elts) == 2:
            return self.bind_elem(target.elts[1], self.elem(self.val(it.args[0]), norm_src(target.elts[0])))
        if isinstance(it, ast.Call) and isinstance(it.func, ast.Name) and it.func.id == "zip" and isinstance(target, (ast.Tuple, ast.List)) and \
                len(target.elts) == len(it.args):
            ch = False
            for t, a in zip(target.elts, it.args):
                ch |= self.bind_elem(t, self.elem(self.val(a), axis))
            return ch
        return self.bind_elem(target, self.elem(self.val(it), axis))

    def bind_elem(self, t, v):
        """bind a loop target to an element value; a tuple target unpacks an interval into its two coordinates."""
        if isinstance(t, (ast.Tuple, ast.List)) and v is not None and v[0] == 1:
            ch = False
            for x in t.elts:
                ch |= self.bind(x, (0, v[1], "c"))
            return ch
        return self.bind(t, v)

    def bind(self, t, v):
        if isinstance(t, ast.Name):
            if v is not None and self.env.get(t.id) is None:
                self.env[t.id] = v
                return True
            return False
        if isinstance(t, (ast.Tuple, ast.List)):
            return False
        return False

    def elem(self, v, axis):
        if v is None:
            return None
        lvl, ax, kind = v
        if lvl == 0:
            return None
        if lvl == 2:
            return (1, axis, "iv")
        return (0, ax if kind == "iv" else axis, "c")

    def val(self, e):
        if isinstance(e, ast.Name):
            return self.env.get(e.id)
        if isinstance(e, ast.Attribute):
            if e.attr in BOX_SOURCES_ATTR:
                return (2, None, "box")
            if e.attr in PT_SOURCES_ATTR or (e.attr == "p" and not is_self_attr(e) or e.attr == "p" and self.in_node == "point"):
                return (1, None, "pt")
            return None
        if isinstance(e, ast.Call):
            m = method_name(e)
            if m in BOX_SOURCES_CALL:
                return (2, None, "box")
            if m in PT_SOURCES_CALL:
                return (1, None, "pt")
            if m == "pull" and isinstance(e.func, ast.Attribute) and not (isinstance(e.func.value, ast.Name) and False):
                return (1, None, "pt")
            if call_name(e) in ("copy.deepcopy", "list", "copy.copy") and e.args:
                return self.val(e.args[0])
            return None
        if isinstance(e, ast.Subscript):
            v = self.val(e.value)
            if v is None:
                return None
            if isinstance(e.slice, ast.Slice):
                return v
            return self.elem(v, norm_src(e.slice))
        if isinstance(e, ast.IfExp):
            return self.val(e.body) or self.val(e.orelse)
        return None


def check_algos(ctx):
    model = ctx.model
    n_sites = 0
    for c in model.classes.values():
        if not c.file.startswith("PyXAB/algos/"):
            continue
        for fn in c.methods.values():
            qual = "%s.%s" % (c.name, fn.name)
            ctx.fn(qual)
            T = CoordTaint(fn, c.name)
            exc = (c.name, fn.name) == EXCEPTION
            for n in ast.walk(fn):
                if not isinstance(n, ast.expr):
                    continue
                v = T.val(n)
                if v is None:
                    continue
                if isinstance(n, ast.Name) and isinstance(n.ctx, ast.Store):
                    continue
                par = model.up(n)
                n_sites += 1
                ok, why = allowed_use(model, T, n, v, par, exc)
                if ok:
                    ctx.ob("R16-TYPE", True, c.file, qual, "%s in %s" % (norm_src(n), norm_src(par)[:80] if par is not None else ""),
                           "coordinate-bearing value only %s" % type(par).__name__.lower(), n.lineno,
                           nontrivial=isinstance(par, (ast.Compare, ast.Call, ast.BinOp)))
                    continue
                ctx.violation("R16-TYPE", c.file, qual, norm_src(model.enclosing_stmt(n) or n),
                              "%s '%s' %s" % ({2: "the domain box", 1: "a point/interval", 0: "a coordinate"}[v[0]], norm_src(n), why),
                              n.lineno)
    ctx.ob("R16-TYPE", True, "PyXAB/algos", "*", "coordinate-use scan",
           "%d uses of coordinate-bearing values in PyXAB/algos classified" % n_sites)
    ctx.count("R16-TYPE uses of coordinate-bearing values", n_sites, 40)


def allowed_use(model, T, n, v, par, in_exception):
    lvl, axis, kind = v
    if isinstance(par, ast.Subscript) and par.value is n:
        return True, ""
    if isinstance(par, ast.Subscript) and par.slice is n:
        return False, "is used as a subscript"
    if isinstance(par, (ast.Return, ast.Assign, ast.AnnAssign, ast.Expr, ast.Tuple, ast.List, ast.Starred, ast.keyword)):
        return True, ""
    if isinstance(par, ast.Attribute):
        return True, ""        # method call / attribute of the container itself
    if isinstance(par, (ast.For, ast.comprehension)) and par.iter is n:
        return True, ""
    if isinstance(par, ast.Call):
        if par.func is n:
            return True, ""
        name = call_name(par)
        m = method_name(par)
        if name == "len" or m in PASS_THROUGH_CALLS or name in ("copy.deepcopy", "copy.copy"):
            return True, ""
        if name in ("enumerate", "zip", "reversed", "list", "tuple", "iter") and lvl >= 1:
            return True, ""       # iteration / copying of a box or point: the elements are typed and judged where they are used
        if name in ("np.random.uniform", "numpy.random.uniform") and lvl == 0:
            others = [T.val(a) for a in par.args]
            if all(o is not None and o[0] == 0 and o[1] == axis for o in others):
                return True, ""
            return False, "is an end point of a uniform draw whose other end point is not a coordinate of the same axis"
        if name == "range" and False:
            return True, ""
        # calls of PyXAB methods that take a point/box by contract
        if m in ("update_reward", "receive_reward"):
            return False, "is passed as a reward"
        if m in ("make_children", "partition", "algo", "node", "__init__") or (isinstance(par.func, ast.Name) and par.func.id in model.classes) \
                or m in ("GPO",):
            return True, ""
        if isinstance(par.func, ast.Name) and par.func.id in ("partition", "algo", "node", "GPO", "HCT", "VHCT", "T_HOO"):
            return True, ""
        if in_exception and name in ("max", "min"):
            return True, ""
        return False, "is passed to %s(), which is not translation/scale-equivariant in general" % name
    if isinstance(par, ast.Compare):
        if lvl != 0:
            if all(isinstance(o, (ast.Is, ast.IsNot)) for o in par.ops):
                return True, ""
            return False, "is compared as a whole"
        sides = [par.left] + list(par.comparators)
        for s in sides:
            if s is n:
                continue
            o = T.val(s)
            if o is None or o[0] != 0:
                return False, "is compared with '%s', which is not a coordinate" % norm_src(s)
            if o[1] != axis:
                return False, "is compared with a coordinate of a different axis ('%s' vs '%s')" % (axis, o[1])
        return True, ""
    if isinstance(par, (ast.BinOp, ast.UnaryOp)):
        if in_exception and lvl == 0:
            return exception_arith(T, n, par)
        return False, "takes part in arithmetic"
    if isinstance(par, (ast.If, ast.While, ast.BoolOp, ast.IfExp)):
        if isinstance(par, ast.IfExp) and par.test is not n:
            return True, ""
        return False, "is used as a truth value"
    if isinstance(par, ast.AugAssign):
        return False, "takes part in an augmented assignment"
    return True, ""


def exception_arith(T, n, par):
    """Inside DOO.delta_init: only `coord_a - coord_b` with the same axis."""
    if isinstance(par, ast.BinOp) and isinstance(par.op, ast.Sub):
        other = par.right if par.left is n else par.left
        o = T.val(other)
        me = T.val(n)
        if o is not None and o[0] == 0 and o[1] == me[1]:
            return True, ""
        return False, "is subtracted from/with '%s', not a coordinate of the same axis (%s vs %s)" % (
            norm_src(other), me[1], o[1] if o else None)
    return False, "takes part in arithmetic other than a same-axis difference"


def check_exception(ctx):
    model = ctx.model
    cls, meth = EXCEPTION
    c = model.cls(cls)
    if meth not in c.methods:
        ctx.ob("R16-DOO", True, c.file, cls, "no default diameter function", "exception not present", nontrivial=False)
        return
    fn = c.methods[meth]
    ctx.fn("%s.%s" % (cls, meth))
    # every same-axis difference is squared (degree 2, translation weight 0) before it is compared / returned
    diffs = [n for n in ast.walk(fn) if isinstance(n, ast.BinOp) and isinstance(n.op, ast.Sub)]
    sq = 0
    for dnode in diffs:
        p = model.up(dnode)
        if isinstance(p, ast.BinOp) and isinstance(p.op, ast.Pow) and p.left is dnode and isinstance(p.right, ast.Constant) and p.right.value == 2:
            sq += 1
    ctx.ob("R16-DOO", diffs and sq == len(diffs), c.file, "%s.%s" % (cls, meth), "same-axis differences are squared",
           "%d difference(s), %d squared: the default delta is translation-invariant and homogeneous of degree 2" % (len(diffs), sq), fn.lineno)
    # reachable only as the default delta
    uses = []
    for c2 in model.classes.values():
        for f2 in c2.methods.values():
            for n in ast.walk(f2):
                if isinstance(n, ast.Attribute) and n.attr == meth:
                    uses.append((c2, f2, n))
    good = True
    detail = []
    for c2, f2, n in uses:
        st = model.enclosing_stmt(n)
        ok = c2.name == cls and f2.name == "__init__" and isinstance(st, ast.Assign) and \
            norm_src(st) in ("self.delta = self.%s" % meth, "delta = self.%s" % meth)
        if ok:
            # the reference is taken only where the dominating guards establish `delta is None` (whatever the shape of the test)
            from .. import cfg as C
            g = C.CFG(f2)
            facts = [a for a, t, lab, e in C.facts_at(g, g.node_of(st))]
            ok = ("is", "delta", "None") in facts
            if ok and norm_src(st).startswith("delta = "):
                # `if delta is None: delta = self.delta_init` ... `self.delta = delta`: the local is stored unchanged afterwards
                stores = [x for x in ast.walk(f2) if isinstance(x, ast.Assign) and any(is_self_attr(t, "delta") for t in x.targets)]
                ok = len(stores) == 1 and norm_src(stores[0].value) == "delta" and \
                    sum(1 for x in ast.walk(f2) if isinstance(x, ast.Name) and x.id == "delta" and isinstance(x.ctx, ast.Store)) == 1
        good &= ok
        detail.append("%s.%s: %s" % (c2.name, f2.name, norm_src(st)))
    ctx.ob("R16-DOO", good and len(uses) == 1, c.file, cls, "delta_init is installed only as the default delta (delta is None)",
           "; ".join(detail), fn.lineno)


def run(ctx):
    check_geometry(ctx)
    check_algos(ctx)
    check_exception(ctx)
    return dict(
        explanation=(
            "GEOM: in the abstract runs of every make_children (E5; K,d range as for C02; both expansions of a two-step run) each child "
            "bound along axis k and each centre coordinate is an affine combination, weights summing to one, no constant term, of the "
            "split cell's own axis-k bounds and of uniform draws whose end points are such terms; no split decision branches on a "
            "coordinate. Hence translating each axis or scaling the box maps every tree to the translated/scaled tree, given the same "
            "generator state. TYPE: in PyXAB/algos every use of a coordinate-bearing value (domain boxes, centre/sample points, "
            "learner proposals, their elements) is classified; only storing, returning, forwarding, subscripting, iterating, len(), "
            "uniform draws between two coordinates of one axis and comparisons between coordinates of one axis are accepted - decisions "
            "are therefore functions of counts, rewards, depths and indices. DOO: the documented exception delta_init squares same-axis "
            "differences (translation-invariant, degree 2) and is installed only when delta is None. Sound in real arithmetic; exact "
            "floating-point equality for dyadic maps is not separately argued."),
        assumptions=["np.random.uniform(a,b) = a + (b-a)*U for a generator draw U", "real arithmetic",
                     "coordinate sources are the getters/attributes listed in the rule (domain, get_domain, c_point, get_cpoint, "
                     "sample_uniform, get_point, learner pull/get_last_point, goodx)"],
        technique="affine-weight check of abstract-interpretation results (partitions) + coordinate-use typing scan (algorithms)",
    )
