"""C03 - partition tree and its per-depth node index stay mutually consistent.

Induction: R03-BASE (Partition.__init__) + R03-STEP/ALIAS/INDEX/LINK (one
make_children call on an abstract pre-state, engine E5) + the call-site
obligations R03-LEAF and R03-NEWLAYER at every make_children site + R03-OWN
(nobody outside PyXAB/partition writes links or layers).
"""
import ast

from .. import callsites as CS
from .. import cfg as C
from .. import effects as E
from ..model import calls_in, get_arg, is_self_attr, method_name
from ..report import AnalysisError, norm_src
from . import _partition

MIN_SITES_ALGOS = 12
MIN_EXPAND_SITES = 4


def algo_classes(model):
    return [c for c in model.classes.values() if c.file.startswith("PyXAB/algos/")]


def find_sites(model):
    """All make_children call sites: (cls, fn, call)."""
    out = []
    for c in model.classes.values():
        if not (c.file.startswith("PyXAB/algos/") or c.file.startswith("PyXAB/partition/")):
            continue
        for fn in c.methods.values():
            for call in calls_in(fn, "make_children"):
                out.append((c.name, fn, call))
    return out


def wrappers(model, sites):
    """Methods that pass one of their own parameters as the cell to make_children:
    {(cls, name): parameter index (excluding self)}."""
    out = {}
    for cls, fn, call in sites:
        X = get_arg(call, 0, "parent")
        params = [a.arg for a in fn.args.args][1:]
        if isinstance(X, ast.Name) and X.id in params:
            reassigned = any(isinstance(n, ast.Name) and n.id == X.id and isinstance(n.ctx, ast.Store) for n in ast.walk(fn))
            if not reassigned:
                out[(cls, fn.name)] = (params.index(X.id), X.id)
    return out


def check_sites(ctx):
    model = ctx.model
    eff = E.Effects(model)
    sites = find_sites(model)
    wr = wrappers(model, sites)
    n_algo = sum(1 for cls, fn, call in sites if model.classes[cls].file.startswith("PyXAB/algos/"))
    ctx.count("R03-NEWLAYER/LEAF make_children call sites in PyXAB/algos", n_algo, MIN_SITES_ALGOS)
    fcs = {}

    def fc_of(cls, fn):
        k = (cls, fn.name)
        if k not in fcs:
            fcs[k] = CS.FnCtx(model, eff, cls, fn)
        return fcs[k]

    leaf_sites = []   # (fc, X, call) where the leaf obligation has to be proved
    for cls, fn, call in sites:
        fc = fc_of(cls, fn)
        ctx.fn(fc.qual)
        ctx.call_sites += 1
        X = get_arg(call, 0, "parent")
        at = fc.node_of(call)
        con = norm_src(call)
        if X is None:
            ctx.violation("R03-LEAF", fc.file, fc.qual, con, "make_children called without a cell", call.lineno)
            continue
        # ---------------- NEWLAYER
        if cls == "Partition" and fn.name == "deepen":
            ok, how = deepen_semantic(ctx.model, fc, fn)
            ctx.ob("R03-NEWLAYER", ok, fc.file, fc.qual, con, how, call.lineno)
            ctx.ob("R03-LEAF", ok, fc.file, fc.qual, con, how, call.lineno)
            continue
        dsrc, dast, how = CS.newlayer_spec(fc, call, at)
        if dsrc is None:
            ctx.ob("R03-NEWLAYER", False, fc.file, fc.qual, con, how, call.lineno)
        else:
            ok, how2 = CS.proves_depth(fc, X, dast, at)
            ctx.ob("R03-NEWLAYER", ok, fc.file, fc.qual, con,
                   "%s; %s" % (how, how2) if ok else "newlayer is decided by '%s' (%s) but %s" % (dsrc, how, how2), call.lineno)
        # ---------------- LEAF
        if (cls, fn.name) in wr:
            ctx.ob("R03-LEAF", True, fc.file, fc.qual, con,
                   "wrapper: the leaf obligation is transferred to the callers of %s" % fc.qual, call.lineno, nontrivial=False)
        else:
            leaf_sites.append((fc, X, call))
    # wrapper call sites
    n_wr = 0
    for c in algo_classes(model):
        for fn in c.methods.values():
            for call in ast.walk(fn):
                if not isinstance(call, ast.Call) or not isinstance(call.func, ast.Attribute):
                    continue
                targets = eff.resolve(c.name, call, c.file)
                for t in targets:
                    if t in wr:
                        pos, pname = wr[t]
                        X = get_arg(call, pos, pname)
                        fc = fc_of(c.name, fn)
                        ctx.fn(fc.qual)
                        n_wr += 1
                        ctx.call_sites += 1
                        if X is None:
                            ctx.violation("R03-LEAF", fc.file, fc.qual, norm_src(call), "wrapper called without a cell", call.lineno)
                        else:
                            leaf_sites.append((fc, X, call))
                        break
    ctx.count("R03-LEAF expand()-style wrapper call sites", n_wr, MIN_EXPAND_SITES)
    for fc, X, call in leaf_sites:
        at = fc.node_of(call)
        ok, how = prove_leaf_site(ctx, fc, X, call, at, fc_of)
        ctx.ob("R03-LEAF", ok, fc.file, fc.qual, norm_src(call),
               how if ok else "cannot show that '%s' is a leaf when it is expanded: %s" % (norm_src(X), how), call.lineno)
    return eff, fcs


def prove_leaf_site(ctx, fc, X, call, at, fc_of):
    ok, how = CS.proves_leaf(fc, X, at)
    if ok:
        return ok, how
    reasons = [how]
    for alt in (root_in_init, traversal_exit, map_handover):
        ok, how2 = alt(ctx, fc, X, call, at, fc_of)
        if ok:
            return True, how2
        if how2:
            reasons.append(how2)
    return False, "; ".join(r for r in reasons if r)


def root_in_init(ctx, fc, X, call, at, fc_of):
    """(d) the root of a partition constructed in the same __init__, before anything grows it."""
    if fc.fn.name != "__init__" or norm_src(X) not in ("self.partition.get_root()", "self.partition.root"):
        return False, ""
    ds = fc.defs_of("self.partition")
    if len(ds) != 1 or ds[0][1][0] != "assign" or not isinstance(ds[0][1][1], ast.Call):
        return False, "self.partition is not constructed exactly once in __init__"
    d = ds[0][0]
    if not fc.cfg.dominates(d, at):
        return False, "the partition's construction does not dominate the call"
    if fc.growth_between(d, at, ()):
        return False, "the tree may already have grown between the partition's construction and this call"
    return True, "root of the partition constructed at line %s, nothing grows the tree in between" % d.line


def traversal_exit(ctx, fc, X, call, at, fc_of):
    """(c) X is P[-1] for a parameter P that always receives self.<path attr>, which pull() sets from
    a traversal whose loop exits only at a leaf and whose path list ends with the exit node."""
    model = ctx.model
    if not (isinstance(X, ast.Subscript) and isinstance(X.value, ast.Name) and norm_src(X.slice) == "-1"):
        return False, ""
    P = X.value.id
    params = [a.arg for a in fc.fn.args.args]
    if P not in params:
        return False, ""
    if fc.defs_of(P):
        return False, "parameter %s is reassigned" % P
    if fc.growth_between(fc.cfg.entry, at, ()):
        return False, "the tree may grow before the expansion inside %s" % fc.qual
    pos = params.index(P) - 1
    cls = fc.cls
    callers = []
    for fn2 in model.classes[cls].methods.values():
        for c2 in calls_in(fn2, fc.fn.name):
            if isinstance(c2.func, ast.Attribute) and isinstance(c2.func.value, ast.Name) and c2.func.value.id == "self":
                callers.append((fn2, c2))
    if not callers:
        return False, "%s has no caller in its class" % fc.qual
    attr = None
    for fn2, c2 in callers:
        a = get_arg(c2, pos, P)
        if not is_self_attr(a):
            return False, "caller %s passes '%s', not an instance attribute" % (fn2.name, norm_src(a))
        if attr not in (None, a.attr):
            return False, "callers pass different attributes"
        attr = a.attr
        f2 = fc_of(cls, fn2)
        if f2.growth_between(f2.cfg.entry, f2.node_of(c2), ()):
            return False, "the tree may grow in %s before %s is called" % (fn2.name, fc.fn.name)
    # every store to self.<attr> in the class
    stores = []
    for fn3 in model.classes[cls].methods.values():
        f3 = fc_of(cls, fn3)
        for n, r in f3.defs_of("self." + attr):
            stores.append((f3, n, r))
    if not stores:
        return False, "self.%s is never assigned" % attr
    for f3, n, r in stores:
        if r[0] != "unpack" or not isinstance(r[1], ast.Call) or not is_self_attr(r[1].func):
            return False, "self.%s is assigned from something other than a traversal result (line %s)" % (attr, n.line)
        tgt = r[2]
        k = [i for i, e in enumerate(tgt.elts) if norm_src(e) == "self." + attr]
        trav = model.lookup(cls, r[1].func.attr)[1]
        if trav is None:
            return False, "traversal %s not found" % r[1].func.attr
        ok, how = traversal_returns_leaf_path(fc_of(cls, trav), k[0])
        if not ok:
            return False, "%s.%s: %s" % (cls, trav.name, how)
        # after the traversal, the storing function must not grow the tree
        if f3.growth_between(n, f3.cfg.exit, ()):
            return False, "%s grows the tree after the traversal" % f3.qual
    return True, ("%s[-1] is the exit node of the traversal stored in self.%s; the traversal loop exits only at a leaf "
                  "and nothing grows the tree between the traversal and the expansion" % (P, attr))


def traversal_returns_leaf_path(ft, k):
    """In traversal function ft every `return (.., path, ..)` returns at position k a list whose last
    element is a leaf: the list is built in lock-step with a cursor variable and the loop exits only
    when the cursor has no children."""
    cfg = ft.cfg
    if not cfg.returns:
        return False, "no return"
    for rn in cfg.returns:
        v = rn.ast.value
        if not isinstance(v, ast.Tuple) or len(v.elts) <= k or not isinstance(v.elts[k], ast.Name):
            return False, "return value is not a tuple with a path variable at position %d" % k
        path = v.elts[k].id
        # cursor = a Name N such that path was initialised as [N] and every assignment to N is followed by path.append(<same>)
        pdefs = ft.defs_of(path)
        if len(pdefs) != 1 or pdefs[0][1][0] != "assign" or not isinstance(pdefs[0][1][1], ast.List) or len(pdefs[0][1][1].elts) != 1:
            return False, "path list is not initialised as [cursor]"
        first = pdefs[0][1][1].elts[0]
        pinit = pdefs[0][0]
        root_start = None
        if isinstance(first, ast.Name):
            cur = first.id
        elif norm_src(first) in ("self.partition.get_root()", "self.partition.root"):
            # [root] with the cursor initialised by the same (constant) root expression next to it: the cursor is the variable
            # returned beside the path whose only definition outside the loop is that expression
            cands = [e.id for e in v.elts if isinstance(e, ast.Name) and e.id != path and
                     any(r[0] == "assign" and norm_src(r[1]) == norm_src(first) for n, r in ft.defs_of(e.id))]
            if len(cands) != 1:
                return False, "path list is not initialised as [cursor]"
            cur = cands[0]
            root_start = norm_src(first)
        else:
            return False, "path list is not initialised as [cursor]"
        cdefs = ft.defs_of(cur)
        if root_start is not None:
            cdefs = [(n, r) for n, r in cdefs if not (r[0] == "assign" and norm_src(r[1]) == root_start)]
        # all mutations of path
        muts = []
        for n in cfg.nodes:
            if (path + "[]") in E.stored_locs(n) and n is not pinit:
                muts.append(n)
        steps = [(n, r) for n, r in cdefs if not cfg.dominates(n, pinit) or n is pinit]
        steps = [(n, r) for n, r in cdefs if cfg.paths_avoiding(pinit, n, ())]
        if len(muts) != len(steps):
            return False, "path is mutated %d time(s) but the cursor moves %d time(s)" % (len(muts), len(steps))
        for n, r in steps:
            if r[0] != "assign":
                return False, "cursor moved by a non-assignment"
            twin = [m for m in muts if CS.together(ft, n, m)]
            if len(twin) != 1:
                return False, "cursor move at line %s is not accompanied by path.append" % n.line
            m = twin[0]
            calls = [c for c in ast.walk(m.ast) if isinstance(c, ast.Call) and method_name(c) == "append"]
            if len(calls) != 1 or len(calls[0].args) != 1:
                return False, "path is not extended by a single append"
            arg = norm_src(calls[0].args[0])
            if arg not in (cur, norm_src(r[1])):
                return False, "path.append(%s) does not append the new cursor" % arg
            if m.id < n.id and arg == cur:
                return False, "path.append happens before the cursor moves"
        # leaf at the return: a dominating fact 'cursor has no children'
        leaf = False
        for subj, t in CS.leaf_fact_subjects(ft, rn):
            if subj == cur and not ft.stores_between(t, rn, {cur}, ()) and not ft.growth_between(t, rn, ()):
                leaf = True
        if not leaf:
            return False, "the traversal can stop at a cell that still has children (loop exit condition is not 'no children')"
    return True, "ok"


def map_handover(ctx, fc, X, call, at, fc_of):
    """(f) Zooming: X = M[k] where M maps arms to their cells; every value ever stored in M is a
    freshly created child, and in the branch that expands X the entry M[k] is re-pointed to a child."""
    model = ctx.model
    xs = norm_src(X)
    if not isinstance(X, ast.Name):
        return False, ""
    ds, entry = fc.reaching(xs, at)
    if entry or len(ds) != 1 or ds[0][1][0] != "assign":
        return False, ""
    rhs = ds[0][1][1]
    if not (isinstance(rhs, ast.Subscript) and is_self_attr(rhs.value)):
        return False, ""
    M = rhs.value.attr
    key = norm_src(rhs.slice)
    if fc.growth_between(ds[0][0], at, ()) or fc.stores_between(ds[0][0], at, {"self.%s[]" % M, key}, ()):
        return False, "the map entry or the tree changes between the lookup and the expansion"
    # every store into self.M[...] anywhere in the class stores a fresh child
    cls = fc.cls
    n_stores = 0
    for fn2 in model.classes[cls].methods.values():
        f2 = fc_of(cls, fn2)
        for n in f2.cfg.nodes:
            a = n.ast
            if n.kind != "stmt" or not isinstance(a, ast.Assign):
                continue
            for t in a.targets:
                if isinstance(t, ast.Subscript) and is_self_attr(t.value, M):
                    n_stores += 1
                    ok, how = fresh_child(ctx, f2, a.value, n, fc_of)
                    if not ok:
                        return False, "self.%s[..] = %s in %s: %s" % (M, norm_src(a.value), f2.qual, how)
    if n_stores == 0:
        return False, "map self.%s is never filled" % M
    # hand-over: after the expansion, on the way to the exit, a loop over X's children re-points M[key]
    re = []
    for n in fc.cfg.nodes:
        a = n.ast
        if n.kind == "stmt" and isinstance(a, ast.Assign) and fc.cfg.paths_avoiding(at, n, ()):
            for t in a.targets:
                if isinstance(t, ast.Subscript) and is_self_attr(t.value, M) and norm_src(t.slice) == key:
                    re.append(n)
    if not re:
        return False, "after expanding %s the entry self.%s[%s] still refers to the (now internal) cell" % (xs, M, key)
    return True, ("every value stored in self.%s is a freshly created child (%d store site(s)) and the expanded cell's entry "
                  "self.%s[%s] is re-pointed to one of its children after the expansion" % (M, n_stores, M, key))


def fresh_child(ctx, fc, v, at, fc_of, depth=0):
    """Is value `v` (AST) a cell that was created just now (hence a leaf)?  Forms: the loop variable of
    `for c in Y.get_children()` / `for c in partition.get_layer_node_list(depth=1)` following the
    creating call in the same function, or a parameter of a helper all of whose callers pass such."""
    if not isinstance(v, ast.Name):
        return False, "not a plain cell variable"
    ds, entry = fc.reaching(v.id, at)
    params = [a.arg for a in fc.fn.args.args]
    if entry and v.id in params and not ds and depth < 2:
        pos = params.index(v.id) - 1
        cls = fc.cls
        callers = []
        for fn2 in ctx.model.classes[cls].methods.values():
            for c2 in calls_in(fn2, fc.fn.name):
                if isinstance(c2.func, ast.Attribute) and isinstance(c2.func.value, ast.Name) and c2.func.value.id == "self":
                    callers.append((fn2, c2))
        if not callers:
            return False, "helper without callers"
        for fn2, c2 in callers:
            a = get_arg(c2, pos, v.id)
            f2 = fc_of(cls, fn2)
            ok, how = fresh_child(ctx, f2, a, f2.node_of(c2), fc_of, depth + 1)
            if not ok:
                return False, "caller %s: %s" % (fn2.name, how)
        return True, "parameter; all callers pass fresh children"
    if entry or not ds:
        return False, "value may come from outside the function"
    not_none = any(atom == ("is not", v.id, "None") and not fc.stores_between(t, at, {v.id}, ()) for atom, t, _lab, _e in C.facts_at(fc.cfg, at))
    for n, r in ds:
        if not_none and r[0] == "assign" and isinstance(r[1], ast.Constant) and r[1].value is None:
            continue        # the value is used under `v is not None`: the definition `v = None` does not reach this use as a value
        if r[0] == "for":
            it = r[1]
            src = norm_src(it)
            # iterating the children of a cell expanded earlier in this function, or layer 1 right after deepen() in __init__
            if isinstance(it, ast.Call) and method_name(it) == "get_children":
                continue
            if isinstance(it, ast.Name):
                d2, e2 = fc.reaching(it.id, n)
                if not e2 and d2 and all(rr[0] == "assign" and isinstance(rr[1], ast.Call) and method_name(rr[1]) == "get_children"
                                         for _, rr in d2):
                    continue
            if isinstance(it, ast.Call) and method_name(it) == "get_layer_node_list" and fc.fn.name == "__init__":
                d = get_arg(it, 0, "depth")
                if isinstance(d, ast.Constant) and d.value == 1:
                    continue
            if isinstance(it, ast.Subscript) and isinstance(it.value, ast.Call) and method_name(it.value) == "get_node_list" and \
                    fc.fn.name == "__init__" and isinstance(it.slice, ast.Constant) and it.slice.value == 1:
                continue        # layer 1 right after deepen() in the constructor: the root's fresh children
            return False, "loop over '%s' is not a loop over freshly created children" % src
        elif r[0] == "assign":
            ok, how = fresh_child(ctx, fc, r[1], n, fc_of, depth + 1) if depth < 2 else (False, "too deep")
            if not ok:
                return False, how
        else:
            return False, "unrecognised definition"
    return True, "fresh child"


_DEEPEN_CACHE = {}


def deepen_semantic(model, fc, fn):
    """deepen decided by abstract execution against its contract (deepen_step); the structural reading below is only the
    fall-back when the interpreter meets a construct it does not cover."""
    key = id(model)
    if key not in _DEEPEN_CACHE:
        from .. import deepen_step as DS
        from .. import absint as A
        try:
            ok, how, _ = DS.check(model)
            _DEEPEN_CACHE[key] = (ok, how)
        except (A.Unsupported, AnalysisError) as ex:
            ok2, how2 = deepen_ok(fc, fn)
            _DEEPEN_CACHE[key] = (ok2, how2 if ok2 else "%s (abstract execution not applicable: %s)" % (how2, ex))
    return _DEEPEN_CACHE[key]


def deepen_ok(fc, fn):
    """Partition.deepen: expands every cell of the deepest layer exactly once - the layer being fixed before the
    first expansion (depth read into a local, or a snapshot copy of the layer) - with newlayer true exactly for the
    first cell."""
    body = [s for s in fn.body if not (isinstance(s, ast.Expr) and isinstance(s.value, ast.Constant))]
    loops = [s for s in body if isinstance(s, ast.For)]
    if len(loops) != 1 or body[-1] is not loops[0]:
        return False, "deepen is not a single loop over the deepest layer"
    loop = loops[0]
    pre = body[:-1]
    local = {}
    for s in pre:
        if isinstance(s, ast.Assign) and len(s.targets) == 1 and isinstance(s.targets[0], ast.Name):
            local[s.targets[0].id] = norm_src(s.value)
        else:
            return False, "unexpected statement before the loop: %s" % norm_src(s)
    DEPTH = ("self.depth", "self.get_depth()")

    def is_deepest_layer_expr(src, allow_live):
        """src denotes node_list[<deepest depth>]; allow_live: self.depth may be read in place (only valid before the loop)."""
        for dv, dsrc in list(local.items()):
            if dsrc in DEPTH and src in ("self.node_list[%s]" % dv, "self.get_layer_node_list(%s)" % dv, "self.get_node_list()[%s]" % dv):
                return True
        if allow_live and src in ["self.node_list[%s]" % d for d in DEPTH] + ["self.get_layer_node_list(%s)" % d for d in DEPTH]:
            return True
        return False
    it = norm_src(loop.iter)
    i = parent = None
    if it.startswith("range(len(") and it.endswith("))") and isinstance(loop.target, ast.Name):
        lay = it[len("range(len("):-2]
        if not is_deepest_layer_expr(lay, False):
            return False, "the loop ranges over '%s', which is re-evaluated while self.depth changes" % lay
        i = loop.target.id
        pdef = [s for s in loop.body if isinstance(s, ast.Assign) and norm_src(s.value) == "%s[%s]" % (lay, i)]
        if len(pdef) != 1:
            return False, "loop body does not take parent = %s[%s]" % (lay, i)
        parent = norm_src(pdef[0].targets[0])
    elif it.startswith("enumerate(") and it.endswith(")") and isinstance(loop.target, ast.Tuple) and len(loop.target.elts) == 2:
        lay = it[len("enumerate("):-1]
        i, parent = norm_src(loop.target.elts[0]), norm_src(loop.target.elts[1])
        # the snapshot may be a local taken before the loop, or the copy expression itself (the iterable of a for
        # statement is evaluated once, before the first iteration)
        snap = local.get(lay, lay)
        inner = None
        for w in ("list(", "tuple("):
            if snap.startswith(w) and snap.endswith(")"):
                inner = snap[len(w):-1]
        if snap.endswith("[:]"):
            inner = snap[:-3]
        if inner is None or not is_deepest_layer_expr(inner, True):
            return False, ("the loop iterates '%s', which is not a snapshot of the deepest layer taken before the loop (the live layer list "
                           "would be safe only while no cell is appended to it)" % lay)
    else:
        return False, "loop does not range over the deepest layer"
    calls = calls_in(loop, "make_children")
    if not calls:
        return False, "no expansion in the loop"
    seen = {}
    for c in calls:
        X = get_arg(c, 0, "parent")
        Earg = get_arg(c, 1, "newlayer")
        if norm_src(X) != parent:
            return False, "call %s does not expand the loop's cell" % norm_src(c)
        if isinstance(Earg, ast.Constant) and isinstance(Earg.value, bool):
            at = fc.node_of(c)
            first = None
            for atom, t, lab, e in C.facts_at(fc.cfg, at):
                op, l, r = atom
                if op in ("==", "!=") and tuple(sorted((l, r))) == tuple(sorted(("0", i))):
                    first = (op == "==")
            if first is None or first != Earg.value:
                return False, "newlayer=%s is not tied to 'first cell of the layer' (%s == 0)" % (Earg.value, i)
            seen[Earg.value] = True
        elif Earg is not None and C.atom_of(Earg, True) == ("==", "0", i) or (Earg is not None and C.atom_of(Earg, True)[0] == "==" and
                                                                         set(C.atom_of(Earg, True)[1:]) == {"0", i}):
            if len(calls) != 1 or fc.cfg.guards(fc.node_of(c)):
                return False, "the single expansion call is conditional"
            seen[True] = seen[False] = True
        else:
            return False, "newlayer argument '%s' is not 'first cell of the layer'" % (norm_src(Earg) if Earg is not None else None)
    if set(seen) != {True, False}:
        return False, "both newlayer values must occur"
    if any(isinstance(x, ast.Call) and method_name(x) == "make_children" for s in loop.body for x in ast.walk(s)
           if isinstance(s, (ast.For, ast.While))):
        return False, "expansion inside a nested loop"
    return True, ("deepen expands each cell of the deepest layer (fixed before the loop) once; newlayer is true exactly for the first, whose "
                  "call increments the depth; the cells of the deepest layer are leaves")


# ---------------------------------------------------------------------------
# R03-OWN: who may write links / layers


NODE_LINK_FIELDS = {"children", "parent", "depth", "index", "domain", "c_point"}
PART_FIELDS = {"node_list", "depth", "root", "node", "domain"}
TREE_GETTERS = {"get_node_list", "get_layer_node_list", "get_children"}


def check_own(ctx):
    model = ctx.model
    n_checked = 0
    algo_attr_names = {}
    for c in algo_classes(model):
        node_like = c.name in [x.name for x in model.subclasses("P_node")]
        # attributes of the algorithm object that alias a list of the tree (self.pending = cell.get_children()): a mutation through
        # the attribute, in any method, edits the tree
        attr_aliases = set()
        for fn0 in c.methods.values():
            loc0 = set()
            for n in ast.walk(fn0):
                if isinstance(n, ast.Assign) and len(n.targets) == 1:
                    if isinstance(n.targets[0], ast.Name) and tree_container_expr(n.value, loc0):
                        loc0.add(n.targets[0].id)
                    if is_self_attr(n.targets[0]) and n.targets[0].attr not in ("partition",) and tree_container_expr(n.value, loc0) and \
                            not (isinstance(n.value, ast.Subscript) and isinstance(n.value.value, ast.Name) and n.value.value.id in loc0 and False):
                        # (a subscript of the node list alias that denotes a CELL is not a container: only layer/child-list/node-list values)
                        if not _denotes_cell(n.value, loc0):
                            attr_aliases.add("self." + n.targets[0].attr)
        for fn in c.methods.values():
            qual = "%s.%s" % (c.name, fn.name)
            ctx.fn(qual)
            # local aliases of tree containers
            aliases = set(attr_aliases)
            for n in ast.walk(fn):
                if isinstance(n, ast.Assign) and len(n.targets) == 1 and isinstance(n.targets[0], ast.Name):
                    if tree_container_expr(n.value, aliases):
                        aliases.add(n.targets[0].id)
                if isinstance(n, ast.For) and isinstance(n.target, ast.Name) and tree_container_expr(n.iter, aliases) and \
                        layerlist_expr(n.iter, aliases):
                    aliases.add(n.target.id)
            for n in ast.walk(fn):
                n_checked += 1
                # stores to link fields of cells / partition fields, from algorithm code
                targets = []
                if isinstance(n, ast.Assign):
                    targets = n.targets
                elif isinstance(n, (ast.AugAssign, ast.AnnAssign)):
                    targets = [n.target]
                elif isinstance(n, ast.Delete):
                    targets = n.targets
                for t in targets:
                    for tt in (t.elts if isinstance(t, (ast.Tuple, ast.List)) else [t]):
                        if isinstance(tt, ast.Attribute):
                            recv = tt.value
                            own_self = isinstance(recv, ast.Name) and recv.id == "self"
                            if tt.attr in NODE_LINK_FIELDS and not (own_self and not node_like):
                                # self.depth etc. inside a *node* subclass is also a link write
                                ctx.violation("R03-OWN", c.file, qual, norm_src(n),
                                              "tree link field '%s' is written outside PyXAB/partition" % tt.attr, n.lineno)
                            if is_self_attr(recv, "partition") and tt.attr in PART_FIELDS:
                                ctx.violation("R03-OWN", c.file, qual, norm_src(n),
                                              "partition field '%s' is written outside PyXAB/partition" % tt.attr, n.lineno)
                        if isinstance(tt, ast.Subscript) and tree_container_expr(tt.value, aliases):
                            ctx.violation("R03-OWN", c.file, qual, norm_src(n),
                                          "element store / delete on a list owned by the partition tree", n.lineno)
                        if isinstance(n, ast.AugAssign) and tree_container_expr(tt, aliases):
                            ctx.violation("R03-OWN", c.file, qual, norm_src(n),
                                          "in-place '+=' on a list owned by the partition tree", n.lineno)
                if isinstance(n, ast.Call) and isinstance(n.func, ast.Attribute):
                    if n.func.attr == "update_children":
                        ctx.violation("R03-OWN", c.file, qual, norm_src(n), "update_children called outside PyXAB/partition", n.lineno)
                    if n.func.attr in E.MUTATING_CONTAINER_METHODS and tree_container_expr(n.func.value, aliases):
                        ctx.violation("R03-OWN", c.file, qual, norm_src(n),
                                      "mutating method '%s' on a list owned by the partition tree" % n.func.attr, n.lineno)
    ctx.ob("R03-OWN", True, "PyXAB/algos", "*", "who-may-write scan", "%d AST nodes scanned in PyXAB/algos; writes to tree links, "
           "partition fields and mutations of lists obtained from get_node_list/get_layer_node_list/get_children are reported" % n_checked)
    # positive fixture: the rule must fire on a tiny known-bad snippet on every run
    bad = ast.parse("class A:\n def f(self):\n  nl = self.partition.get_node_list()\n  nl[1].sort()\n  x = nl[0][0]\n  x.children = None\n").body[0]
    hits = 0
    fn = bad.body[0]
    aliases = {"nl"}
    for n in ast.walk(fn):
        if isinstance(n, ast.Call) and isinstance(n.func, ast.Attribute) and n.func.attr in E.MUTATING_CONTAINER_METHODS and \
                tree_container_expr(n.func.value, aliases):
            hits += 1
        if isinstance(n, ast.Assign) and isinstance(n.targets[0], ast.Attribute) and n.targets[0].attr in NODE_LINK_FIELDS:
            hits += 1
    if hits != 2:
        raise AnalysisError("R03-OWN self-check fixture no longer matches (%d hits)" % hits)
    # PyXAB/partition itself: only make_children / __init__ / update_children may write - and private helpers that are called from
    # nowhere else (the abstract step analysis executes them as part of make_children, so their writes are covered by the step
    # obligations): a method name starting with '_' every call site of which, in the analysed packages, lies in an allowed method or
    # in another such helper
    callers = {}
    for c in model.classes.values():
        for fn in c.methods.values():
            for n in ast.walk(fn):
                if isinstance(n, ast.Call) and isinstance(n.func, ast.Attribute):
                    callers.setdefault(n.func.attr, set()).add((c.name, fn.name, c.file))
    for (fl, nm), f0 in model.functions.items():
        for n in ast.walk(f0):
            if isinstance(n, ast.Call) and isinstance(n.func, ast.Attribute):
                callers.setdefault(n.func.attr, set()).add((None, nm, fl))
    growth_internal = set()
    changed = True
    part_private = {fn.name for c in model.classes.values() if c.file.startswith("PyXAB/partition/") for fn in c.methods.values()
                    if fn.name.startswith("_") and not fn.name.startswith("__")}
    while changed:
        changed = False
        for nm in sorted(part_private - growth_internal):
            cs = callers.get(nm, set())
            if all(fl.startswith("PyXAB/partition/") and (m in ("__init__", "make_children", "update_children") or m in growth_internal)
                   for (_c, m, fl) in cs):
                growth_internal.add(nm)
                changed = True
    for c in model.classes.values():
        if not c.file.startswith("PyXAB/partition/"):
            continue
        for fn in c.methods.values():
            if fn.name in ("__init__", "make_children", "update_children"):
                continue
            if fn.name in growth_internal:
                continue        # a private helper reachable only from make_children / __init__ / update_children: part of the step
            qual = "%s.%s" % (c.name, fn.name)
            ctx.fn(qual)
            for n in ast.walk(fn):
                targets = []
                if isinstance(n, ast.Assign):
                    targets = n.targets
                elif isinstance(n, (ast.AugAssign, ast.AnnAssign)):
                    targets = [n.target]
                for t in targets:
                    base = t
                    while isinstance(base, ast.Subscript):
                        base = base.value
                    if isinstance(base, ast.Attribute) and is_self_attr(base) and base.attr in (PART_FIELDS | NODE_LINK_FIELDS):
                        ctx.violation("R03-OWN", c.file, qual, norm_src(n),
                                      "'%s' is written outside __init__/make_children/update_children" % base.attr, n.lineno)
                if isinstance(n, ast.Call) and isinstance(n.func, ast.Attribute) and n.func.attr in E.MUTATING_CONTAINER_METHODS:
                    b = n.func.value
                    while isinstance(b, ast.Subscript):
                        b = b.value
                    if is_self_attr(b) and b.attr in ("node_list", "children"):
                        ctx.violation("R03-OWN", c.file, qual, norm_src(n), "tree container mutated outside make_children", n.lineno)
            # getters must return the stored field itself
    for getter, field, cls in (("get_depth", "depth", "Partition"), ("get_node_list", "node_list", "Partition"),
                               ("get_root", "root", "Partition"), ("get_children", "children", "P_node"),
                               ("get_parent", "parent", "P_node"), ("get_depth", "depth", "P_node"),
                               ("get_index", "index", "P_node")):
        fn = model.method(cls, getter)
        body = [s for s in fn.body if not (isinstance(s, ast.Expr) and isinstance(s.value, ast.Constant))]
        ok = len(body) == 1 and isinstance(body[0], ast.Return) and norm_src(body[0].value) == "self." + field
        ctx.ob("R03-OWN", ok, model.classes[cls].file, "%s.%s" % (cls, getter), "return self.%s" % field,
               "getter returns the stored field" if ok else "getter does not simply return self.%s" % field, fn.lineno)
    fn = model.method("Partition", "get_layer_node_list")
    body = [s for s in fn.body if not (isinstance(s, ast.Expr) and isinstance(s.value, ast.Constant))]
    ok = len(body) == 1 and isinstance(body[0], ast.Return) and norm_src(body[0].value) in ("self.node_list[depth]",)
    ctx.ob("R03-OWN", ok, model.classes["Partition"].file, "Partition.get_layer_node_list", "return self.node_list[depth]",
           "getter returns the layer itself", fn.lineno)
    check_update_children(ctx, "R03-OWN")


def check_update_children(ctx, rule):
    """P_node.update_children replaces the children by exactly the cells of this split (the list it is given, or a copy)."""
    model = ctx.model
    fn = model.method("P_node", "update_children")
    body = [s for s in fn.body if not (isinstance(s, ast.Expr) and isinstance(s.value, ast.Constant))]
    params = [a.arg for a in fn.args.args[1:]]
    ok = len(body) == 1 and isinstance(body[0], ast.Assign) and len(body[0].targets) == 1 and is_self_attr(body[0].targets[0], "children") \
        and len(params) == 1
    if ok:
        v = body[0].value
        if isinstance(v, ast.Call) and isinstance(v.func, ast.Name) and v.func.id == "list" and len(v.args) == 1 and not v.keywords:
            v = v.args[0]
        ok = isinstance(v, ast.Name) and v.id == params[0]
    ctx.ob(rule, ok, model.classes["P_node"].file, "P_node.update_children", "self.children = <the list given>",
           "update_children replaces the children by exactly the cells it is given" if ok else
           "update_children does not simply replace self.children by the cells of this split: %s" % "; ".join(norm_src(b) for b in body)[:200],
           fn.lineno)


def layerlist_expr(e, aliases):
    """e evaluates to the list of layers (so iterating it yields layer lists)."""
    if isinstance(e, ast.Call) and method_name(e) == "get_node_list":
        return True
    if isinstance(e, ast.Attribute) and e.attr == "node_list":
        return True
    if isinstance(e, ast.Name) and e.id in aliases:
        return True
    return False


def _denotes_cell(e, aliases):
    """NL[h][i] / layer[i] / children[i]: an element of a layer or child list is a cell, not a container."""
    if isinstance(e, ast.Subscript) and not isinstance(e.slice, ast.Slice):
        v = e.value
        if isinstance(v, ast.Subscript):
            return True
        if isinstance(v, ast.Call) and method_name(v) in ("get_children", "get_layer_node_list"):
            return True
        if isinstance(v, ast.Attribute) and v.attr == "children":
            return True
    return False


def tree_container_expr(e, aliases):
    """Does `e` evaluate to a list owned by the partition tree (node_list, a layer, a child list)?"""
    if isinstance(e, ast.Call) and method_name(e) in TREE_GETTERS:
        return True
    if isinstance(e, ast.Attribute) and e.attr in ("node_list", "children") and not (
            isinstance(e.value, ast.Name) and e.value.id == "self" and e.attr == "children" and False):
        return True
    if isinstance(e, ast.Name) and e.id in aliases:
        return True
    if is_self_attr(e) and ("self." + e.attr) in aliases:
        return True         # an attribute of the algorithm that was bound to a list of the tree somewhere in the class
    if isinstance(e, ast.Subscript):
        # node_list[h] is a layer (owned); node_list[h][i] is a cell (not a container)
        v = e.value
        if isinstance(v, ast.Call) and method_name(v) in ("get_node_list",):
            return True
        if isinstance(v, ast.Attribute) and v.attr == "node_list":
            return True
        if isinstance(v, ast.Name) and v.id in aliases and not isinstance(e.slice, ast.Slice):
            # alias[h]: a layer if alias is the node list; if alias is already a layer this is a cell
            return True
    return False


def run(ctx):
    n, stats = _partition.feed(ctx, ("R03-",))
    ctx.count("R03 step obligations from abstract make_children runs", n, 2000)
    check_sites(ctx)
    check_own(ctx)
    return dict(
        explanation=(
            "Inductive argument with every lemma decided statically on /repo's current source. BASE: Partition.__init__ "
            "interpreted abstractly gives node_list=[[root]], depth 0, root (0,1,None,domain). STEP (engine E5, %d abstract "
            "runs over all 5 classes, K,d in %s, both newlayer values, every RNG outcome): from a leaf at symbolic (h,i) "
            "exactly the children are linked both ways, labelled K(i-1)+1..Ki, registered once in layer h+1 (one append + one "
            "depth increment when newlayer, one in-place extend at index h+1 otherwise), and the list registered as a layer is "
            "not the child list (ALIAS). CALL SITES: at each of the %d make_children / expand sites the preconditions 'cell is "
            "a leaf' and 'newlayer <=> cell is at the partition's depth' are discharged by a dominating guard, selection under "
            "guard, layer provenance of the cell with an unchanged layer index, lock-step cursor/depth, the traversal-exit "
            "argument (T-HOO) or the arm-map hand-over (Zooming). OWN: nothing in PyXAB/algos writes tree links, partition "
            "fields or mutates lists obtained from the partition. Together these give the invariant for every history; only "
            "the K,d range of the abstract runs is bounded." % (stats["paths"], ctx.extra["abstract_runs"]["ranges"], ctx.call_sites)),
        assumptions=[
            "list += list extends in place; list(x) / x[:] / copy.copy give a fresh list object",
            "user code outside the library does not call make_children on internal cells or edit node_list",
            "name- and field-based call resolution (PyXAB uses no getattr/setattr/eval)",
            "the ask/tell protocol alternates pull and receive_reward (used only by the T-HOO traversal-exit argument)",
        ],
        technique="abstract interpretation (step lemma) + CFG guard/provenance analysis at call sites + who-may-write scan",
    )
