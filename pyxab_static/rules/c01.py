"""C01 - the ask/tell loop is total and every proposed point lies inside the domain.

Decided part (necessary conditions; 'never raises / never hangs' as a whole quantifies over run-time values and
is declined):
  R01-ATTR   protocol definite assignment: along __init__ -> (pull -> receive_reward)* -> get_last_point no method
             reads an instance attribute that is not definitely assigned (AttributeError otherwise); reads of cell
             attributes are assigned by the cell constructor
  R01-PROV   every value returned by pull / get_last_point is, by provenance, a cell representative, an in-cell
             uniform sample, an arm's stored centre or a base learner's proposal - never the result of arithmetic
  R01-INSIDE (from E5) a cell's representative is the midpoint of its box, children lie inside their parent, and
             sample_uniform draws each coordinate between that coordinate's own bounds
"""
import ast

from .. import absint as A
from .. import access as AC
from .. import cfg as C
from .. import effects as E
from .. import partition_step as PS
from ..model import call_name, get_arg, is_self_attr, method_name, strip_doc
from ..report import AnalysisError, norm_src
from . import _partition

PROTOCOL = ["__init__", "pull", "receive_reward", "get_last_point"]
MIN_ALGOS = 14
MIN_RETURNS = 30


def algorithms(model):
    return sorted([c for c in model.subclasses("Algorithm")], key=lambda c: c.name)


# ---------------------------------------------------------------------------
# R01-ATTR


class Attr:
    def __init__(self, ctx, cls, eff):
        self.ctx, self.cls, self.model = ctx, cls, ctx.model
        self.acc = AC.Access(ctx.model, eff, cls.name)
        self.problems = {}     # attr -> list of (qual, node, line)
        self.visited = set()

    def self_reads(self, n, g, per):
        """self.<attr> locations read directly at CFG node n (not through own-method calls)."""
        out = set()
        for r in E.node_exprs(n):
            skip = set()
            if isinstance(n.ast, ast.AugAssign) and r is n.ast:
                # target of an augmented assignment is read
                if is_self_attr(n.ast.target):
                    out.add("self." + n.ast.target.attr)
            for x in ast.walk(r):
                if is_self_attr(x) and isinstance(x.ctx, ast.Load):
                    if self.model.lookup(self.cls.name, x.attr)[1] is not None:
                        continue
                    out.add("self." + x.attr)
        return out

    def own_calls(self, n):
        out = []
        for r in E.node_exprs(n):
            for x in ast.walk(r):
                if isinstance(x, ast.Call) and isinstance(x.func, ast.Attribute) and isinstance(x.func.value, ast.Name) \
                        and x.func.value.id == "self":
                    o, fn = self.model.lookup(self.cls.name, x.func.attr)
                    if fn is not None:
                        out.append(fn)
        return out

    def check(self, fn, entry):
        """Walk fn with `entry` definitely assigned; report reads outside; returns nothing."""
        key = (id(fn), frozenset(entry))
        if key in self.visited:
            return
        self.visited.add(key)
        qual = "%s.%s" % (self.cls.name, fn.name)
        self.ctx.fn(qual)
        g, per = self.acc.per_node(fn, "algo")
        MW = self.acc.must_written(g, per)
        reach = g.reachable_nodes()
        for n in g.nodes:
            if n not in reach or n.ast is None:
                continue
            have = entry | MW.get(n, set())
            for loc in sorted(self.self_reads(n, g, per)):
                if loc not in have:
                    self.problems.setdefault(loc, []).append((qual, n, n.line))
            for callee in self.own_calls(n):
                self.check(callee, frozenset(have))

    def must_at_exit(self, fn, value_returns_only=False):
        g, per = self.acc.per_node(fn, "algo")
        MW = self.acc.must_written(g, per)
        if value_returns_only:
            rets = [r for r in g.returns if r.ast.value is not None]
            if rets:
                sets = [MW.get(r, set()) | per[r][2] for r in rets]
                return set.intersection(*sets)
        return MW.get(g.exit, set())


def discriminator_ok(ctx, cls, attr, problems, fcs):
    """Guarded-by-discriminator refinement (see DESIGN 4-C01): returns (G, v0) or None."""
    model = ctx.model
    init = model.lookup(cls.name, "__init__")[1]
    consts = {}
    for s in ast.walk(init):
        if isinstance(s, ast.Assign) and len(s.targets) == 1 and is_self_attr(s.targets[0]) and isinstance(s.value, ast.Constant):
            consts[s.targets[0].attr] = repr(s.value.value)
    a = attr[len("self."):]
    for G, v0 in consts.items():
        ok = True
        # (2) every read of A anywhere in the class is dominated by G != v0
        for fn in cls.methods.values():
            g = C.CFG(fn)
            for n in g.nodes:
                if n.ast is None:
                    continue
                reads = False
                for r in E.node_exprs(n):
                    for x in ast.walk(r):
                        if is_self_attr(x, a) and (isinstance(x.ctx, ast.Load) or isinstance(n.ast, ast.AugAssign) and n.ast.target is x):
                            reads = True
                if not reads:
                    continue
                want = tuple(sorted((v0, "self." + G)))
                facts = C.facts_at(g, n)
                if not any(op == "!=" and tuple(sorted((l, r))) == want for (op, l, r), t, lab, e in facts):
                    ok = False
        if not ok:
            continue
        # (3) every store to G outside __init__ sits next to a store to A
        n_st = 0
        for fn in cls.methods.values():
            if fn.name == "__init__":
                continue
            for body in _stmt_lists(fn):
                for i, s in enumerate(body):
                    if _stores(s, G):
                        n_st += 1
                        near = [t for t in body[max(0, i - 2):i + 3] if _stores(t, a)]
                        if not near:
                            ok = False
        if ok and n_st:
            return G, v0
    return None


def _stmt_lists(fn):
    for n in ast.walk(fn):
        for f in ("body", "orelse"):
            b = getattr(n, f, None)
            if isinstance(b, list) and b and isinstance(b[0], ast.stmt):
                yield b


def _stores(s, attr):
    tg = []
    if isinstance(s, ast.Assign):
        tg = s.targets
    elif isinstance(s, (ast.AugAssign, ast.AnnAssign)):
        tg = [s.target]
    return any(is_self_attr(t, attr) for t in tg)


def node_init_fields(model, node_cls):
    """Attributes definitely assigned by the cell constructor chain (top-level statements of __init__s)."""
    out = set()
    for c in model.mro(node_cls):
        init = c.methods.get("__init__")
        if init is None:
            continue
        for s in init.body:
            if isinstance(s, ast.Assign):
                for t in s.targets:
                    if is_self_attr(t):
                        out.add(t.attr)
    return out


def check_attr(ctx):
    model = ctx.model
    eff = E.Effects(model)
    algos = algorithms(model)
    ctx.count("R01-ATTR Algorithm subclasses", len(algos), MIN_ALGOS)
    for cls in algos:
        for m in PROTOCOL:
            if model.lookup(cls.name, m)[1] is None:
                raise AnalysisError("%s.%s missing" % (cls.name, m))
        at = Attr(ctx, cls, eff)
        init = model.lookup(cls.name, "__init__")[1]
        pull = model.lookup(cls.name, "pull")[1]
        rr = model.lookup(cls.name, "receive_reward")[1]
        glp = model.lookup(cls.name, "get_last_point")[1]
        # attributes bound at class level (in the class body of the class or of a base) exist on every instance from the start
        class_level = set()
        for k in model.mro(cls.name):
            for st in k.node.body:
                tg = st.targets if isinstance(st, ast.Assign) else ([st.target] if isinstance(st, ast.AnnAssign) and st.value is not None else [])
                for t in tg:
                    if isinstance(t, ast.Name):
                        class_level.add("self." + t.id)
        at.check(init, frozenset(class_level))
        D0 = at.must_at_exit(init) | class_level
        at.check(pull, frozenset(D0))
        D1 = D0 | at.must_at_exit(pull, value_returns_only=True)
        at.check(rr, frozenset(D1))
        D2 = D1 | at.must_at_exit(rr)
        at.check(glp, frozenset(D2))
        ctx.ob("R01-ATTR", True, cls.file, cls.name, "protocol walk",
               "definitely assigned after __init__: %d attribute(s); after a value-returning pull: +%d; after receive_reward: +%d"
               % (len(D0), len(D1 - D0), len(D2 - D1)), cls.node.lineno)
        for loc, sites in sorted(at.problems.items()):
            disc = discriminator_ok(ctx, cls, loc, sites, None)
            wh = "; ".join(sorted({"%s line %s" % (q, ln) for q, n, ln in sites}))
            if disc is not None:
                ctx.ob("R01-ATTR", True, cls.file, cls.name, loc,
                       "not definitely assigned, but every read is guarded by self.%s != %s and every change of self.%s comes with "
                       "an assignment of %s (guarded-by-discriminator)" % (disc[0], disc[1], disc[0], loc), sites[0][2])
            else:
                ctx.ob("R01-ATTR", False, cls.file, cls.name, loc,
                       "%s may be read before it is assigned along __init__ -> (pull -> receive_reward)* -> get_last_point: read at %s "
                       "(AttributeError on that path)" % (loc, wh), sites[0][2])
        # reads of cell attributes
        ncls = model.node_class_of_algo(cls.name) if "__init__" in cls.methods else None
        if ncls in model.classes:
            have = node_init_fields(model, ncls)
            acc = at.acc
            for m in PROTOCOL[1:]:
                fn = model.lookup(cls.name, m)[1]
                R, W, _ = acc.summary(fn, "algo")
                for loc in sorted(R):
                    if loc.startswith("NODE."):
                        a = loc[5:]
                        ctx.ob("R01-ATTR", a in have, cls.file, "%s.%s" % (cls.name, m), "cell attribute .%s" % a,
                               "assigned by %s.__init__" % ncls if a in have else
                               "cell attribute .%s is read but the cell constructor chain of %s does not assign it" % (a, ncls), fn.lineno)


# ---------------------------------------------------------------------------
# R01-PROV


OK_POINT_METHODS = {"get_cpoint", "sample_uniform", "get_point"}


class Prov:
    def __init__(self, ctx, cls):
        self.ctx, self.cls, self.model = ctx, cls, ctx.model
        self.busy = set()

    def learner(self, e):
        return AC.learner_expr(e, None, self.model)

    def prov(self, e, fn, depth=0):
        """(ok, why) for expression e evaluated inside fn."""
        if depth > 8:
            return False, "provenance chain too deep"
        if isinstance(e, ast.Constant) and e.value is None:
            return True, "None (no point yet)"
        if isinstance(e, ast.Call) and isinstance(e.func, ast.Attribute):
            m = e.func.attr
            recv = e.func.value
            if m in OK_POINT_METHODS:
                return True, "%s()" % m
            if m in ("pull", "get_last_point"):
                if self.learner(recv):
                    return True, "proposal of a base learner"
                if isinstance(recv, ast.Name) and recv.id == "self":
                    return True, "own %s()" % m
            return False, "result of %s(), which is not a point getter" % norm_src(e.func)
        if isinstance(e, ast.Name):
            defs = []
            for n in ast.walk(fn):
                if isinstance(n, ast.Assign):
                    for t in n.targets:
                        if isinstance(t, ast.Name) and t.id == e.id:
                            defs.append(n.value)
                        elif isinstance(t, (ast.Tuple, ast.List)) and any(isinstance(x, ast.Name) and x.id == e.id for x in t.elts):
                            return False, "'%s' is unpacked from %s" % (e.id, norm_src(n.value))
                elif isinstance(n, (ast.AugAssign,)) and isinstance(n.target, ast.Name) and n.target.id == e.id:
                    return False, "'%s' is modified in place (%s)" % (e.id, norm_src(n))
                elif isinstance(n, ast.For) and any(isinstance(x, ast.Name) and x.id == e.id for x in ast.walk(n.target)):
                    return False, "'%s' is a loop variable" % e.id
            if not defs:
                return False, "'%s' has no definition in %s" % (e.id, fn.name)
            for d in defs:
                ok, why = self.prov(d, fn, depth + 1)
                if not ok:
                    return False, "%s = %s: %s" % (e.id, norm_src(d), why)
            return True, "local copy of a point"
        if is_self_attr(e) or (isinstance(e, ast.Subscript) and is_self_attr(e.value)):
            attr = e.attr if is_self_attr(e) else e.value.attr
            key = ("attr", attr)
            if key in self.busy:
                return True, "(recursive)"
            self.busy.add(key)
            try:
                stores = 0
                for f2 in self.cls.methods.values():
                    for n in ast.walk(f2):
                        vals = []
                        if isinstance(n, ast.Assign):
                            for t in n.targets:
                                if is_self_attr(t, attr):
                                    vals.append(n.value)
                                if isinstance(t, ast.Subscript) and is_self_attr(t.value, attr):
                                    vals.append(n.value)
                        elif isinstance(n, ast.AugAssign) and (is_self_attr(n.target, attr) or
                                                                 isinstance(n.target, ast.Subscript) and is_self_attr(n.target.value, attr)):
                            return False, "self.%s is modified in place (%s)" % (attr, norm_src(n))
                        elif isinstance(n, ast.Call) and isinstance(n.func, ast.Attribute) and is_self_attr(n.func.value, attr):
                            if n.func.attr in ("append", "insert"):
                                vals.append(n.args[-1])
                            elif n.func.attr in E.MUTATING_CONTAINER_METHODS:
                                return False, "self.%s is mutated by %s" % (attr, n.func.attr)
                        for v in vals:
                            if isinstance(v, (ast.List, ast.Dict)) and not getattr(v, "elts", getattr(v, "keys", [])):
                                continue     # empty container
                            stores += 1
                            ok, why = self.prov(v, f2, depth + 1)
                            if not ok:
                                return False, "self.%s <- %s in %s: %s" % (attr, norm_src(v), f2.name, why)
                if not stores:
                    return False, "self.%s is never given a point" % attr
                return True, "attribute that only ever holds points (%d store(s))" % stores
            finally:
                self.busy.discard(key)
        if isinstance(e, ast.IfExp):
            a = self.prov(e.body, fn, depth + 1)
            b = self.prov(e.orelse, fn, depth + 1)
            return (a[0] and b[0]), "%s / %s" % (a[1], b[1])
        if isinstance(e, ast.Call) and isinstance(e.func, ast.Name) and e.func.id in ("list", "tuple") and len(e.args) == 1:
            return self.prov(e.args[0], fn, depth + 1)
        return False, "'%s' is computed (%s), not taken from a cell or learner" % (norm_src(e), type(e).__name__)


def check_prov(ctx):
    model = ctx.model
    n = 0
    for cls in algorithms(model):
        P = Prov(ctx, cls)
        for m in ("pull", "get_last_point"):
            fn = model.lookup(cls.name, m)[1]
            qual = "%s.%s" % (cls.name, m)
            ctx.fn(qual)
            for r in ast.walk(fn):
                if isinstance(r, ast.Return) and r.value is not None:
                    n += 1
                    ok, why = P.prov(r.value, fn)
                    ctx.ob("R01-PROV", ok, cls.file, qual, norm_src(r),
                           why if ok else "returned value is not (provably) a cell representative / in-cell sample / learner proposal: %s" % why,
                           r.lineno)
    ctx.count("R01-PROV value returns in pull/get_last_point", n, MIN_RETURNS)


# ---------------------------------------------------------------------------
# R01-INSIDE: sample_uniform via E5


def check_sample_uniform(ctx):
    model = ctx.model
    found = 0
    for c in model.classes.values():
        if "sample_uniform" not in c.methods or c.name not in [x.name for x in model.subclasses("P_node")]:
            continue
        found += 1
        fn = c.methods["sample_uniform"]
        qual = "%s.sample_uniform" % c.name
        ctx.fn(qual)
        for d in (1, 2, 3):
            I = A.Interp(model, ())
            lo = [A.atom("lo%d" % k, real=True) for k in range(d)]
            hi = [A.atom("hi%d" % k, real=True) for k in range(d)]
            dom = A.AList([A.AList([lo[k], hi[k]]) for k in range(d)])
            I.input_ids = {id(dom)} | {id(x) for x in dom}
            for k in range(d):
                I.facts.append((lo[k].sym, hi[k].sym))
            node = A.Obj(c.name, depth=0, index=1, parent=None, children=None, domain=dom, c_point=None)
            try:
                res = I.call_function(fn, node, [], {}, owner=c.name)
            except A.PathCrash as ex:
                ctx.violation("R01-INSIDE", c.file, qual, "sample_uniform d=%d" % d, "raises: %s" % ex, fn.lineno)
                continue
            except AnalysisError as ex:
                ctx.violation("R01-INSIDE", c.file, qual, "sample_uniform d=%d" % d,
                              "cannot establish that each coordinate is drawn between its own bounds: %s" % ex, fn.lineno)
                continue
            order = A.Order(I.facts)
            ok = isinstance(res, list) and len(res) == d and all(isinstance(x, A.Num) for x in res)
            if ok:
                for k in range(d):
                    ok &= order.leq(lo[k].sym, res[k].sym) and order.leq(res[k].sym, hi[k].sym)
            mut = [e for e in I.events if e[0] == "mutate-input"]
            ctx.ob("R01-INSIDE", ok and not mut, c.file, qual, "sample_uniform returns d coordinates, each within its own bounds (d=%d)" % d,
                   "result %s" % ([getattr(x, "sym", x) for x in res] if isinstance(res, list) else res,), fn.lineno)
    ctx.count("R01-INSIDE sample_uniform implementations", found, 1)


def check_schedule_constants(ctx):
    """Necessary for totality of the cross-validation stage of StroquOOL: every p in 0..p_max must find a searched
    cell with at least 2^p evaluations (else the candidate is None and the next pull raises).  The root's
    children are evaluated h_max times each, so 2^p_max <= h_max is required: p_max = floor(log2(h_max)) - the
    published constant - is the largest such value.  Same for the schedule constants h_max it is derived from."""
    import sympy as sp
    from .. import summary as SM
    from .. import symx as SX
    from . import c12
    model = ctx.model
    c = model.cls("StroquOOL")
    init = model.own_method("StroquOOL", "__init__")
    ctx.fn("StroquOOL.__init__")
    hs = model.own_method("StroquOOL", "harmonic_series_sum")
    ok, why = c12.harmonic_ok(hs)
    ctx.ob("R01-FORM", ok, c.file, "StroquOOL.harmonic_series_sum", "H_n = sum_{i=1..n} 1/i", why, hs.lineno)
    Sm = SM.Summarizer(model, "StroquOOL")
    ps = [p for p in Sm.run(init) if not p.raises]
    T = Sm.T
    n = T.sym("n")
    H = None
    for p in ps:
        hm = p.stores.get("h_max")
        pm = p.stores.get("p_max")
        Hn = [a for a in (hm.atoms(sp.Function) if hm is not None else []) if "harmonic_series_sum" in str(a.func)]
        okh = hm is not None and len(Hn) == 1 and SX.equivalent(hm, sp.floor(n / (2 * (Hn[0] + 1) ** 2)))[0] is True
        ctx.ob("R01-FORM", okh, c.file, "StroquOOL.__init__", "h_max = floor(n / (2 (H_n + 1)^2))", "%s" % hm, init.lineno)
        okp = pm is not None and hm is not None and SX.equivalent(pm, sp.floor(sp.log(hm) / sp.log(2)))[0] is True
        ctx.ob("R01-FORM", okp, c.file, "StroquOOL.__init__", "p_max = floor(log2(h_max)) (so that 2^p_max <= h_max: every validation level has a candidate)",
               "%s" % pm, init.lineno)


PARAM_BOX = {
    "visited_times": ("1", "1e9"), "nu": ("1e-6", "1e6"), "rho": ("1e-6", "0.999999999"), "c": ("1e-6", "1e6"),
    "delta_tilde": ("1e-300", "1"), "bound": ("1e-6", "1e6"), "variance": ("1e-3", "1e12"), "minvariance": ("1e-3", "1e-3"),
    "rounds": ("2", "1e12"), "depth": ("0", "200"), "n": ("1", "1e9"), "k": ("1", "1e9"), "delta": ("1e-12", "0.999999999999"),
    "c1": ("1e-9", "1e9"), "iteration": ("1", "1e12"), "reward": ("-1e12", "1e12"), "mean_reward": ("-1e12", "1e12"),
}


def _box_for(expr):
    import sympy as sp
    from mpmath import iv
    from .. import symx as SX
    box = {}
    for sym in expr.free_symbols:
        if sym.name in PARAM_BOX:
            lo, hi = PARAM_BOX[sym.name]
            box[sym] = iv.mpf([lo, hi])
        else:
            box[sym] = iv.mpf(["-1e12", "1e12"])
    # opaque list functions (sum of rewards etc.) range over the reals
    reps = {}
    for f in expr.atoms(sp.core.function.AppliedUndef):
        s2 = sp.Symbol("F%d" % len(reps), real=True)
        reps[f] = s2
        name = f.func.__name__
        if name == "LEN":
            box[s2] = iv.mpf(["1", "1e9"])
        elif name == "VAR":
            box[s2] = iv.mpf(["0", "1e12"])
        else:
            box[s2] = iv.mpf(["-1e12", "1e12"])
    return expr.xreplace(reps), box, reps


def _domain_obligations(expr):
    """Sub-terms whose argument must lie in a function's domain: (kind, argument)."""
    import sympy as sp
    out = []
    for sub in sp.preorder_traversal(expr):
        if sub.func is sp.log:
            out.append(("log", sub.args[0]))
        elif sub.is_Pow and sub.args[1].is_Rational and not sub.args[1].is_Integer:
            out.append(("root", sub.args[0]))
        elif sub.is_Pow and sub.args[1].is_number and sub.args[1] < 0:
            out.append(("denominator", sub.args[0]))
    return out


def check_domains(ctx):
    """R01-DOMAIN: under the documented parameter ranges the arguments of log / sqrt / divisions in the index and
    threshold formulas stay inside the functions' domains (math.sqrt/math.log raise otherwise), and the
    confidence level delta~ handed to them never exceeds 1 (log(1/delta~) >= 0)."""
    import sympy as sp
    from mpmath import iv
    from .. import ival as IV
    from .. import summary as SM
    from .. import symx as SX
    model = ctx.model
    n = 0
    # (1) delta~ at every site that computes it
    for algo in ("HCT", "VHCT"):
        c = model.cls(algo)
        for fn in c.methods.values():
            if not any(isinstance(s, ast.Assign) and norm_src(s.targets[0]) == "delta_tilde" for s in ast.walk(fn)):
                continue
            qual = "%s.%s" % (algo, fn.name)
            ctx.fn(qual)
            Sm = SM.Summarizer(model, algo)
            Sm.skip_loops = True
            ps = Sm.run(fn)
            states = [st2 for (_, st2) in Sm.at_loop] + ps
            vals = {str(p.locals.get("delta_tilde")): p.locals.get("delta_tilde") for p in states if p.locals.get("delta_tilde") is not None}
            for txt, v in vals.items():
                n += 1
                e2, box, reps = _box_for(v)
                try:
                    r = IV.ieval(e2, box)
                    ok = r.a > 0 and r.b <= 1
                    why = "delta~ in (%s, %s] for every delta in (0,1), t >= 1" % (r.a, r.b) if ok else \
                        "delta~ = %s ranges over [%s, %s]: it can exceed 1, then log(1/delta~) < 0 and the square root in the index raises" % (
                            txt, r.a, r.b)
                except report_AnalysisError() as ex:
                    ok, why = False, "cannot enclose delta~ = %s (%s)" % (txt, ex)
                ctx.ob("R01-DOMAIN", ok, c.file, qual, "delta_tilde = %s" % txt[:80], why, fn.lineno)
    # (2) the formulas themselves
    targets = [("HOO_node", "compute_u_value"), ("HCT_node", "compute_u_value"), ("VHCT_node", "compute_u_value"),
               ("VHCT_node", "compute_tau_hi_value"), ("StoSOO_node", "compute_b_value")]
    for ncls, meth in targets:
        if ncls not in model.classes or meth not in model.classes[ncls].methods:
            continue
        c = model.cls(ncls)
        fn = c.methods[meth]
        qual = "%s.%s" % (ncls, meth)
        ctx.fn(qual)
        Sm = SM.Summarizer(model, ncls)
        for p in Sm.run(fn):
            if ("self.visited_times == 0", True) in p.conds:
                continue
            for a, v in p.stores.items():
                for kind, arg in _domain_obligations(v):
                    n += 1
                    e2, box, reps = _box_for(arg)
                    try:
                        r = IV.ieval(e2, box)
                        ok = r.a >= 0 if kind == "root" else r.a > 0
                        why = "%s argument in [%s, %s]" % (kind, r.a, r.b)
                    except report_AnalysisError() as ex:
                        ok, why = False, "cannot enclose the %s argument %s (%s)" % (kind, arg, ex)
                    ctx.ob("R01-DOMAIN", ok, c.file, qual, "self.%s: %s(%s)" % (a, kind, str(arg)[:70]),
                           why if ok else why + ": for documented parameters the %s can leave its domain (ValueError / nan)" % kind, fn.lineno)
    ctx.count("R01-DOMAIN domain obligations", n, 10)


def report_AnalysisError():
    from ..report import AnalysisError as AE
    return AE


def check_reco_total(ctx):
    """R01-RECO: a recommendation computed by a fold over a non-empty candidate set with a None-initialised winner must
    not be able to skip every candidate: the fold has no filter (else get_last_point can return None / raise)."""
    from .. import idioms as ID
    model = ctx.model
    for name in ("DOO", "SOO", "SequOOL", "StoSOO", "StroquOOL"):
        cls = model.cls(name)
        fn = model.own_method(name, "get_last_point")
        folds = ID.find_folds(fn)
        for f in folds:
            ctx.ob("R01-RECO", not f.filters, cls.file, "%s.get_last_point" % name, "recommendation fold over %s" % f.set_src,
                   "no candidate can be skipped: the winner is set as soon as one candidate exists" if not f.filters else
                   "candidates are filtered by %s: when every candidate is filtered out the winner stays None and get_last_point "
                   "returns None / raises" % f.filters, f.if_node.lineno)


def check_none_returns(ctx):
    """R01-NONE: pull must return a point.  An attribute that the constructor sets to None may be returned by pull only
    where a store of a point into it dominates the return inside pull; otherwise the protocol admits a round in
    which pull returns the constructor's None (path-insensitive: a report here needs a demonstration to be a
    defect - see known_findings.json)."""
    model = ctx.model
    eff = E.Effects(model)
    from .. import callsites as CS
    for cls in algorithms(model):
        init = model.lookup(cls.name, "__init__")[1]
        none_attrs = {s.targets[0].attr for s in ast.walk(init) if isinstance(s, ast.Assign) and len(s.targets) == 1 and
                      is_self_attr(s.targets[0]) and isinstance(s.value, ast.Constant) and s.value.value is None}
        if not none_attrs:
            continue
        pull = model.lookup(cls.name, "pull")[1]
        if model.classes.get(cls.name) and "pull" not in cls.methods:
            continue
        fc = CS.FnCtx(model, eff, cls.name, pull)
        bad = {}
        for r in [x for x in ast.walk(pull) if isinstance(x, ast.Return) and x.value is not None]:
            at = fc.cfg.node_of(r)
            v = r.value
            cands = []
            if is_self_attr(v):
                cands = [(v.attr, at)]
            elif isinstance(v, ast.Name):
                ds, entry = fc.reaching(v.id, at)
                for n, rr in ds:
                    if rr[0] == "assign" and is_self_attr(rr[1]):
                        cands.append((rr[1].attr, n))
            for attr, where in cands:
                if attr not in none_attrs:
                    continue
                stores = [n for n, rr in fc.defs_of("self." + attr) if not (rr[0] == "assign" and isinstance(rr[1], ast.Constant) and rr[1].value is None)]
                if not any(fc.cfg.dominates(n, where) for n in stores):
                    bad.setdefault(attr, []).append(r.lineno)
        for attr in sorted(none_attrs):
            if attr in bad:
                ctx.ob("R01-NONE", False, cls.file, "%s.pull" % cls.name, "self.%s" % attr,
                       "pull can return self.%s on a path (return at line %s) on which no point has been stored into it since the "
                       "constructor set it to None" % (attr, sorted(set(bad[attr]))), bad[attr][0])
            elif any(is_self_attr(x, attr) for x in ast.walk(pull)):
                ctx.ob("R01-NONE", True, cls.file, "%s.pull" % cls.name, "self.%s" % attr,
                       "wherever pull returns self.%s a point was stored into it earlier in the same call (or it is not returned)" % attr, pull.lineno)


def import_eval(ctx):
    """SequOOL.get_last_point reads the first reward of every searched cell: a cell must not enter `chosen` before
    it is handed out (IndexError otherwise) - C07's R07-EVAL obligations for SequOOL, re-reported."""
    from ..report import Ctx
    from . import c07
    tmp = Ctx(ctx.prop, ctx.tier, ctx.seed, ctx.model)
    cls = ctx.model.cls("SequOOL")
    c07.check_eval(tmp, cls, None)
    for o in tmp.obligations:
        ctx.obligations.append(dict(o, rule="R01-EVAL"))
    for f in tmp.findings:
        ctx.add_finding("R01-EVAL", f.file, f.qual, f.construct, f.why, f.line)
    ctx.shortfalls += tmp.shortfalls


def import_wrappers(ctx):
    """POO / GPO (PCT, VPCT) must be able to build a learner for every base algorithm their constructors accept: the
    family-coverage obligation of C09 / C10, re-reported (a missing branch leaves None where a learner is expected)."""
    from ..report import Ctx
    from . import c09
    for cls in ("POO", "GPO"):
        tmp = Ctx(ctx.prop, ctx.tier, ctx.seed, ctx.model)
        try:
            c09.check_learner_construction(tmp, cls, "R01-WRAP")
        except AnalysisError as ex:
            ctx.violation("R01-WRAP", ctx.model.cls(cls).file, "%s.pull" % cls, "learner construction", str(ex))
            continue
        for o in tmp.obligations:
            if "constructor branch" in o.get("construct", o.get("what", "")):
                ctx.obligations.append(dict(o, rule="R01-WRAP"))
        for f in tmp.findings:
            if "constructor branch" in f.construct:
                ctx.add_finding("R01-WRAP", f.file, f.qual, f.construct, "no constructor branch for some accepted base algorithm (%s): the learner slot stays "
                                "empty and the next pull fails" % f.why, f.line)


def check_orderings(ctx):
    """R01-ORDER: max/min/sorted/.sort() without key= over tuples that contain a cell (or any loop element) itself: on a tie in
    the leading components Python compares the cells, which define no ordering -> TypeError for tied rewards."""
    model = ctx.model
    n = 0
    for c in model.classes.values():
        if not c.file.startswith(("PyXAB/algos/", "PyXAB/partition/")):
            continue
        for fn in c.methods.values():
            qual = "%s.%s" % (c.name, fn.name)
            for call in ast.walk(fn):
                if not isinstance(call, ast.Call):
                    continue
                name = call_name(call)
                is_sort = isinstance(call.func, ast.Attribute) and call.func.attr == "sort"
                if not (name in ("max", "min", "sorted", "np.max", "np.min", "np.argmax", "np.argmin", "np.sort", "np.argsort") or is_sort):
                    continue
                if any(k.arg == "key" for k in call.keywords):
                    continue
                arg = call.func.value if is_sort else (call.args[0] if call.args else None)
                if arg is None:
                    continue
                # resolve a local built by a comprehension / list display just before
                comps = []
                if isinstance(arg, (ast.ListComp, ast.GeneratorExp, ast.SetComp)):
                    comps.append(arg)
                elif isinstance(arg, ast.Name):
                    for s in ast.walk(fn):
                        if isinstance(s, ast.Assign) and any(isinstance(t, ast.Name) and t.id == arg.id for t in s.targets) and \
                                isinstance(s.value, (ast.ListComp, ast.GeneratorExp)):
                            comps.append(s.value)
                        if isinstance(s, ast.Expr) and isinstance(s.value, ast.Call) and isinstance(s.value.func, ast.Attribute) and \
                                s.value.func.attr == "append" and norm_src(s.value.func.value) == arg.id and s.value.args and \
                                isinstance(s.value.args[0], ast.Tuple):
                            comps.append(s.value.args[0])
                for comp in comps:
                    n += 1
                    elt = comp.elt if not isinstance(comp, ast.Tuple) else comp
                    if not isinstance(elt, ast.Tuple):
                        ctx.ob("R01-ORDER", True, c.file, qual, norm_src(call)[:80], "elements are not tuples", call.lineno, nontrivial=False)
                        continue
                    elem_vars = set()
                    if not isinstance(comp, ast.Tuple):
                        for g in comp.generators:
                            it = g.iter
                            if isinstance(it, ast.Call) and call_name(it) == "range":
                                continue
                            if isinstance(it, ast.Call) and call_name(it) == "enumerate" and isinstance(g.target, ast.Tuple) and len(g.target.elts) == 2:
                                elem_vars |= {x.id for x in ast.walk(g.target.elts[1]) if isinstance(x, ast.Name)}
                                continue
                            elem_vars |= {x.id for x in ast.walk(g.target) if isinstance(x, ast.Name)}
                    else:
                        # appended tuple inside a for loop: the loop's element variables
                        p = model.up(comp)
                        while p is not None and p is not fn:
                            if isinstance(p, ast.For) and not (isinstance(p.iter, ast.Call) and call_name(p.iter) == "range"):
                                tg = p.target.elts[1] if isinstance(p.iter, ast.Call) and call_name(p.iter) == "enumerate" and \
                                    isinstance(p.target, ast.Tuple) and len(p.target.elts) == 2 else p.target
                                elem_vars |= {x.id for x in ast.walk(tg) if isinstance(x, ast.Name)}
                            p = model.up(p)
                    bad = [e for e in elt.elts[1:] + elt.elts[:1] if isinstance(e, ast.Name) and e.id in elem_vars]
                    bad = [e for e in bad if e is not elt.elts[0] or len(elt.elts) == 1] or ([elt.elts[0]] if isinstance(elt.elts[0], ast.Name) and
                                                                                             elt.elts[0].id in elem_vars else [])
                    ctx.ob("R01-ORDER", not bad, c.file, qual, norm_src(call)[:80],
                           "tuples of numbers only" if not bad else
                           "orders tuples that contain the element '%s' itself: when the leading components tie (equal rewards) the cells are "
                           "compared and `<` between cells raises TypeError" % norm_src(bad[0]), call.lineno)
    ctx.extra["ordering_calls_examined"] = n
    # fixture: the rule must fire on the known-bad shape
    fx = ast.parse("def f(nodes):\n    return max([(n.m(), n) for n in nodes])[1]\n").body[0]
    comp = fx.body[0].value.value.args[0]
    ev = {x.id for g in comp.generators for x in ast.walk(g.target) if isinstance(x, ast.Name)}
    if not [e for e in comp.elt.elts if isinstance(e, ast.Name) and e.id in ev]:
        raise AnalysisError("R01-ORDER self-check fixture no longer matches")


def check_protocol_calls(ctx):
    """R01-SIG: a wrapper drives its base learners through pull / receive_reward / get_last_point; every such call on a learner must
    bind against the signature of EACH base algorithm the wrapper accepts (T_HOO, HCT, VHCT): right number of positional arguments,
    every keyword a parameter name - otherwise the call raises TypeError for that base algorithm only."""
    model = ctx.model
    bases = [b for b in ("T_HOO", "HCT", "VHCT") if b in model.classes]
    n = 0
    for w in ("POO", "GPO"):
        if w not in model.classes:
            continue
        c = model.cls(w)
        for fn in c.methods.values():
            for call in ast.walk(fn):
                if not (isinstance(call, ast.Call) and isinstance(call.func, ast.Attribute) and call.func.attr in PROTOCOL[1:]):
                    continue
                recv = call.func.value
                if isinstance(recv, ast.Name) and recv.id in ("self", "super"):
                    continue
                if isinstance(recv, ast.Call) and isinstance(recv.func, ast.Name) and recv.func.id == "super":
                    continue
                if any(isinstance(a, ast.Starred) for a in call.args) or any(k.arg is None for k in call.keywords):
                    continue
                n += 1
                bad = []
                for b in bases:
                    o, m = model.lookup(b, call.func.attr)
                    if m is None:
                        bad.append("%s has no %s" % (b, call.func.attr))
                        continue
                    params = [a.arg for a in m.args.args][1:]
                    ndef = len(m.args.defaults)
                    required = params[:len(params) - ndef] if ndef else params
                    kws = [k.arg for k in call.keywords]
                    if len(call.args) > len(params) and not m.args.vararg:
                        bad.append("%s.%s takes %d argument(s)" % (b, m.name, len(params)))
                    unknown = [k for k in kws if k not in params and not m.args.kwarg]
                    if unknown:
                        bad.append("%s.%s has no parameter %s (its parameters: %s)" % (b, m.name, unknown, params))
                    bound = set(params[:len(call.args)]) | set(kws)
                    missing = [p_ for p_ in required if p_ not in bound]
                    if missing and not unknown:
                        bad.append("%s.%s is called without %s" % (b, m.name, missing))
                ctx.ob("R01-SIG", not bad, c.file, "%s.%s" % (w, fn.name), norm_src(call),
                       "binds against %s" % ", ".join(bases) if not bad else "; ".join(bad) + " - TypeError when that base algorithm is used", call.lineno)
    ctx.count("R01-SIG learner protocol calls in POO/GPO", n, 4)


def run(ctx):
    import_wrappers(ctx)
    check_protocol_calls(ctx)
    check_orderings(ctx)
    check_attr(ctx)
    check_prov(ctx)
    check_sample_uniform(ctx)
    ctx.attempt("R01-FORM", ctx.model.cls("StroquOOL").file, "StroquOOL.__init__", "schedule constants", check_schedule_constants, ctx)
    import_eval(ctx)
    ctx.attempt("R01-DOMAIN", "PyXAB/algos", "*", "function domains", check_domains, ctx)
    check_reco_total(ctx)
    check_none_returns(ctx)
    _partition.feed(ctx, (), rename={"R02-CENTRE": "R01-INSIDE", "R02-INSIDE": "R01-INSIDE", "R02-TOTAL": "R01-TOTAL"})
    return dict(
        explanation=(
            "ATTR: for each of the %d Algorithm subclasses a must-assign dataflow over the CFGs (closed over own-method calls) walks the "
            "documented protocol automaton __init__ -> (pull -> receive_reward)* -> get_last_point; every read of an instance attribute "
            "must be definitely assigned at that point (one recognised refinement: reads guarded by a discriminator attribute), and every "
            "cell attribute read must be assigned by the cell constructor chain. PROV: each of the value returns of pull/get_last_point "
            "is traced back through locals, attributes and containers to get_cpoint()/sample_uniform()/arm.get_point()/a learner's "
            "proposal, with no arithmetic or re-packing on the way. INSIDE (E5): the representative of every cell is the midpoint of its "
            "box, children lie inside their parent for every make_children (symbolic boxes, all RNG outcomes) and sample_uniform draws "
            "each coordinate between its own bounds - so returned points lie in the root box in real arithmetic. Declined: termination of "
            "the search loops, None/index errors that depend on run-time values (e.g. StoSOO falling off its loop at the depth cap, "
            "VROOM on non-binary partitions), parameter-range crashes." % len(algorithms(ctx.model))),
        assumptions=["pull/receive_reward alternate, pull first; T within the declared budget; depth caps large enough",
                     "np.random.uniform(a,b) in [a,b]"],
        technique="must-assign dataflow along the protocol automaton + provenance tracing of returned points + E5 geometry",
    )
