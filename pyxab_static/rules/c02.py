"""C02 - child cells exactly tile their parent cell in every partition."""
from ..report import AnalysisError
from . import _partition
from . import c03


def run(ctx):
    n, stats = _partition.feed(ctx, ("R02-",), rename={"R03-ALIAS": "R02-ALIAS"})
    ctx.count("R02 (tiling obligations from abstract make_children runs)", n, 2000)
    ctx.count("R02 abstract runs", stats["paths"], 200)
    # the children of a cell are exactly the cells of its (latest) split
    ctx.attempt("R02-OWN", "PyXAB/partition/Node.py", "P_node.update_children", "children replaced", c03.check_update_children, ctx, "R02-OWN")
    return dict(
        explanation=(
            "One-step abstract interpretation (E5) of every partition class's make_children, read from /repo's "
            "source: the parent is a symbolic box lo_k<hi_k at symbolic depth/index; K and d range over "
            "%s; both newlayer values; every np.random.randint outcome and every branch on a symbolic "
            "condition is enumerated; np.random.uniform(a,b) is a fresh atom with a<=u<=b (end points included). "
            "After each run the children are checked against the definition of an exact tiling over terms: "
            "arity, containment, exact grid cover (union = parent, interiors disjoint), boundaries shared as the "
            "same computed value (bit-identical) and outer faces being the parent's own atoms, equal side lengths "
            "for the equal-size classes, centre representative, no in-place modification of the parent's box; "
            "P_node.update_children replaces the child list by exactly the cells it is given (R02-OWN). A "
            "second expansion of a cousin cell on the same partition object checks that the geometry does not "
            "depend on state left behind by earlier expansions. Decided part: the one-step tiling lemma for all "
            "real boxes and all RNG draws within the K,d range; 'leaves of any tree tile the domain' follows by "
            "induction with C03's 'only leaves are expanded'. Not decided: floating-point overflow, K and d "
            "outside the unrolled range." % (ctx.extra["abstract_runs"]["ranges"],)),
        assumptions=[
            "np.random.uniform(a,b) returns a value in [a,b]; np.linspace(a,b,num) is equally spaced with both end points pinned",
            "copy.deepcopy of nested lists yields fresh lists with equal leaves",
            "real arithmetic for containment/equality; bit-identity is claimed only for values produced by the same operation tree",
            "K in %s and d in %s are representative (the code is uniform in K and d)" % tuple(ctx.extra["abstract_runs"]["ranges"].values()),
        ],
        technique="abstract interpretation of make_children over symbolic boxes (ast, own interpreter) + order-graph tiling check",
    )
