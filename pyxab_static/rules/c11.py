"""C11 - Zooming keeps the domain covered by active arms and plays the max-index arm."""
import ast

import sympy as sp

from .. import cfg as C
from .. import credit as CR
from .. import idioms as ID
from .. import symx as SX
from ..model import calls_in, get_arg, is_self_attr, method_name, strip_doc
from .. import shapes as SH
from ..report import AnalysisError, Ctx, norm_src

SENT = ("-np.inf", "-math.inf", "float('-inf')")


def tr_self(expr_src_or_ast, rename=None):
    T = SX.Translator(positive=True)

    def attr(e):
        if is_self_attr(e):
            return T.sym(e.attr)
        return None
    T.attr_cb = attr
    e = expr_src_or_ast if isinstance(expr_src_or_ast, ast.AST) else ast.parse(expr_src_or_ast, mode="eval").body
    return T, T.tr(e)


def check_index(ctx):
    model = ctx.model
    c = model.cls("Zooming")
    fn = model.own_method("Zooming", "pull")
    q = "Zooming.pull"
    ctx.fn(q)
    folds = ID.find_folds(fn)
    rets = [r for r in ast.walk(fn) if isinstance(r, ast.Return)]
    if len(folds) != 1:
        ctx.violation("R11-INDEX", c.file, q, "arm selection", "expected one arg-max fold, found %d" % len(folds), fn.lineno)
        return
    f = folds[0]
    T = SX.Translator(positive=True)
    arm = f.cand

    def attr(e):
        return T.sym(e.attr) if is_self_attr(e) else None
    T.attr_cb = attr

    class Sub(ast.NodeTransformer):
        def visit_Subscript(self, n):
            if is_self_attr(n.value) and norm_src(n.slice) == arm:
                return ast.Name(id="ARM_" + n.value.attr, ctx=ast.Load())
            return self.generic_visit(n)
    key = Sub().visit(ast.parse(norm_src(f.key), mode="eval").body)
    try:
        got = T.tr(key)
        mu, npl, ph = T.sym("ARM_average_rewards"), T.sym("ARM_pulled_times"), T.sym("phase")
        ref = mu + 2 * sp.sqrt(8 * ph / (2 + npl))
        eq, wit = SX.equivalent(got, ref)
    except SX.Untranslatable as ex:
        eq, wit = None, str(ex)
    ctx.ob("R11-INDEX", eq is True, c.file, q, "arm index = mean + 2*sqrt(8*phase/(2+pulls))",
           "matches" if eq is True else "key is %s%s" % (f.key_src, " (differs at %s)" % wit if wit else ""), f.if_node.lineno)
    ok = (f.direction == "max" and f.seed in SENT and not f.filters and not f.also and f.best == "self.best_arm" and norm_src(f.best_value) == arm
          and f.set_src in ("self.active_points.keys()", "self.active_points", "list(self.active_points.keys())", "self.active_points.keys"))
    ctx.ob("R11-INDEX", ok, c.file, q, "maximum over all active arms", f.describe() + ("; " + "; ".join(f.also) if f.also else ""), f.if_node.lineno)
    okr = len(rets) == 1 and rets[0].value is not None and norm_src(rets[0].value) == "self.best_arm.get_point()" and rets[0] in fn.body
    ctx.ob("R11-INDEX", okr, c.file, q, "single return: the winner's point, after the loop",
           "%s" % [norm_src(r) for r in rets] if not okr else "return self.best_arm.get_point()", fn.lineno)
    extra = [s for s in ast.walk(fn) if isinstance(s, ast.Assign) and any(is_self_attr(t, "best_arm") for t in s.targets)
             and s not in f.if_node.body and norm_src(s.value) != "None"]
    ctx.ob("R11-INDEX", not extra, c.file, q, "best_arm only set by the fold", "%s" % [norm_src(s) for s in extra], fn.lineno, nontrivial=False)
    for m, f2 in c.methods.items():
        if m in ("__init__", "pull"):
            continue
        for s2 in ast.walk(f2):
            tg = s2.targets if isinstance(s2, ast.Assign) else ([s2.target] if isinstance(s2, (ast.AugAssign, ast.AnnAssign)) else [])
            if any(is_self_attr(t, "best_arm") for t in tg):
                ctx.violation("R11-MEAN", c.file, "Zooming.%s" % m, norm_src(s2),
                              "self.best_arm is the arm receive_reward credits; %s overwrites it, so the next reward goes to an arm that was "
                              "not pulled" % m, s2.lineno)
    # the loop body only computes the key and runs the fold
    body = [s for s in f.inner.body]
    okb = all(isinstance(s, ast.Assign) and isinstance(s.targets[0], ast.Name) or s is f.if_node for s in body)
    ctx.ob("R11-INDEX", okb, c.file, q, "no shortcut inside the selection loop", "%s" % [type(s).__name__ for s in body], f.inner.lineno)


def check_mean(ctx):
    model = ctx.model
    c = model.cls("Zooming")
    fn, params, paths, fns = CR.credit_paths(model, "Zooming")
    from . import c04
    tmp = Ctx(ctx.prop, ctx.tier, ctx.seed, model)
    c04.check_means(tmp, c, (fn, params, paths, fns), params[2])
    for o in tmp.obligations:
        ctx.obligations.append(dict(o, rule="R11-MEAN"))
    for f in tmp.findings:
        ctx.add_finding("R11-MEAN", f.file, f.qual, f.construct, f.why, f.line)
    rm = tmp.extra.get("running_means", {})
    cnt = rm.get("Zooming:self.average_rewards[self.best_arm]")
    ctx.ob("R11-MEAN", cnt is not None and cnt.replace("self.", "") in ("pulled_times[best_arm]", "ELEM(pulled_times, best_arm)"), c.file,
           "Zooming.receive_reward", "arm mean is the running mean over its own pull count", "count expression %s" % cnt, fn.lineno)
    g = C.CFG(fn)
    upd = [n for n in g.nodes if n.kind == "stmt" and isinstance(n.ast, ast.Assign) and norm_src(n.ast.targets[0]) == "self.average_rewards[self.best_arm]"]
    inc = [n for n in g.nodes if n.kind == "stmt" and SH.is_increment(n.ast, "self.pulled_times[self.best_arm]")]
    ok = len(upd) == 1 and len(inc) == 1 and g.dominates(upd[0], inc[0]) and g.dominates(inc[0], g.exit) and not g.guards(inc[0])
    ctx.ob("R11-MEAN", ok, c.file, "Zooming.receive_reward", "pull count incremented exactly once, after the mean update, unconditionally",
           "%d mean update(s), %d increment(s)" % (len(upd), len(inc)), fn.lineno)
    return g


def check_refine(ctx):
    model = ctx.model
    c = model.cls("Zooming")
    fn = model.own_method("Zooming", "receive_reward")
    q = "Zooming.receive_reward"
    g = C.CFG(fn)
    sites = calls_in(fn, "make_children")
    ctx.count("R11-REFINE make_children sites in Zooming.receive_reward", len(sites), 1)
    for call in sites:
        at = g.node_of(call)
        X = norm_src(get_arg(call, 0, "parent"))
        ds = [s for s in ast.walk(fn) if isinstance(s, ast.Assign) and norm_src(s.targets[0]) == X]
        okx = len(ds) == 1 and norm_src(ds[0].value) == "self.active_points[self.best_arm]"
        ctx.ob("R11-REFINE", okx, c.file, q, norm_src(call), "the refined cell is the pulled arm's cell" if okx else "refined cell %s is %s" % (
            X, [norm_src(d.value) for d in ds]), call.lineno)
        cmp_facts = [(a, t, lab, e) for a, t, lab, e in C.facts_at(g, at) if a[0] in ("<=", "<") and "sqrt" in (a[1] + a[2])]
        ok = False
        why = "no radius test dominates the refinement"
        if len(cmp_facts) == 1:
            (op, l, r), t, lab, e = cmp_facts[0]
            T = SX.Translator(positive=True)
            T.attr_cb = lambda e2: T.sym(e2.attr) if is_self_attr(e2) else None

            class Sub(ast.NodeTransformer):
                def visit_Subscript(self, n):
                    if norm_src(n) == "self.pulled_times[self.best_arm]":
                        return ast.Name(id="PULLS", ctx=ast.Load())
                    return self.generic_visit(n)

                def visit_Call(self, n):
                    if norm_src(n) in ["%s.get_depth()" % X] + ["%s.get_depth()" % norm_src(d.value) for d in ds]:
                        return ast.Name(id="DEPTH", ctx=ast.Load())
                    return self.generic_visit(n)
            try:
                lv = T.tr(Sub().visit(ast.parse(l, mode="eval").body))
                rv = T.tr(Sub().visit(ast.parse(r, mode="eval").body))
                ph, pulls, nu, rho, dep = T.sym("phase"), T.sym("PULLS"), T.sym("nu"), T.sym("rho"), T.sym("DEPTH")
                e1 = SX.equivalent(lv, sp.sqrt(8 * ph / (2 + pulls)))[0] is True
                e2 = SX.equivalent(rv, nu * rho ** dep)[0] is True
                ok = e1 and e2 and op == "<="
                why = ("radius sqrt(8 phase/(2+pulls)) <= nu*rho^depth" if ok else
                       "test is '%s %s %s'; published rule: sqrt(8*phase/(2+pulls)) <= nu*rho^depth(cell)" % (l, op, r))
            except SX.Untranslatable as ex:
                why = str(ex)
        ctx.ob("R11-REFINE", ok, c.file, q, "refinement test", why, call.lineno)
        # "exactly when": nothing else decides whether the refinement is reached - every other guard dominating the expansion
        # may only choose between the two expansion calls (newlayer or not), and no early exit precedes the test
        others = [(a, t) for a, t, lab, e in C.facts_at(g, at) if not (a[0] in ("<=", "<") and "sqrt" in (a[1] + a[2]))]
        extra = [a for a, t in others if not (any(x in (a[1] + a[2]) for x in ("self.partition.get_depth()", "self.partition.depth")))]
        # `X is not None` after the radius test dereferenced X (X.get_depth()) is vacuous
        if ok:
            extra = [a for a in extra if not (a[0] == "is not" and a[1] in [X] + [norm_src(d.value) for d in ds] and a[2] == "None")]
        test_node = cmp_facts[0][1] if cmp_facts else None
        early = []
        if test_node is not None:
            early = [n for n in g.nodes if n.kind == "stmt" and isinstance(n.ast, (ast.Return, ast.Raise)) and
                     g.paths_avoiding(g.entry, n, [test_node])]
        ctx.ob("R11-REFINE", not extra and not early, c.file, q, "the cell is refined exactly when the radius test holds",
               "no other condition guards the refinement" if not extra and not early else
               "the refinement also depends on %s: a cell whose radius has dropped to nu*rho^depth is not refined when that fails" % (
                   [" ".join(x for x in a if x) for a in extra] or ["an early exit at line %s" % early[0].line]), call.lineno)
        # evaluated after the pull count was incremented
        inc = [n for n in g.nodes if n.kind == "stmt" and SH.is_increment(n.ast, "self.pulled_times[self.best_arm]")]
        if inc and cmp_facts:
            ctx.ob("R11-REFINE", g.dominates(inc[0], cmp_facts[0][1]), c.file, q, "radius uses the updated pull count", "increment precedes the test",
                   call.lineno, nontrivial=False)
        # ... and this round's phase: no store to the phase clock is reachable after the test (the radius compared here is
        # the one the next pull's index uses)
        if cmp_facts:
            late = [n for n in g.nodes if n.kind == "stmt" and isinstance(n.ast, (ast.Assign, ast.AugAssign)) and
                    any(is_self_attr(t, "phase") for t in (n.ast.targets if isinstance(n.ast, ast.Assign) else [n.ast.target])) and
                    g.paths_avoiding(cmp_facts[0][1], n)]
            ctx.ob("R11-REFINE", not late, c.file, q, "radius uses this round's phase",
                   "every phase update precedes the test" if not late else
                   "self.phase is updated after the refinement test (%s): the test compares the previous phase's radius" % norm_src(late[0].ast),
                   (late[0].ast.lineno if late else call.lineno))
    # phase clock: time += 1 once; phase grows when time reaches next_end_time
    tinc = [n for n in g.nodes if n.kind == "stmt" and SH.is_increment(n.ast, "self.time")]
    okc = len(tinc) == 1 and not g.guards(tinc[0]) and g.dominates(tinc[0], g.exit)
    ctx.ob("R11-REFINE", okc, c.file, q, "phase clock advances once per reward", "%d increment(s)" % len(tinc), fn.lineno)
    for m, f2 in model.cls("Zooming").methods.items():
        if m in ("__init__", "receive_reward"):
            continue
        for s in ast.walk(f2):
            tg = s.targets if isinstance(s, ast.Assign) else ([s.target] if isinstance(s, (ast.AugAssign, ast.AnnAssign)) else [])
            for t in tg:
                if is_self_attr(t) and t.attr in ("time", "phase", "next_end_time"):
                    ctx.violation("R11-REFINE", c.file, "Zooming.%s" % m, norm_src(s), "the phase clock is changed outside receive_reward", s.lineno)


def check_cover(ctx):
    """R11-COVER, decided semantically: the hand-over code is executed once by the abstract interpreter on K children with
    independent symbolic boxes and a symbolic arm, for every outcome of every coordinate comparison (see zoom_step.py)."""
    from .. import absint as A
    from .. import zoom_step as Z
    model = ctx.model
    c = model.cls("Zooming")
    fn = model.own_method("Zooming", "receive_reward")
    q = "Zooming.receive_reward"
    configs = [(2, 1), (3, 1), (2, 2)] + ([(3, 2), (4, 1), (2, 3)] if ctx.tier == "thorough" else [])
    total = 0
    for K, d in configs:
        what = "hand-over after a refinement into %d children, dimension %d" % (K, d)
        try:
            n, problems = Z.check_paths(model, K, d)
        except Z.StepProblem as ex:
            ctx.violation("R11-COVER", c.file, q, what, str(ex), fn.lineno)
            return
        except A.Unsupported as ex:
            ctx.violation("R11-COVER", c.file, q, what, "obligation not discharged: the hand-over code cannot be interpreted (%s)" % ex, fn.lineno)
            return
        total += n
        if problems:
            for msg, oracles in sorted(problems.items()):
                ctx.violation("R11-COVER", c.file, q, what, "%s (on %d of %d comparison outcomes)" % (msg, len(oracles), n), fn.lineno)
        else:
            ctx.ob("R11-COVER", True, c.file, q, what,
                   "on all %d outcomes of the coordinate comparisons: every child ends up with exactly one arm - the refined arm goes to the "
                   "first child whose closed box contains it, every other child gets a new arm at its centre with zero statistics; nothing "
                   "else changes" % n, fn.lineno)
    ctx.extra["handover_paths"] = total
    ctx.count("R11-COVER abstract hand-over paths", total, 40)


def check_make_active(ctx):
    model = ctx.model
    c = model.cls("Zooming")
    fn = model.own_method("Zooming", "make_active")
    q = "Zooming.make_active"
    ctx.fn(q)
    body = [norm_src(s) for s in strip_doc(fn.body)]
    p = fn.args.args[1].arg
    arm = None
    for s in strip_doc(fn.body):
        if isinstance(s, ast.Assign) and norm_src(s.value) == "point(%s.get_cpoint())" % p:
            arm = norm_src(s.targets[0])
    ok = arm is not None and set(body) == {"%s = point(%s.get_cpoint())" % (arm, p), "self.active_points[%s] = %s" % (arm, p),
                                           "self.pulled_times[%s] = 0" % arm, "self.average_rewards[%s] = 0" % arm}
    ctx.ob("R11-COVER", ok, c.file, q, "a new arm sits at the centre of its cell and is registered in all three maps with zero statistics",
           "%s" % body, fn.lineno)
    pt = model.cls("point")
    ok2 = norm_src(strip_doc(pt.methods["__init__"].body)[0]) == "self.p = p" and norm_src(strip_doc(pt.methods["get_point"].body)[0]) == "return self.p"
    ctx.ob("R11-COVER", ok2, c.file, "point", "an arm stores and returns its point unchanged", "point.__init__/get_point", pt.node.lineno, nontrivial=False)
    init = model.own_method("Zooming", "__init__")
    ctx.fn("Zooming.__init__")
    dp = [x for x in ast.walk(init) if isinstance(x, ast.Call) and method_name(x) == "deepen"]
    loops = [l for l in ast.walk(init) if isinstance(l, ast.For)]
    ok3 = len(dp) == 1 and len(loops) == 1 and norm_src(loops[0].iter) in ("self.partition.get_layer_node_list(depth=1)", "self.partition.get_layer_node_list(1)",
                                                                           "self.partition.get_node_list()[1]") \
        and [norm_src(s) for s in loops[0].body] == ["self.make_active(%s)" % norm_src(loops[0].target)]
    if ok3:
        # deepen() comes first: decided on the control-flow graph (line numbers of inlined code are those of the call site)
        g3 = C.CFG(init)
        ok3 = g3.dominates(g3.node_of(dp[0]), g3.node_of(loops[0]))
    ctx.ob("R11-COVER", ok3, c.file, "Zooming.__init__", "initially every cell of layer 1 (a tiling of the domain) has an arm",
           "deepen() once, then make_active for each cell of layer 1" if ok3 else "initial activation not recognised", init.lineno)
    # the three maps are only written by make_active / the hand-over / receive_reward's statistics
    for m, f2 in c.methods.items():
        for s in ast.walk(f2):
            if isinstance(s, ast.Call) and isinstance(s.func, ast.Attribute) and is_self_attr(s.func.value) and \
                    s.func.value.attr in ("active_points", "pulled_times", "average_rewards") and s.func.attr in ("pop", "clear", "popitem", "update", "setdefault"):
                ctx.violation("R11-COVER", c.file, "Zooming.%s" % m, norm_src(s), "an arm map is changed by %s()" % s.func.attr, s.lineno)
            if isinstance(s, ast.Delete):
                ctx.violation("R11-COVER", c.file, "Zooming.%s" % m, norm_src(s), "an arm is deleted", s.lineno)


def run(ctx):
    model = ctx.model
    for m in ("__init__", "pull", "receive_reward", "make_active", "get_last_point"):
        ctx.fn("Zooming.%s" % m)
    fz = model.cls("Zooming").file
    ctx.attempt("R11-INDEX", fz, "Zooming.pull", "arm index", check_index, ctx)
    ctx.attempt("R11-MEAN", fz, "Zooming.receive_reward", "arm statistics", check_mean, ctx)
    ctx.attempt("R11-REFINE", fz, "Zooming.receive_reward", "refinement", check_refine, ctx)
    ctx.attempt("R11-COVER", fz, "Zooming.receive_reward", "hand-over", check_cover, ctx)
    ctx.attempt("R11-COVER", fz, "Zooming.make_active", "activation", check_make_active, ctx)
    from . import c15
    c15.import_taint(ctx, ["Zooming"], "R11-TIME", "the arm index and the refinement rule are functions of the reward history alone")
    from . import c14
    c14.import_iso(ctx, ["Zooming", "point"], "R11-ISO", "thresholds, arms and statistics belong to one Zooming object")
    # the three arm maps are keyed by the arm OBJECTS: the arm class must keep identity hashing / equality (a value-based
    # __eq__/__hash__ makes two distinct arms collide in active_points / pulled_times / average_rewards)
    pc = model.classes.get("point")
    if pc is not None:
        bad = [m for m in ("__eq__", "__hash__", "__ne__", "__lt__", "__le__", "__gt__", "__ge__") if m in pc.methods]
        slots = [st for st in pc.node.body if isinstance(st, ast.Assign) and any(isinstance(t, ast.Name) and t.id == "__hash__" for t in st.targets)]
        ctx.ob("R11-KEY", not bad and not slots, pc.file, "point", "arms are dictionary keys by identity",
               "point defines no comparison / hash method" if not bad and not slots else
               "point defines %s: two different arms can compare equal and overwrite each other's entries in the arm maps" % (bad or ["__hash__ = .."]),
               pc.node.lineno)
    from . import c03
    tmp = Ctx(ctx.prop, ctx.tier, ctx.seed, model)
    c03.check_sites(tmp)
    for o in tmp.obligations:
        if "Zooming." in o["where"] and o["rule"] in ("R03-LEAF", "R03-NEWLAYER"):
            ctx.obligations.append(dict(o, rule=o["rule"].replace("R03", "R11")))
    for f in tmp.findings:
        if f.qual.startswith("Zooming.") and f.rule in ("R03-LEAF", "R03-NEWLAYER"):
            ctx.add_finding(f.rule.replace("R03", "R11"), f.file, f.qual, f.construct, f.why, f.line)
    return dict(
        explanation=(
            "INDEX: pull is one arg-max fold over all active arms (seed -inf, no filter, no shortcut in the loop) whose key is proved equal "
            "to mean + 2*sqrt(8*phase/(2+pulls)); it returns the winner's point. MEAN: the arm's mean is a running mean over its own pull "
            "count, which is incremented exactly once, after the mean, unconditionally. REFINE: the cell refined is the pulled arm's cell, "
            "exactly when sqrt(8*phase/(2+pulls)) <= nu*rho^depth (both sides by symbolic equivalence, '<=' not '<', evaluated after the "
            "count update); the phase clock advances only in receive_reward. COVER: after a refinement the loop over ALL children ends in "
            "an either/or - the child takes the arm over (at most one child: once-only flag) or gets a fresh arm at its centre; the "
            "hand-over requires closed containment of the arm in every dimension of the child's box; make_active registers the new arm "
            "in all three maps at the cell centre; initially every cell of layer 1 has an arm; arms are never removed. LEAF/NEWLAYER: the "
            "call-site obligations of C03 at Zooming's two expansion sites. With C02 (children tile the parent) coverage is preserved by "
            "every refinement; coverage as a geometric run-time fact is not observed."),
        assumptions=["C02's tiling lemma (the arm lies in at least one child)", "positive parameters", "dict iteration is insertion ordered"],
        technique="arg-max fold recognition + sympy equivalence of index/radius formulas + structural analysis of the hand-over loop",
    )
