"""C05 - T-HOO, HCT and VHCT pull the cell chosen by the published optimistic index.

Reference formulas are the published ones (HOO: Bubeck et al. 2011; HCT: Azar et al. 2014, the pseudo-code shipped
in docs/; VHCT: Li et al. 2021 as implemented - its variance-aware threshold has no independent statement in the
repository, so the pinned formula is the reference and the rule guards it against change).
"""
import ast
import copy

import sympy as sp

from .. import callsites as CS
from .. import cfg as C
from .. import effects as E
from .. import idioms as ID
from .. import summary as SM
from .. import symx as SX
from ..model import call_name, calls_in, get_arg, is_self_attr, method_name, strip_doc
from ..report import AnalysisError, norm_src

TREE_ALGOS = {"T_HOO": "HOO_node", "HCT": "HCT_node", "VHCT": "VHCT_node"}


def S(name):
    return sp.Symbol(name, positive=True)


def reference_u(cls):
    mu = SX.SUM(S("rewards")) / S("visited_times")
    T, nu, rho, h = S("visited_times"), S("nu"), S("rho"), S("depth")
    if cls == "T_HOO":
        return mu + sp.sqrt(2 * sp.log(S("rounds")) / T) + nu * rho ** h
    c, d = S("c"), S("delta_tilde")
    if cls == "HCT":
        return mu + nu * rho ** h + c * sp.sqrt(sp.log(1 / d) / T)
    b, var = S("bound"), S("variance")
    return mu + nu * rho ** h + c * sp.sqrt(2 * var * sp.log(1 / d) / T) + 3 * b * c ** 2 * sp.log(1 / d) / T


def canon(e):
    """mean of rewards may be written SUM/T, SUM/LEN or via np.average: identify LEN(rewards) with the count."""
    return e.subs(SX.LEN(S("rewards")), S("visited_times"))


def check_u(ctx, algo, ncls):
    model = ctx.model
    c = model.cls(ncls)
    fn = model.own_method(ncls, "compute_u_value")
    qual = "%s.compute_u_value" % ncls
    ctx.fn(qual)
    Sm = SM.Summarizer(model, ncls)
    try:
        ps = Sm.run(fn)
    except (SM.HasLoop, SX.Untranslatable) as ex:
        ctx.violation("R05-U", c.file, qual, "compute_u_value", "cannot summarise: %s" % ex, fn.lineno)
        return
    ref = reference_u(algo)
    visited = [p for p in ps if ("self.visited_times == 0", False) in p.conds and len(p.conds) == 1]
    unvisited = [p for p in ps if ("self.visited_times == 0", True) in p.conds and len(p.conds) == 1]
    ok_shape = len(ps) == 2 and len(visited) == 1 and len(unvisited) == 1
    ctx.ob("R05-U", ok_shape, c.file, qual, "two cases: never pulled / pulled",
           "paths: %s" % [p.conds for p in ps], fn.lineno, nontrivial=False)
    if not ok_shape:
        return
    got = visited[0].stores.get("u_value")
    if got is None:
        ctx.violation("R05-U", c.file, qual, "self.u_value", "the U-value is not stored for a pulled cell", fn.lineno)
    else:
        eq, wit = SX.equivalent(canon(got), canon(ref))
        ctx.ob("R05-U", eq is True, c.file, qual, "U-value of a pulled cell",
               "== %s" % ref if eq is True else "is %s; the published index is %s%s" % (got, ref, " (differ at %s)" % wit if wit else ""), fn.lineno)
        m = visited[0].stores.get("mean_reward")
        if m is not None:
            eq2, _ = SX.equivalent(canon(m), SX.SUM(S("rewards")) / S("visited_times"))
            ctx.ob("R05-U", eq2 is True, c.file, qual, "recomputed mean", "== sum(rewards)/count" if eq2 is True else "is %s" % m, fn.lineno)
    # unvisited: U is infinite (stored, or untouched with the constructor's inf)
    u0 = unvisited[0].stores.get("u_value")
    init = model.own_method(ncls, "__init__")
    init_inf = any(isinstance(s, ast.Assign) and is_self_attr(s.targets[0], "u_value") and norm_src(s.value) in ("np.inf", "math.inf", "float('inf')")
                   for s in ast.walk(init))
    ok0 = (u0 == sp.oo) or (u0 is None and init_inf)
    ctx.ob("R05-U", ok0, c.file, qual, "U-value of a never-pulled cell is infinite",
           "stored inf" if u0 == sp.oo else ("left at the constructor's inf" if ok0 else "is %s" % u0), fn.lineno)
    other = [a for a in unvisited[0].stores if a not in ("u_value", "b_value")]
    ctx.ob("R05-U", not other, c.file, qual, "never-pulled case touches nothing else", "stores %s" % sorted(unvisited[0].stores), fn.lineno,
           nontrivial=False)


def ctor_params_flow(ctx, algo):
    """self.nu = nu etc.: every parameter attribute used by the index holds the constructor argument itself."""
    model = ctx.model
    c = model.cls(algo)
    init = model.own_method(algo, "__init__")
    params = [a.arg for a in init.args.args][1:]
    want = [p for p in ("nu", "rho", "c", "delta", "bound", "rounds") if p in params]
    for pn in want:
        st = [s for s in ast.walk(init) if isinstance(s, ast.Assign) and any(is_self_attr(t, pn) for t in s.targets)]
        ok = len(st) == 1 and norm_src(st[0].value) == pn
        ctx.ob("R05-PARAM", ok, c.file, "%s.__init__" % algo, "self.%s = %s" % (pn, pn),
               "parameter stored unchanged" if ok else "self.%s is %s" % (pn, [norm_src(s.value) for s in st]), init.lineno)
    # no other store to these attributes anywhere
    for fn in c.methods.values():
        if fn.name == "__init__":
            continue
        for s in ast.walk(fn):
            tg = s.targets if isinstance(s, ast.Assign) else ([s.target] if isinstance(s, (ast.AugAssign, ast.AnnAssign)) else [])
            for t in tg:
                if is_self_attr(t) and t.attr in want + ["c1"]:
                    ctx.violation("R05-PARAM", c.file, "%s.%s" % (algo, fn.name), norm_src(s), "a parameter of the index is modified after construction", s.lineno)


def check_call_bindings(ctx, algo, ncls):
    """Every call of compute_u_value / compute_tau_hi_value passes self.<p> for parameter p and the locally
    computed delta_tilde."""
    model = ctx.model
    c = model.cls(algo)
    if algo in ("HCT", "VHCT"):
        name_delta_sites(model, algo)
    n = 0
    for fn in c.methods.values():
        for call in ast.walk(fn):
            if isinstance(call, ast.Call) and method_name(call) in ("compute_u_value", "compute_tau_hi_value"):
                n += 1
                callee = model.own_method(ncls, method_name(call))
                ps = [a.arg for a in callee.args.args][1:]
                bound = {}
                for k, a in zip(ps, call.args):
                    bound[k] = norm_src(a)
                for k in call.keywords:
                    bound[k.arg] = norm_src(k.value)
                bad = []
                for k in ps:
                    v = bound.get(k)
                    if k == "delta_tilde":
                        if v not in delta_vars(fn):
                            bad.append("%s=%s" % (k, v))
                    elif v != "self." + k:
                        bad.append("%s=%s" % (k, v))
                ctx.ob("R05-PARAM", not bad, c.file, "%s.%s" % (algo, fn.name), norm_src(call),
                       "every parameter bound to the algorithm's own attribute of that name" if not bad else "mis-bound: %s" % bad, call.lineno)
    ctx.count("R05-PARAM index-evaluation call sites in %s" % algo, n, 1 if algo == "T_HOO" else 2)


def is_delta_def(s):
    """An assignment `<local> = min(kappa, ... self.delta ...)`: a delta~ computation whatever the local is called."""
    if not (isinstance(s, ast.Assign) and len(s.targets) == 1 and isinstance(s.targets[0], ast.Name) and isinstance(s.value, ast.Call)):
        return False
    if s.targets[0].id == "delta_tilde":
        return True
    f = norm_src(s.value.func)
    return f in ("np.minimum", "min", "numpy.minimum", "np.fmin") and any(is_self_attr(y, "delta") for y in ast.walk(s.value))


def is_delta_call(e):
    if not isinstance(e, ast.Call):
        return False
    f = norm_src(e.func)
    return f in ("np.minimum", "min", "numpy.minimum", "np.fmin") and any(is_self_attr(y, "delta") for y in ast.walk(e))


_NAMED = set()


def name_delta_sites(model, algo):
    """A delta~ computation written in place (`math.log(1 / np.minimum(1/2, self.c1 * self.delta / t_plus))`) is given a name:
    `delta_tilde_k = np.minimum(..)` is placed directly in front of the statement that contains it and the statement reads the
    local.  The expression is pure (attribute reads, locals, arithmetic), and the statement may evaluate nothing with a side
    effect before it, so this is the same computation; the delta~ rules then treat written-out and named forms alike."""
    if (id(model), algo) in _NAMED:
        return
    _NAMED.add((id(model), algo))
    c = model.cls(algo)
    k = [0]
    for fn in c.methods.values():
        changed = False
        for node in ast.walk(fn):
            for field in ("body", "orelse"):
                blk = getattr(node, field, None)
                if not (isinstance(blk, list) and blk and isinstance(blk[0], ast.stmt)):
                    continue
                i = 0
                while i < len(blk):
                    st = blk[i]
                    i += 1
                    if not isinstance(st, (ast.Expr, ast.Assign, ast.AugAssign, ast.Return)) or getattr(st, "value", None) is None:
                        continue
                    if isinstance(st, ast.Assign) and len(st.targets) == 1 and isinstance(st.targets[0], ast.Name) and is_delta_call(st.value):
                        continue
                    sites = [x for x in ast.walk(st.value) if is_delta_call(x) and not any(is_delta_call(y) for y in ast.walk(x) if y is not x)]
                    if len(sites) != 1:
                        continue
                    site = sites[0]
                    # nothing with a side effect may be evaluated in the statement at all, except the outermost call itself
                    # (its arguments are evaluated first) and getters
                    calls = [x for x in ast.walk(st.value) if isinstance(x, ast.Call) and x is not st.value and not any(x is y for y in ast.walk(site))]
                    if any(not (norm_src(x.func).startswith(("np.", "math.", "numpy.")) or (isinstance(x.func, ast.Attribute) and x.func.attr.startswith("get_")))
                           for x in calls):
                        continue
                    if any(isinstance(x, (ast.Lambda, ast.GeneratorExp, ast.ListComp, ast.IfExp, ast.BoolOp)) for x in ast.walk(st.value)):
                        continue
                    k[0] += 1
                    name = "delta_tilde_%d" % k[0]
                    new = ast.Assign(targets=[ast.Name(id=name, ctx=ast.Store())], value=site)
                    ast.copy_location(new, st)

                    class Rep(ast.NodeTransformer):
                        def visit_Call(self, n):
                            if n is site:
                                return ast.copy_location(ast.Name(id=name, ctx=ast.Load()), n)
                            return self.generic_visit(n)
                    st.value = Rep().visit(st.value)
                    ast.fix_missing_locations(new)
                    ast.fix_missing_locations(st)
                    blk.insert(i - 1, new)
                    i += 1
                    changed = True
        if changed:
            for n in ast.walk(fn):
                for ch in ast.iter_child_nodes(n):
                    model.parent[id(ch)] = n


def delta_vars(fn):
    return {x.targets[0].id for x in ast.walk(fn) if is_delta_def(x)} | {a.arg for a in fn.args.args if a.arg == "delta_tilde"}


def delta_uses(fn, var="delta_tilde"):
    """What the local delta~ of `fn` feeds: 'tau' (threshold list / compute_tau_hi_value), 'width' (compute_u_value), 'both', 'none'."""
    tau = width = False
    for x in ast.walk(fn):
        if isinstance(x, ast.Call) and any(isinstance(y, ast.Name) and y.id == var for a in list(x.args) + [k.value for k in x.keywords]
                                           for y in ast.walk(a)):
            m = method_name(x) or call_name(x) or ""
            if m == "compute_tau_hi_value" or (m in ("append", "extend") and "tau" in norm_src(x.func)):
                tau = True
            elif m == "compute_u_value":
                width = True
        if isinstance(x, ast.Assign) and "tau" in norm_src(x.targets[0]) and any(isinstance(y, ast.Name) and y.id == var for y in ast.walk(x.value)):
            tau = True
    return "both" if tau and width else "tau" if tau else "width" if width else "none"


def delta_sites(ctx, algo, rule="R05-DELTA", only_tau=False):
    """R05-DELTA: t+ = 2^ceil(log2 t), delta~ = min(kappa, c1*delta/t+), c1 = (rho/(3 nu))^(1/8)."""
    n_tau = [0]
    model = ctx.model
    c = model.cls(algo)
    file = c.file
    tp = model.module_function(file, "compute_t_plus")
    if tp is None:
        raise AnalysisError("compute_t_plus not found in %s" % file)
    T = SX.Translator(positive=True)
    body = strip_doc(tp.body)
    x = T.sym(tp.args.args[0].arg)
    ok = len(body) == 1 and isinstance(body[0], ast.Return)
    if ok:
        got = T.tr(body[0].value)
        eq, wit = SX.equivalent(got, 2 ** sp.ceiling(sp.log(x) / sp.log(2)))
        ok = eq is True
    ctx.ob("R05-DELTA", ok, file, "compute_t_plus", "t+ = 2^ceil(log2 t)", "matches" if ok else "does not match the published t+", tp.lineno)
    init = model.own_method(algo, "__init__")
    st = [s for s in ast.walk(init) if isinstance(s, ast.Assign) and is_self_attr(s.targets[0], "c1")]
    okc = False
    if len(st) == 1:
        Sm = SM.Summarizer(model, algo)
        ps = Sm.run(init)
        vals = {str(p.stores.get("c1")) for p in ps if not p.raises}
        rho, nu = sp.Symbol("rho", positive=True), sp.Symbol("nu", positive=True)
        okc = all(SX.equivalent(p.stores["c1"], (rho / (3 * nu)) ** sp.Rational(1, 8))[0] is True for p in ps if not p.raises and "c1" in p.stores)
    ctx.ob("R05-DELTA", okc, file, "%s.__init__" % algo, "c1 = (rho/(3 nu))^(1/8)", "matches" if okc else "c1 differs from the published constant", init.lineno)
    n = 0
    name_delta_sites(model, algo)
    for fn in c.methods.values():
        for s in ast.walk(fn):
            if is_delta_def(s):
                var = s.targets[0].id
                n += 1
                if delta_uses(fn, var) in ("tau", "both"):
                    n_tau[0] += 1
                qual = "%s.%s" % (algo, fn.name)
                ctx.fn(qual)
                Sm = SM.Summarizer(model, algo)
                Sm.skip_loops = True
                try:
                    ps = Sm.run(fn)
                except SX.Untranslatable as ex:
                    ctx.violation(rule, file, qual, norm_src(s), "cannot read: %s" % ex, s.lineno)
                    continue
                # value of delta_tilde in front of the first loop / at exit
                states = [st2 for (_, st2) in Sm.at_loop] + ps
                vals = [p.locals.get(var) for p in states if p.locals.get(var) is not None]
                # a definition inside a loop body: evaluated on the state in front of the outermost enclosing loop, provided it is
                # loop-invariant (nothing it reads is assigned inside that loop)
                encl = [l for (l, _) in Sm.at_loop if any(x is s for x in ast.walk(l))]
                if encl:
                    L = encl[0]
                    st0 = [q for (l, q) in Sm.at_loop if l is L][0]
                    rd = {x.id for x in ast.walk(s.value) if isinstance(x, ast.Name)}
                    wr = {x.id for x in ast.walk(L) if isinstance(x, ast.Name) and isinstance(x.ctx, ast.Store)} - {var}
                    wa = {x.attr for x in ast.walk(L) if is_self_attr(x) and isinstance(x.ctx, ast.Store)}
                    ra = {x.attr for x in ast.walk(s.value) if is_self_attr(x)}
                    if not (rd & wr) and not (ra & wa):
                        try:
                            Sm.cur = st0
                            vals = [Sm.T.tr(s.value)]
                        except SX.Untranslatable:
                            vals = []
                    else:
                        vals = []
                it = sp.Symbol("iteration", positive=True)
                tplus = 2 ** sp.ceiling(sp.log(it) / sp.log(2))
                # the cap depends on what this delta~ feeds (instances confirmed on the reference tree): thresholds use
                # min(1/2, .) - with cap 1 the threshold ceil(c^2 ln(1/delta~) ..) degenerates to 0 in the early rounds -
                # and confidence widths use min(1, .)
                uses = delta_uses(fn, var)
                want = {"tau": [sp.Rational(1, 2)], "width": [sp.Integer(1)], "both": [], "none": [sp.Integer(1), sp.Rational(1, 2)]}[uses]
                if only_tau and uses not in ("tau", "both"):
                    continue
                good = bool(vals)
                for v in vals:
                    okk = False
                    for kappa in want:
                        eq, _ = SX.equivalent(v, sp.Min(kappa, sp.Symbol("c1", positive=True) * sp.Symbol("delta", positive=True) / tplus))
                        if eq is True:
                            okk = True
                    good &= okk
                ctx.ob(rule, good, file, qual, norm_src(s),
                       "delta~ = min(%s, c1*delta/t+(iteration)) (feeds: %s)" % ("|".join(str(k) for k in want), uses) if good else
                       "delta~ is %s; it feeds %s, for which the cap is %s" % (vals[:1], {"tau": "the expansion thresholds", "width": "the confidence widths",
                                                                                  "both": "both thresholds and widths (they use different caps)",
                                                                                  "none": "nothing recognised"}[uses],
                                                                        "|".join(str(k) for k in want) or "not a single value"), s.lineno)
    if only_tau:
        ctx.count("%s delta~ computations feeding thresholds in %s" % (rule, algo), n_tau[0], 1)
        return
    ctx.count("R05-DELTA delta~ computations in %s" % algo, n, 3)


def check_tau(ctx, algo):
    model = ctx.model
    c = model.cls(algo)
    name_delta_sites(model, algo)
    if algo == "HCT":
        fn = model.own_method("HCT", "optTraverse")
        qual = "HCT.optTraverse"
        ctx.fn(qual)
        fc = CS.FnCtx(model, E.Effects(model), "HCT", fn)
        # self.tau_h rebuilt from scratch: `self.tau_h = [c0]` dominating a loop `for i in range(1, depth+1): self.tau_h.append(f(i))`
        inits = [(n, r) for n, r in fc.defs_of("self.tau_h")]
        fresh = len(inits) == 1 and inits[0][1][0] == "assign" and isinstance(inits[0][1][1], ast.List) and len(inits[0][1][1].elts) == 1
        ctx.ob("R05-TAU", fresh, c.file, qual, "thresholds rebuilt from scratch at every traversal",
               "self.tau_h = [..] once, then one append per depth" if fresh else "self.tau_h is not re-initialised as a one-element list in optTraverse "
               "(thresholds of existing depths would keep an old delta~)", fn.lineno)
        loops = [l for l in ast.walk(fn) if isinstance(l, ast.For) and any(isinstance(x, ast.Call) and norm_src(x.func) == "self.tau_h.append"
                                                                          for x in ast.walk(l))]
        if not loops:
            # equivalent spelling: self.tau_h.extend(f(i) for i in range(1, D+1)) -> rewritten as the loop it stands for
            for st in ast.walk(fn):
                if isinstance(st, ast.Expr) and isinstance(st.value, ast.Call) and norm_src(st.value.func) == "self.tau_h.extend" and \
                        len(st.value.args) == 1 and isinstance(st.value.args[0], (ast.GeneratorExp, ast.ListComp)) and \
                        len(st.value.args[0].generators) == 1 and not st.value.args[0].generators[0].ifs:
                    ge = st.value.args[0]
                    call = ast.Call(func=ast.parse("self.tau_h.append", mode="eval").body, args=[ge.elt], keywords=[])
                    loop = ast.For(target=ge.generators[0].target, iter=ge.generators[0].iter, body=[ast.Expr(value=call)], orelse=[])
                    ast.copy_location(loop, st)
                    ast.fix_missing_locations(loop)
                    par = model.up(st)
                    for fld in ("body", "orelse"):
                        b = getattr(par, fld, None)
                        if isinstance(b, list) and st in b:
                            b[b.index(st)] = loop
                    model.parent[id(loop)] = par
                    loops = [loop]
                    fc = CS.FnCtx(model, E.Effects(model), "HCT", fn)
                    inits = [(n, r) for n, r in fc.defs_of("self.tau_h")]
                    break
        okl = len(loops) == 1 and norm_src(loops[0].iter) == "range(1, self.partition.get_depth() + 1)" and isinstance(loops[0].target, ast.Name)
        ctx.ob("R05-TAU", okl, c.file, qual, "one threshold per depth 1..D in order",
               "for %s in %s" % (norm_src(loops[0].target), norm_src(loops[0].iter)) if loops else "no threshold loop", fn.lineno)
        if okl and fresh:
            i = loops[0].target.id
            if not fc.cfg.dominates(inits[0][0], fc.cfg.node_of(loops[0])):
                ctx.violation("R05-TAU", c.file, qual, "threshold loop", "the re-initialisation does not precede the loop", fn.lineno)
            app = [x for x in ast.walk(loops[0]) if isinstance(x, ast.Call) and norm_src(x.func) == "self.tau_h.append"]
            Sm = SM.Summarizer(model, "HCT")
            Sm.skip_loops = True
            Sm.run(fn)
            st = [p for (l, p) in Sm.at_loop if l is loops[0]]
            ok = False
            if len(app) == 1 and st:
                Sm.cur = st[0]
                h = sp.Symbol("LOOP_DEPTH", positive=True)
                st[0].locals[i] = h
                # temporaries computed inside the loop body before the append
                okbody = True
                for b in loops[0].body:
                    if isinstance(b, ast.Assign) and len(b.targets) == 1 and isinstance(b.targets[0], ast.Name):
                        st[0].locals[b.targets[0].id] = Sm.T.tr(b.value)
                    elif isinstance(b, ast.Expr) and any(x is app[0] for x in ast.walk(b)):
                        break
                    else:
                        okbody = False
                got = Sm.T.tr(app[0].args[0])
                cc, d, rho, nu = S("c"), sp.Symbol("DT", positive=True), S("rho"), S("nu")
                for dv in sorted(delta_vars(fn)):
                    dt = st[0].locals.get(dv)
                    got = got.subs(dt, d) if dt is not None else got
                ref = sp.ceiling(cc ** 2 * sp.log(1 / d) * rho ** (-2 * h) / nu ** 2)
                eq, wit = SX.equivalent(got, ref)
                ok = eq is True
                ctx.ob("R05-TAU", ok, c.file, qual, "tau_h = ceil(c^2 ln(1/delta~) rho^(-2h) / nu^2)",
                       "matches" if ok else "is %s" % got, app[0].lineno)
            else:
                ctx.violation("R05-TAU", c.file, qual, "threshold loop", "not a single append per depth", fn.lineno)
    if algo == "VHCT":
        fn = model.own_method("VHCT_node", "compute_tau_hi_value")
        qual = "VHCT_node.compute_tau_hi_value"
        ctx.fn(qual)
        Sm = SM.Summarizer(model, "VHCT_node")
        ps = Sm.run(fn)
        ok = len(ps) == 1 and "tau" in ps[0].stores
        if ok:
            var, b, nu, rho, h, cc, d = S("variance"), S("bound"), S("nu"), S("rho"), S("depth"), S("c"), S("delta_tilde")
            ref = sp.ceiling((var + 3 * b * nu * rho ** h + var * sp.sqrt(1 + 6 * b * nu * rho ** h / var))
                             * (cc ** 2 * sp.log(1 / d) * rho ** (-2 * h) / nu ** 2))
            eq, wit = SX.equivalent(ps[0].stores["tau"], ref)
            ok = eq is True
        ctx.ob("R05-TAU", ok, model.cls("VHCT_node").file, qual, "variance-aware threshold tau_{h,i}",
               "matches the pinned formula" if ok else "differs from the pinned formula", fn.lineno)
        # every cell of depth >= 1 gets its threshold before the traversal
        ot = model.own_method("VHCT", "optTraverse")
        calls = calls_in(ot, "compute_tau_hi_value")
        okc = False
        whyc = "%d compute_tau_hi_value call(s)" % len(calls)
        if len(calls) == 1:
            fco = CS.FnCtx(model, E.Effects(model), "VHCT", ot)
            at = fco.cfg.node_of(calls[0])
            sw = CS.cell_sweep(fco, calls[0].func.value, at)
            guards = [g for g in fco.cfg.guards(at) if not any(g[0].ast is L for L in (sw["loops"] if sw else []))]
            whiles = [w for w in ast.walk(ot) if isinstance(w, ast.While)]
            before = bool(sw) and len(whiles) == 1 and fco.cfg.dominates(fco.cfg.node_of(sw["loops"][0]), fco.cfg.node_of(whiles[0])) and \
                not any(whiles[0] is x for x in ast.walk(sw["loops"][0]))
            okc = CS.sweep_is_all_layers(fco, sw, min_layer=1) and not sw["partial"] and not guards and before
            whyc = "sweep %s%s%s%s" % (sw["layers"][0] + (":" + "..".join(norm_src(x) for x in sw["layers"][1:]) if sw else "") if sw else "not recognised",
                                     "; cut short by %s" % sw["partial"] if sw and sw["partial"] else "", "; conditional" if guards else "",
                                     "" if before else "; does not precede the descent loop")
        ctx.ob("R05-TAU", okc, c.file, "VHCT.optTraverse", "thresholds of all cells of depth 1..D recomputed before descending",
               "loop over every layer precedes the descent" if okc else "threshold refresh is not a full sweep before the descent (%s)" % whyc, ot.lineno)


def layer_order_bottom_up(fc, sw, cell_loop):
    """Are the layers visited deepest first, exactly the depths D, D-1, .., 1 (D = partition depth, node list length D+1)?
    The sequence of layer indices is evaluated symbolically from the loop form: slices / reversed() of the node list, or a
    range() variable used as NL[i] / NL[-i]."""
    D = sp.Symbol("D", positive=True, integer=True)
    n = D + 1
    T = SX.Translator(positive=True)
    T.call_cb = None

    def val(e):
        """integer expression over D; len(NL) = D+1, partition depth = D"""
        # locals bound exactly once in the function are read through their definition
        class Res(ast.NodeTransformer):
            def visit_Name(self, n):
                ds = [a for a in ast.walk(fc.fn) if isinstance(a, (ast.Assign, ast.AugAssign, ast.For, ast.NamedExpr)) and
                      any(isinstance(x, ast.Name) and x.id == n.id and isinstance(x.ctx, ast.Store) for x in ast.walk(a.targets[0] if isinstance(a, ast.Assign) else a.target))]
                if len(ds) == 1 and isinstance(ds[0], ast.Assign) and isinstance(ds[0].targets[0], ast.Name) and n.id not in _nl_aliases:
                    return ast.copy_location(copy.deepcopy(ds[0].value), n)
                return n
        src = norm_src(Res().visit(copy.deepcopy(e)))
        for a, b in (("self.partition.get_depth()", "D"), ("self.partition.depth", "D"), ("len(self.partition.get_node_list())", "(D + 1)")):
            src = src.replace(a, b)
        for nm in list(_nl_aliases):
            src = src.replace("len(%s)" % nm, "(D + 1)")
        try:
            return sp.sympify(src, locals={"D": D})
        except Exception:
            return None

    def norm_index(v, syntactically_negative):
        return n + v if syntactically_negative else v

    def is_neg(e):
        return isinstance(e, ast.UnaryOp) and isinstance(e.op, ast.USub) or (isinstance(e, ast.BinOp) and isinstance(e.op, ast.Sub) and is_neg(e.left)) \
            or (isinstance(e, ast.Constant) and isinstance(e.value, int) and e.value < 0)

    _nl_aliases = set()
    for nd in ast.walk(fc.fn):
        if isinstance(nd, ast.Assign) and isinstance(nd.targets[0], ast.Name) and norm_src(nd.value) in CS.NODELIST_CALLS:
            _nl_aliases.add(nd.targets[0].id)

    def is_nl(e):
        return norm_src(e) in CS.NODELIST_CALLS or (isinstance(e, ast.Name) and e.id in _nl_aliases)

    def seq_of(e):
        """(first, last, step) of the layer indices an iterable over the node list yields, or None"""
        if is_nl(e):
            return sp.Integer(0), D, 1
        if isinstance(e, ast.Call) and isinstance(e.func, ast.Name) and e.func.id == "reversed" and len(e.args) == 1:
            r = seq_of(e.args[0])
            return (r[1], r[0], -r[2]) if r else None
        if isinstance(e, ast.Call) and isinstance(e.func, ast.Name) and e.func.id == "list" and len(e.args) == 1:
            return seq_of(e.args[0])
        if isinstance(e, ast.Call) and norm_src(e.func) in ("islice", "itertools.islice") and len(e.args) == 2 and not e.keywords:
            # islice(X, n): the first min(n, len X) elements of X
            r = seq_of(e.args[0])
            cnt = val(e.args[1])
            if r is None or cnt is None:
                return None
            size = (r[1] - r[0]) * r[2] + 1
            k = sp.Min(cnt, size)
            return r[0], sp.simplify(r[0] + r[2] * (k - 1)), r[2]
        if isinstance(e, ast.Call) and isinstance(e.func, ast.Name) and e.func.id == "zip" and len(e.args) == 2 and not e.keywords and \
                isinstance(e.args[0], ast.Call) and norm_src(e.args[0].func) == "range" and len(e.args[0].args) == 1:
            # zip(range(n), X): the first min(n, len X) elements of X
            r = seq_of(e.args[1])
            cnt = val(e.args[0].args[0])
            if r is None or cnt is None:
                return None
            size = (r[1] - r[0]) * r[2] + 1
            k = sp.Min(cnt, size)
            return r[0], sp.simplify(r[0] + r[2] * (k - 1)), r[2]
        if isinstance(e, ast.Subscript) and isinstance(e.slice, ast.Slice):
            base = seq_of(e.value)
            if base is None or base != (sp.Integer(0), D, 1):
                # slice of a slice: only NL[a:][::-1]
                if base is not None and e.slice.lower is None and e.slice.upper is None and e.slice.step is not None and norm_src(e.slice.step) == "-1":
                    return base[1], base[0], -base[2]
                return None
            sl = e.slice
            step = 1 if sl.step is None else (-1 if norm_src(sl.step) == "-1" else (1 if norm_src(sl.step) == "1" else None))
            if step is None:
                return None
            lo = None if sl.lower is None else val(sl.lower)
            hi = None if sl.upper is None else val(sl.upper)
            if (sl.lower is not None and lo is None) or (sl.upper is not None and hi is None):
                return None
            if lo is not None:
                lo = norm_index(lo, is_neg(sl.lower))
            if hi is not None:
                hi = norm_index(hi, is_neg(sl.upper))
            if step == 1:
                return (lo if lo is not None else sp.Integer(0)), ((hi - 1) if hi is not None else D), 1
            return (lo if lo is not None else D), ((hi + 1) if hi is not None else sp.Integer(0)), -1
        return None
    loops = sw["loops"]
    lay = sw["layers"]
    outer = loops[0]
    first = last = step = None
    if lay[0] in ("all", "from", "seq"):
        it = outer.iter
        if isinstance(outer.target, ast.Tuple) and isinstance(it, ast.Call) and norm_src(it.func) == "enumerate":
            it = it.args[0]
        r = seq_of(it)
        if r is None:
            return False, "layer order '%s' is not recognised as bottom-up over depths D..1" % norm_src(outer.iter)
        first, last, step = r
    elif lay[0] == "range":
        # for i in range(a, b[, s]): layer index is the expression used to subscript the node list
        it = outer.iter
        a = val(it.args[0]) if len(it.args) >= 2 else sp.Integer(0)
        b = val(it.args[1] if len(it.args) >= 2 else it.args[0])
        if a is None or b is None:
            return False, "range bounds '%s' not understood" % norm_src(it)
        i0, i1, st = a, b - 1, 1
        first, last, step = i0, i1, st
    else:
        # one layer per iteration of an enclosing range loop: NL[f(i)]
        h = lay[1]
        encl = [l for l in CS.enclosing_loops(fc, cell_loop) if isinstance(l, ast.For) and isinstance(l.target, ast.Name) and
                isinstance(l.iter, ast.Call) and norm_src(l.iter.func) in ("range", "reversed")]
        if not encl:
            return False, "the layer index '%s' is not driven by a counting loop" % norm_src(h)
        L = encl[0]
        i = L.target.id
        it = L.iter
        rev = False
        if norm_src(it.func) == "reversed" and len(it.args) == 1 and isinstance(it.args[0], ast.Call) and norm_src(it.args[0].func) == "range":
            it, rev = it.args[0], True
        if norm_src(it.func) != "range":
            return False, "loop '%s' not understood" % norm_src(L.iter)
        args = it.args
        a = val(args[0]) if len(args) >= 2 else sp.Integer(0)
        b = val(args[1] if len(args) >= 2 else args[0])
        st = 1 if len(args) < 3 else (-1 if norm_src(args[2]) == "-1" else (1 if norm_src(args[2]) == "1" else None))
        if a is None or b is None or st is None:
            return False, "range '%s' not understood" % norm_src(it)
        i0, i1 = (a, b - 1) if st == 1 else (a, b + 1)
        if rev:
            i0, i1, st = i1, i0, -st
        # index expression as a function of i (resolve a local alias `layer = NL[..]`)
        hsrc = norm_src(h)
        isym = sp.Symbol(i, integer=True)
        neg = is_neg(h)
        try:
            hv = sp.sympify(hsrc.replace("self.partition.get_depth()", "D"), locals={"D": D, i: isym})
        except Exception:
            return False, "layer index '%s' not understood" % hsrc
        if neg:
            hv = n + hv
        first, last = hv.subs(isym, i0), hv.subs(isym, i1)
        step = sp.simplify(hv.subs(isym, isym + st) - hv)
    ok = sp.simplify(first - D) == 0 and sp.simplify(last - 1) == 0 and sp.simplify(step + 1) == 0
    return ok, ("layer indices run %s, %s%s.., %s" % (first, first, "%+d" % int(step) if step in (1, -1) else "?", last)) if ok else \
        "layers are visited %s -> %s with step %s, not D -> 1 deepest first" % (first, last, step)


def check_backward(ctx, algo):
    """R05-B: B = U at leaves, min(U, max over all children of B) elsewhere, layers deepest first."""
    model = ctx.model
    c = model.cls(algo)
    fn = model.own_method(algo, "updateBackwardTree")
    qual = "%s.updateBackwardTree" % algo
    ctx.fn(qual)
    fc = CS.FnCtx(model, E.Effects(model), algo, fn)
    calls = calls_in(fn, "update_b_value")
    if not calls:
        ctx.violation("R05-B", c.file, qual, "B update", "updateBackwardTree never calls update_b_value", fn.lineno)
        return
    # all update sites sit in one loop over the cells of a layer
    cell_loops = []
    for call in calls:
        recv = call.func.value
        sw = CS.cell_sweep(fc, recv, fc.cfg.node_of(call)) if isinstance(recv, ast.Name) else None
        if sw is None:
            ctx.violation("R05-B", c.file, qual, norm_src(call), "the updated cell is not the element variable of a loop over a layer", call.lineno)
            return
        if sw["loops"][-1] not in cell_loops:
            cell_loops.append(sw["loops"][-1])
    if len(cell_loops) != 1:
        ctx.violation("R05-B", c.file, qual, "cell loop", "B-values are updated in %d different loops" % len(cell_loops), fn.lineno)
        return
    NLp = cell_loops[0]
    sw = CS.cell_sweep(fc, calls[0].func.value, fc.cfg.node_of(calls[0]))
    node = calls[0].func.value.id
    order_ok, how = layer_order_bottom_up(fc, sw, NLp)
    ctx.ob("R05-B", order_ok and not sw["partial"], c.file, qual, "layers visited deepest first, depths D..1, every cell of each",
           how if order_ok and not sw["partial"] else "%s%s" % (how, "; cut short by %s" % sw["partial"] if sw["partial"] else ""), NLp.lineno)
    if not order_ok:
        return
    # per-cell step, path by path: leaf -> B <- U; internal -> B <- min(U, max over ALL children of B)
    tmpl = ast.FunctionDef(name="__cell_step", args=ast.arguments(posonlyargs=[], args=[ast.arg(arg="self"), ast.arg(arg=node)], kwonlyargs=[],
                                                                    kw_defaults=[], defaults=[]), body=list(NLp.body), decorator_list=[])
    ast.fix_missing_locations(tmpl)
    Sm = SM.Summarizer(model, algo)
    try:
        ps = Sm.run(tmpl, params={node: Sm.T.sym(node)})
    except (SM.HasLoop, SX.Untranslatable) as ex:
        ctx.violation("R05-B", c.file, qual, "per-cell step", "cannot summarise the per-cell step: %s" % ex, NLp.lineno)
        return
    U = sp.Function("CALL_%s_get_u_value" % node)()
    KIDS = sp.Function("CALL_%s_get_children" % node)()
    REF = sp.Min(U, sp.Function("REDUCE_max")(-sp.oo, KIDS, sp.Function("CALL_ELEM_get_b_value")()))
    seen = {"leaf": 0, "internal": 0}
    for p in ps:
        kind = None
        bad = None
        for csrc, pol in p.conds:
            e = ast.parse(csrc, mode="eval").body
            subj = None
            if isinstance(e, ast.Compare) and len(e.ops) == 1 and isinstance(e.ops[0], (ast.Is, ast.IsNot)) and norm_src(e.comparators[0]) == "None":
                try:
                    subj = Sm.tr(e.left, p)
                except SX.Untranslatable:
                    subj = None
                is_none = isinstance(e.ops[0], ast.Is) == pol
            elif isinstance(e, ast.Name) or isinstance(e, ast.Call):
                try:
                    subj = Sm.tr(e, p)
                except SX.Untranslatable:
                    subj = None
                is_none = not pol        # truthiness of the child list: None and [] are both 'no children'
            if subj is None or subj != KIDS:
                bad = csrc
                break
            k2 = "leaf" if is_none else "internal"
            if kind is not None and kind != k2:
                kind = "infeasible"
            elif kind is None:
                kind = k2
        if kind == "infeasible":
            continue
        ups = [e for e in p.effects if e[1] == "update_b_value"]
        others = [e for e in p.effects if e[1] != "update_b_value"] + [x for x in p.calls if x.startswith("store ")]
        if bad is not None or kind is None:
            ctx.violation("R05-B", c.file, qual, "per-cell step", "the update depends on a condition other than 'cell has children': %s" % (bad or p.conds), NLp.lineno)
            continue
        seen[kind] += 1
        okp = len(ups) == 1 and ups[0][0] == node and ups[0][2] is not None and len(ups[0][2]) + len(ups[0][3]) == 1 and not others
        val = (ups[0][2] + list(ups[0][3].values()))[0] if okp else None
        want = U if kind == "leaf" else REF
        okp = okp and SX.equivalent(val, want)[0] is True
        ctx.ob("R05-B", okp, c.file, qual, "leaf: B <- U" if kind == "leaf" else "internal cell: B <- min(U, max over all children of B), maximum seeded with -inf",
               "B <- %s" % val if okp else "B <- %s on the path %s; expected %s%s" % (val, p.conds, want, "; other effects %s" % others if others else ""), NLp.lineno)
    if not (seen["leaf"] and seen["internal"]):
        ctx.violation("R05-B", c.file, qual, "per-cell step", "leaf and internal cells are not both handled (%s)" % seen, NLp.lineno)
    # getters / setter
    ncls = TREE_ALGOS[algo]
    for g, a in (("get_b_value", "b_value"), ("get_u_value", "u_value")):
        f2 = model.own_method(ncls, g)
        b2 = strip_doc(f2.body)
        ok = len(b2) == 1 and isinstance(b2[0], ast.Return) and norm_src(b2[0].value) == "self." + a
        ctx.ob("R05-B", ok, model.cls(ncls).file, "%s.%s" % (ncls, g), "return self.%s" % a, "getter returns the stored value", f2.lineno, nontrivial=False)
    f2 = model.own_method(ncls, "update_b_value")
    b2 = strip_doc(f2.body)
    ok = len(b2) == 1 and norm_src(b2[0]) == "self.b_value = %s" % f2.args.args[1].arg
    ctx.ob("R05-B", ok, model.cls(ncls).file, "%s.update_b_value" % ncls, "self.b_value = b_value", "setter stores its argument", f2.lineno, nontrivial=False)


def check_descent(ctx, algo):
    model = ctx.model
    c = model.cls(algo)
    fn = model.own_method(algo, "optTraverse")
    qual = "%s.optTraverse" % algo
    ctx.fn(qual)
    whiles = [w for w in ast.walk(fn) if isinstance(w, ast.While)]
    if len(whiles) != 1:
        ctx.violation("R05-DESCENT", c.file, qual, "descent loop", "expected one while loop", fn.lineno)
        return
    W = whiles[0]
    # continue-condition: the while test plus every top-level `if c: break` of the body (the loop goes on iff all of them
    # let it); local aliases assigned once in the body before the test are resolved
    def resolve(e, upto):
        defs = {}
        for b in W.body:
            if b is upto:
                break
            if isinstance(b, ast.Assign) and len(b.targets) == 1 and isinstance(b.targets[0], ast.Name):
                defs[b.targets[0].id] = b.value

        class Sub(ast.NodeTransformer):
            def visit_Name(self, n):
                if isinstance(n.ctx, ast.Load) and n.id in defs:
                    return ast.parse(ast.unparse(defs[n.id]), mode="eval").body
                return n
        return Sub().visit(ast.parse(ast.unparse(e), mode="eval").body)
    atoms = set()
    if not (isinstance(W.test, ast.Constant) and W.test.value is True):
        atoms |= {C.atom_of(e, pol) for e, pol in C.flatten_cond(W.test, True)}
    exits = []
    for b in W.body:
        if isinstance(b, ast.If) and not b.orelse and len(b.body) == 1 and isinstance(b.body[0], ast.Break):
            atoms |= {C.atom_of(e, pol) for e, pol in C.flatten_cond(resolve(b.test, b), False)}
            exits.append(b)
    other = [x for b in W.body for x in ast.walk(b) if isinstance(x, (ast.Break, ast.Return, ast.Continue, ast.Raise)) and
             not any(x is e.body[0] for e in exits)]
    if other:
        ctx.violation("R05-DESCENT", c.file, qual, norm_src(other[0]), "the descent loop has an exit the rule does not account for", other[0].lineno)
        return
    cur = None
    for a in atoms:
        if a[0] == "is not" and a[1].endswith(".get_children()") and a[2] == "None":
            cur = a[1][: -len(".get_children()")]
    if cur is None:
        ctx.violation("R05-DESCENT", c.file, qual, norm_src(W.test), "the descent does not continue on 'cell has children'", W.lineno)
        return
    want = {("is not", "%s.get_children()" % cur, "None")}
    fc = CS.FnCtx(model, E.Effects(model), algo, fn)
    wn = fc.cfg.node_of(W)
    if algo == "HCT":
        # a threshold looked up at a local counter that is the cursor's depth (kept in lock-step with the descent) is the
        # threshold of the cursor's depth
        for a in list(atoms):
            for k in (1, 2):
                if isinstance(a[k], str) and a[k].startswith("self.tau_h[") and a[k].endswith("]") and a[k] != "self.tau_h[%s.get_depth()]" % cur:
                    try:
                        idx = ast.parse(a[k][len("self.tau_h["):-1], mode="eval").body
                    except SyntaxError:
                        continue
                    okd, _how = CS.proves_depth(fc, ast.Name(id=cur, ctx=ast.Load()), idx, wn) if cur.isidentifier() else (False, "")
                    if okd:
                        atoms.discard(a)
                        b = list(a)
                        b[k] = "self.tau_h[%s.get_depth()]" % cur
                        atoms.add(tuple(b))
        want.add(("<=", "self.tau_h[%s.get_depth()]" % cur, "%s.get_visited_times()" % cur))
    if algo == "VHCT":
        want.add(("<=", "%s.get_tau_hi_value()" % cur, "%s.get_visited_times()" % cur))
    ctx.ob("R05-DESCENT", atoms == want, c.file, qual, "continue-condition of the descent",
           "%s" % sorted(atoms) if atoms == want else "is %s, published rule is %s" % (sorted(atoms), sorted(want)), W.lineno)
    # start at the root
    ds, entry = fc.reaching(cur, wn)
    starts = [r for n, r in ds if not fc.cfg.paths_avoiding(wn, n, ())]
    ok = not entry and len(starts) == 1 and starts[0][0] == "assign" and norm_src(starts[0][1]) in ("self.partition.get_root()", "self.partition.root")
    ctx.ob("R05-DESCENT", ok, c.file, qual, "descent starts at the root", "%s" % [norm_src(r[1]) for r in starts if r[0] == "assign"], W.lineno)
    # step: argmax of B over all children
    folds = [f for f in ID.find_folds(fn) if f.if_node in list(ast.walk(W))]
    if len(folds) != 1:
        desc = [f.describe() + (" [%s]" % "; ".join(f.also) if f.also else "") for f in folds]
        ctx.violation("R05-DESCENT", c.file, qual, "child selection",
                      "not recognised as 'move to a child with maximal B' (%s)" % (desc or "no arg-max fold found"), W.lineno)
        return
    f = folds[0]
    kids = "%s.get_children()" % cur
    set_ok = f.set_src == kids
    if not set_ok and f.set_src.isidentifier() and cur.isidentifier():
        # a local that holds the cursor's child list whenever the selection reads it (defined at the top of the body, or before
        # the loop and again after each move): every definition reaching the selection is `= <cursor>.get_children()` with the
        # cursor not moved since
        probe = ast.parse("%s[0]" % f.set_src, mode="eval").body
        try:
            at_fold = fc.node_of(f.loop) if getattr(f, "loop", None) is not None else fc.node_of(model.enclosing_stmt(f.if_node))
            set_ok = CS.is_child_of(fc, probe, cur, at_fold)
        except Exception:
            set_ok = False
    okf = (f.direction == "max" and f.covers_all and not f.also and not f.filters and f.key_src == "%s.get_b_value()" % f.elem and set_ok
           and f.seed in ("first-element", "-np.inf", "-math.inf", "-float('inf')", "float('-inf')"))
    ctx.ob("R05-DESCENT", okf, c.file, qual, "step: child with maximal B among all children", f.describe() + ("; " + "; ".join(f.also) if f.also else ""),
           f.if_node.lineno)
    mv = [s2 for s2 in W.body if isinstance(s2, ast.Assign) and norm_src(s2.targets[0]) == cur]
    okm = len(mv) == 1 and norm_src(mv[0].value) == f.winner and W.body.index(mv[0]) > max(W.body.index(s2) for s2 in W.body if f.if_node in list(ast.walk(s2)))
    ctx.ob("R05-DESCENT", okm, c.file, qual, "cursor moves to the selected child", "%s" % [norm_src(s2) for s2 in mv], W.lineno)
    # pull returns that cell's representative (checked with the path pairing in C04 R04-PAIR)


def check_fresh(ctx, algo):
    """R05-FRESH: after any U-value is written in updateAllTree, updateBackwardTree runs before the function exits."""
    model = ctx.model
    c = model.cls(algo)
    fn = model.own_method(algo, "updateAllTree")
    qual = "%s.updateAllTree" % algo
    ctx.fn(qual)
    g = C.CFG(fn)
    ustores = [n for n in g.nodes if n.ast is not None and any(isinstance(x, ast.Call) and method_name(x) in ("compute_u_value", "updateUvalueTree")
                                                                for r in E.node_exprs(n) for x in ast.walk(r))]
    backs = [n for n in g.nodes if n.ast is not None and any(isinstance(x, ast.Call) and method_name(x) == "updateBackwardTree"
                                                              for r in E.node_exprs(n) for x in ast.walk(r))]
    ctx.count("R05-FRESH U-writing sites in %s.updateAllTree" % algo, len(ustores), 1)
    for n in ustores:
        ok = g.must_pass(n, backs, [g.exit])
        ctx.ob("R05-FRESH", ok, c.file, qual, norm_src(n.ast),
               "followed by updateBackwardTree on every path" if ok else "B-values can be left stale: a path from here to the exit skips updateBackwardTree", n.line)
    # the recorded reward reaches U before B is refreshed: update_reward precedes the last compute_u_value
    rew = [n for n in g.nodes if n.ast is not None and any(isinstance(x, ast.Call) and method_name(x) == "updateRewardTree"
                                                            for r in E.node_exprs(n) for x in ast.walk(r))]
    for n in rew:
        ok = g.must_pass(n, ustores, [g.exit])
        ctx.ob("R05-FRESH", ok, c.file, qual, norm_src(n.ast),
               "the new reward flows into a U-value before the function returns" if ok else "the new reward is recorded but no U-value is recomputed afterwards", n.line)
    # whole-tree refresh condition (HCT/VHCT): iteration == t+
    if algo in ("HCT", "VHCT"):
        refresh = [n for n in ustores if any(isinstance(x, ast.Call) and method_name(x) == "updateUvalueTree" for r in E.node_exprs(n) for x in ast.walk(r))]
        ok = False
        why = "no whole-tree refresh"
        fcr = CS.FnCtx(model, E.Effects(model), algo, fn)

        def is_t_plus(src, test_node):
            """src is compute_t_plus(self.iteration), or a local whose only reaching definition at the test is that call,
            with self.iteration unchanged in between"""
            if src == "compute_t_plus(self.iteration)":
                return True
            if src.isidentifier():
                tn = fcr.cfg.node_of(test_node.ast)
                ds, entry = fcr.reaching(src, tn)
                return (not entry and len(ds) == 1 and ds[0][1][0] == "assign" and norm_src(ds[0][1][1]) == "compute_t_plus(self.iteration)"
                        and not fcr.stores_between(ds[0][0], tn, {"self.iteration"}, ()))
            return False
        for n in refresh:
            fl = C.facts_at(g, n)
            facts = [a for a, t, lab, e in fl]
            ok = any(a[0] == "==" and "self.iteration" in (a[1], a[2]) and is_t_plus(a[2] if a[1] == "self.iteration" else a[1], t)
                     for a, t, lab, e in fl)
            why = "guards: %s" % facts
        ctx.ob("R05-DELTA", ok, c.file, qual, "whole-tree refresh when the round counter reaches a power of two", why, fn.lineno)


def check_update_uvalue_tree(ctx, algo):
    """updateUvalueTree visits every cell of every layer."""
    model = ctx.model
    c = model.cls(algo)
    fn = model.own_method(algo, "updateUvalueTree")
    fc = CS.FnCtx(model, E.Effects(model), algo, fn)
    calls = calls_in(fn, "compute_u_value")
    ok = len(calls) == 1
    why = "%d compute_u_value call(s)" % len(calls)
    if ok:
        at = fc.cfg.node_of(calls[0])
        sw = CS.cell_sweep(fc, calls[0].func.value, at)
        guards = [g for g in fc.cfg.guards(at) if not any(g[0].ast is L for L in (sw["loops"] if sw else []))]
        ok = CS.sweep_is_all_layers(fc, sw) and not sw["partial"] and not guards
        why = ("sweep %s%s%s" % (sw["layers"][0] if sw else "not recognised", "; cut short by %s" % sw["partial"] if sw and sw["partial"] else "",
                                 "; conditional" if guards else ""))
    ctx.ob("R05-U", ok, c.file, "%s.updateUvalueTree" % algo, "U recomputed for every cell of every layer",
           "every layer, every cell, unconditionally" if ok else "not a full sweep over node_list (%s)" % why, fn.lineno)


def run(ctx):
    for algo, ncls in TREE_ALGOS.items():
        if algo not in ctx.model.classes or ncls not in ctx.model.classes:
            raise AnalysisError("%s / %s not found" % (algo, ncls))
        fa = ctx.model.cls(algo).file
        ctx.attempt("R05-U", fa, "%s.compute_u_value" % ncls, "U-value", check_u, ctx, algo, ncls)
        ctx.attempt("R05-PARAM", fa, "%s.__init__" % algo, "parameters", ctor_params_flow, ctx, algo)
        ctx.attempt("R05-PARAM", fa, algo, "call bindings", check_call_bindings, ctx, algo, ncls)
        ctx.attempt("R05-U", fa, "%s.updateUvalueTree" % algo, "full sweep", check_update_uvalue_tree, ctx, algo)
        if algo != "T_HOO":
            ctx.attempt("R05-DELTA", fa, algo, "delta~", delta_sites, ctx, algo)
            ctx.attempt("R05-TAU", fa, algo, "thresholds", check_tau, ctx, algo)
        ctx.attempt("R05-B", fa, "%s.updateBackwardTree" % algo, "B recursion", check_backward, ctx, algo)
        ctx.attempt("R05-DESCENT", fa, "%s.optTraverse" % algo, "descent", check_descent, ctx, algo)
        ctx.attempt("R05-FRESH", fa, "%s.updateAllTree" % algo, "refresh order", check_fresh, ctx, algo)
    # the statistics the index is built from are the empirical ones (mean, count, clipped variance of the cell's own rewards)
    from . import c04
    from ..report import Ctx
    tmp = Ctx(ctx.prop, ctx.tier, ctx.seed, ctx.model)
    c04.check_node_classes(tmp, only=sorted(TREE_ALGOS.values()))
    for o in tmp.obligations:
        ctx.obligations.append(dict(o, rule="R05-STAT"))
    for f in tmp.findings:
        ctx.add_finding("R05-STAT", f.file, f.qual, f.construct, f.why, f.line)
    ctx.functions |= tmp.functions
    ctx.shortfalls += tmp.shortfalls
    # ... of the RAW history: the value recorded for a round is the reward that was received, unchanged (C04's once-rule for the
    # three algorithms), and the round counter behind t+ / delta~ / the thresholds is the algorithm's own count of rounds, not the
    # caller's time label (C15's taint rule)
    from .. import credit as CR
    tmp2 = Ctx(ctx.prop, ctx.tier, ctx.seed, ctx.model)
    for algo in TREE_ALGOS:
        cls = ctx.model.cls(algo)
        tmp2.attempt("R04-ONCE", cls.file, "%s.receive_reward" % algo, "recording", c04.check_once, tmp2, cls, CR.credit_paths(ctx.model, algo))
    for o in tmp2.obligations:
        ctx.obligations.append(dict(o, rule="R05-STAT"))
    for f in tmp2.findings:
        ctx.add_finding("R05-STAT", f.file, f.qual, f.construct, "the index is built from the raw reward history: %s" % f.why, f.line)
    ctx.functions |= tmp2.functions
    from . import c15
    c15.import_taint(ctx, list(TREE_ALGOS), "R05-TIME", "t+, delta~, thresholds and widths are functions of the number of rounds played")
    # the descent moves to a CHILD of the current cell: get_children() must return exactly the cells created by splitting that cell (C03's one-step lemma: no aliasing between a child list and a layer, parent/child links consistent)
    from . import _partition
    _partition.feed(ctx, (), rename={"R03-ALIAS": "R05-TREE", "R03-LINK": "R05-TREE"})
    return dict(
        explanation=(
            "For T-HOO, HCT and VHCT: (U) compute_u_value is summarised symbolically (two cases: never pulled -> infinite U; pulled -> "
            "closed form) and the closed form is proved equal (sympy, positive symbols) to the published index mean + nu*rho^depth + "
            "width; the parameters reach it unchanged (constructor stores, call bindings); (DELTA) t+ = 2^ceil(log2 t), delta~ = "
            "min(kappa, c1 delta/t+), c1 = (rho/(3nu))^(1/8), whole-tree refresh guarded by iteration == t+; (TAU) HCT thresholds are "
            "rebuilt from scratch at every traversal, one per depth 1..D, equal to ceil(c^2 ln(1/delta~) rho^(-2h)/nu^2); VHCT's "
            "variance-aware threshold equals the pinned formula and is refreshed for all cells before descending; (B) "
            "updateBackwardTree visits layers deepest-first over depths D..1, sets B=U at leaves and B=min(U, max over ALL children of "
            "B seeded with -inf) elsewhere; (DESCENT) optTraverse starts at the root, continues exactly while the published condition "
            "holds, and steps to an arg-max-B child over all children; (FRESH) every U write in updateAllTree is followed by "
            "updateBackwardTree on all paths and the new reward reaches a U-value before return. Not decided: that stored U/B equal "
            "the values re-derived from the raw history at every round (HCT refreshes the whole tree only at powers of two)."),
        assumptions=["positive parameters (nu, rho, c, delta, bound, T >= 1)", "sympy equivalence of single expressions; numeric "
                     "identity test at rational points when simplify is inconclusive",
                     "VHCT threshold: no independent published statement in the repository, pinned formula is the reference"],
        technique="symbolic method summaries + sympy equivalence against published formulas; structural recognisers for the B recursion, descent and refresh order",
    )
