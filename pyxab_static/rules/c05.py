"""C05 - T-HOO, HCT and VHCT pull the cell chosen by the published optimistic index.

Reference formulas are the published ones (HOO: Bubeck et al. 2011; HCT: Azar et al. 2014, the pseudo-code shipped
in docs/; VHCT: Li et al. 2021 as implemented - its variance-aware threshold has no independent statement in the
repository, so the pinned formula is the reference and the rule guards it against change).
"""
import ast

import sympy as sp

from .. import callsites as CS
from .. import cfg as C
from .. import effects as E
from .. import idioms as ID
from .. import summary as SM
from .. import symx as SX
from ..model import call_name, calls_in, get_arg, is_self_attr, method_name, strip_doc
from ..report import AnalysisError, norm_src

TREE_ALGOS = {"T_HOO": "HOO_node", "HCT": "HCT_node", "VHCT": "VHCT_node"}


def S(name):
    return sp.Symbol(name, positive=True)


def reference_u(cls):
    mu = SX.SUM(S("rewards")) / S("visited_times")
    T, nu, rho, h = S("visited_times"), S("nu"), S("rho"), S("depth")
    if cls == "T_HOO":
        return mu + sp.sqrt(2 * sp.log(S("rounds")) / T) + nu * rho ** h
    c, d = S("c"), S("delta_tilde")
    if cls == "HCT":
        return mu + nu * rho ** h + c * sp.sqrt(sp.log(1 / d) / T)
    b, var = S("bound"), S("variance")
    return mu + nu * rho ** h + c * sp.sqrt(2 * var * sp.log(1 / d) / T) + 3 * b * c ** 2 * sp.log(1 / d) / T


def canon(e):
    """mean of rewards may be written SUM/T, SUM/LEN or via np.average: identify LEN(rewards) with the count."""
    return e.subs(SX.LEN(S("rewards")), S("visited_times"))


def check_u(ctx, algo, ncls):
    model = ctx.model
    c = model.cls(ncls)
    fn = model.own_method(ncls, "compute_u_value")
    qual = "%s.compute_u_value" % ncls
    ctx.fn(qual)
    Sm = SM.Summarizer(model, ncls)
    try:
        ps = Sm.run(fn)
    except (SM.HasLoop, SX.Untranslatable) as ex:
        ctx.violation("R05-U", c.file, qual, "compute_u_value", "cannot summarise: %s" % ex, fn.lineno)
        return
    ref = reference_u(algo)
    visited = [p for p in ps if ("self.visited_times == 0", False) in p.conds and len(p.conds) == 1]
    unvisited = [p for p in ps if ("self.visited_times == 0", True) in p.conds and len(p.conds) == 1]
    ok_shape = len(ps) == 2 and len(visited) == 1 and len(unvisited) == 1
    ctx.ob("R05-U", ok_shape, c.file, qual, "two cases: never pulled / pulled",
           "paths: %s" % [p.conds for p in ps], fn.lineno, nontrivial=False)
    if not ok_shape:
        return
    got = visited[0].stores.get("u_value")
    if got is None:
        ctx.violation("R05-U", c.file, qual, "self.u_value", "the U-value is not stored for a pulled cell", fn.lineno)
    else:
        eq, wit = SX.equivalent(canon(got), canon(ref))
        ctx.ob("R05-U", eq is True, c.file, qual, "U-value of a pulled cell",
               "== %s" % ref if eq is True else "is %s; the published index is %s%s" % (got, ref, " (differ at %s)" % wit if wit else ""), fn.lineno)
        m = visited[0].stores.get("mean_reward")
        if m is not None:
            eq2, _ = SX.equivalent(canon(m), SX.SUM(S("rewards")) / S("visited_times"))
            ctx.ob("R05-U", eq2 is True, c.file, qual, "recomputed mean", "== sum(rewards)/count" if eq2 is True else "is %s" % m, fn.lineno)
    # unvisited: U is infinite (stored, or untouched with the constructor's inf)
    u0 = unvisited[0].stores.get("u_value")
    init = model.own_method(ncls, "__init__")
    init_inf = any(isinstance(s, ast.Assign) and is_self_attr(s.targets[0], "u_value") and norm_src(s.value) in ("np.inf", "math.inf", "float('inf')")
                   for s in ast.walk(init))
    ok0 = (u0 == sp.oo) or (u0 is None and init_inf)
    ctx.ob("R05-U", ok0, c.file, qual, "U-value of a never-pulled cell is infinite",
           "stored inf" if u0 == sp.oo else ("left at the constructor's inf" if ok0 else "is %s" % u0), fn.lineno)
    other = [a for a in unvisited[0].stores if a not in ("u_value", "b_value")]
    ctx.ob("R05-U", not other, c.file, qual, "never-pulled case touches nothing else", "stores %s" % sorted(unvisited[0].stores), fn.lineno,
           nontrivial=False)


def ctor_params_flow(ctx, algo):
    """self.nu = nu etc.: every parameter attribute used by the index holds the constructor argument itself."""
    model = ctx.model
    c = model.cls(algo)
    init = model.own_method(algo, "__init__")
    params = [a.arg for a in init.args.args][1:]
    want = [p for p in ("nu", "rho", "c", "delta", "bound", "rounds") if p in params]
    for pn in want:
        st = [s for s in ast.walk(init) if isinstance(s, ast.Assign) and any(is_self_attr(t, pn) for t in s.targets)]
        ok = len(st) == 1 and norm_src(st[0].value) == pn
        ctx.ob("R05-PARAM", ok, c.file, "%s.__init__" % algo, "self.%s = %s" % (pn, pn),
               "parameter stored unchanged" if ok else "self.%s is %s" % (pn, [norm_src(s.value) for s in st]), init.lineno)
    # no other store to these attributes anywhere
    for fn in c.methods.values():
        if fn.name == "__init__":
            continue
        for s in ast.walk(fn):
            tg = s.targets if isinstance(s, ast.Assign) else ([s.target] if isinstance(s, (ast.AugAssign, ast.AnnAssign)) else [])
            for t in tg:
                if is_self_attr(t) and t.attr in want + ["c1"]:
                    ctx.violation("R05-PARAM", c.file, "%s.%s" % (algo, fn.name), norm_src(s), "a parameter of the index is modified after construction", s.lineno)


def check_call_bindings(ctx, algo, ncls):
    """Every call of compute_u_value / compute_tau_hi_value passes self.<p> for parameter p and the locally
    computed delta_tilde."""
    model = ctx.model
    c = model.cls(algo)
    n = 0
    for fn in c.methods.values():
        for call in ast.walk(fn):
            if isinstance(call, ast.Call) and method_name(call) in ("compute_u_value", "compute_tau_hi_value"):
                n += 1
                callee = model.own_method(ncls, method_name(call))
                ps = [a.arg for a in callee.args.args][1:]
                bound = {}
                for k, a in zip(ps, call.args):
                    bound[k] = norm_src(a)
                for k in call.keywords:
                    bound[k.arg] = norm_src(k.value)
                bad = []
                for k in ps:
                    v = bound.get(k)
                    if k == "delta_tilde":
                        if v not in delta_vars(fn):
                            bad.append("%s=%s" % (k, v))
                    elif v != "self." + k:
                        bad.append("%s=%s" % (k, v))
                ctx.ob("R05-PARAM", not bad, c.file, "%s.%s" % (algo, fn.name), norm_src(call),
                       "every parameter bound to the algorithm's own attribute of that name" if not bad else "mis-bound: %s" % bad, call.lineno)
    ctx.count("R05-PARAM index-evaluation call sites in %s" % algo, n, 1 if algo == "T_HOO" else 2)


def is_delta_def(s):
    """An assignment `<local> = min(kappa, ... self.delta ...)`: a delta~ computation whatever the local is called."""
    if not (isinstance(s, ast.Assign) and len(s.targets) == 1 and isinstance(s.targets[0], ast.Name) and isinstance(s.value, ast.Call)):
        return False
    if s.targets[0].id == "delta_tilde":
        return True
    f = norm_src(s.value.func)
    return f in ("np.minimum", "min", "numpy.minimum", "np.fmin") and any(is_self_attr(y, "delta") for y in ast.walk(s.value))


def delta_vars(fn):
    return {x.targets[0].id for x in ast.walk(fn) if is_delta_def(x)} | {a.arg for a in fn.args.args if a.arg == "delta_tilde"}


def delta_uses(fn, var="delta_tilde"):
    """What the local delta~ of `fn` feeds: 'tau' (threshold list / compute_tau_hi_value), 'width' (compute_u_value), 'both', 'none'."""
    tau = width = False
    for x in ast.walk(fn):
        if isinstance(x, ast.Call) and any(isinstance(y, ast.Name) and y.id == var for a in list(x.args) + [k.value for k in x.keywords]
                                           for y in ast.walk(a)):
            m = method_name(x) or call_name(x) or ""
            if m == "compute_tau_hi_value" or (m in ("append", "extend") and "tau" in norm_src(x.func)):
                tau = True
            elif m == "compute_u_value":
                width = True
        if isinstance(x, ast.Assign) and "tau" in norm_src(x.targets[0]) and any(isinstance(y, ast.Name) and y.id == var for y in ast.walk(x.value)):
            tau = True
    return "both" if tau and width else "tau" if tau else "width" if width else "none"


def delta_sites(ctx, algo, rule="R05-DELTA", only_tau=False):
    """R05-DELTA: t+ = 2^ceil(log2 t), delta~ = min(kappa, c1*delta/t+), c1 = (rho/(3 nu))^(1/8)."""
    n_tau = [0]
    model = ctx.model
    c = model.cls(algo)
    file = c.file
    tp = model.module_function(file, "compute_t_plus")
    if tp is None:
        raise AnalysisError("compute_t_plus not found in %s" % file)
    T = SX.Translator(positive=True)
    body = strip_doc(tp.body)
    x = T.sym(tp.args.args[0].arg)
    ok = len(body) == 1 and isinstance(body[0], ast.Return)
    if ok:
        got = T.tr(body[0].value)
        eq, wit = SX.equivalent(got, 2 ** sp.ceiling(sp.log(x) / sp.log(2)))
        ok = eq is True
    ctx.ob("R05-DELTA", ok, file, "compute_t_plus", "t+ = 2^ceil(log2 t)", "matches" if ok else "does not match the published t+", tp.lineno)
    init = model.own_method(algo, "__init__")
    st = [s for s in ast.walk(init) if isinstance(s, ast.Assign) and is_self_attr(s.targets[0], "c1")]
    okc = False
    if len(st) == 1:
        Sm = SM.Summarizer(model, algo)
        ps = Sm.run(init)
        vals = {str(p.stores.get("c1")) for p in ps if not p.raises}
        rho, nu = sp.Symbol("rho", positive=True), sp.Symbol("nu", positive=True)
        okc = all(SX.equivalent(p.stores["c1"], (rho / (3 * nu)) ** sp.Rational(1, 8))[0] is True for p in ps if not p.raises and "c1" in p.stores)
    ctx.ob("R05-DELTA", okc, file, "%s.__init__" % algo, "c1 = (rho/(3 nu))^(1/8)", "matches" if okc else "c1 differs from the published constant", init.lineno)
    n = 0
    for fn in c.methods.values():
        for s in ast.walk(fn):
            if is_delta_def(s):
                var = s.targets[0].id
                n += 1
                if delta_uses(fn, var) in ("tau", "both"):
                    n_tau[0] += 1
                qual = "%s.%s" % (algo, fn.name)
                ctx.fn(qual)
                Sm = SM.Summarizer(model, algo)
                Sm.skip_loops = True
                try:
                    ps = Sm.run(fn)
                except SX.Untranslatable as ex:
                    ctx.violation(rule, file, qual, norm_src(s), "cannot read: %s" % ex, s.lineno)
                    continue
                # value of delta_tilde in front of the first loop / at exit
                states = [st2 for (_, st2) in Sm.at_loop] + ps
                vals = [p.locals.get(var) for p in states if p.locals.get(var) is not None]
                it = sp.Symbol("iteration", positive=True)
                tplus = 2 ** sp.ceiling(sp.log(it) / sp.log(2))
                # the cap depends on what this delta~ feeds (instances confirmed on the reference tree): thresholds use
                # min(1/2, .) - with cap 1 the threshold ceil(c^2 ln(1/delta~) ..) degenerates to 0 in the early rounds -
                # and confidence widths use min(1, .)
                uses = delta_uses(fn, var)
                want = {"tau": [sp.Rational(1, 2)], "width": [sp.Integer(1)], "both": [], "none": [sp.Integer(1), sp.Rational(1, 2)]}[uses]
                if only_tau and uses not in ("tau", "both"):
                    continue
                good = bool(vals)
                for v in vals:
                    okk = False
                    for kappa in want:
                        eq, _ = SX.equivalent(v, sp.Min(kappa, sp.Symbol("c1", positive=True) * sp.Symbol("delta", positive=True) / tplus))
                        if eq is True:
                            okk = True
                    good &= okk
                ctx.ob(rule, good, file, qual, norm_src(s),
                       "delta~ = min(%s, c1*delta/t+(iteration)) (feeds: %s)" % ("|".join(str(k) for k in want), uses) if good else
                       "delta~ is %s; it feeds %s, for which the cap is %s" % (vals[:1], {"tau": "the expansion thresholds", "width": "the confidence widths",
                                                                                  "both": "both thresholds and widths (they use different caps)",
                                                                                  "none": "nothing recognised"}[uses],
                                                                        "|".join(str(k) for k in want) or "not a single value"), s.lineno)
    if only_tau:
        ctx.count("%s delta~ computations feeding thresholds in %s" % (rule, algo), n_tau[0], 1)
        return
    ctx.count("R05-DELTA delta~ computations in %s" % algo, n, 3)


def check_tau(ctx, algo):
    model = ctx.model
    c = model.cls(algo)
    if algo == "HCT":
        fn = model.own_method("HCT", "optTraverse")
        qual = "HCT.optTraverse"
        ctx.fn(qual)
        fc = CS.FnCtx(model, E.Effects(model), "HCT", fn)
        # self.tau_h rebuilt from scratch: `self.tau_h = [c0]` dominating a loop `for i in range(1, depth+1): self.tau_h.append(f(i))`
        inits = [(n, r) for n, r in fc.defs_of("self.tau_h")]
        fresh = len(inits) == 1 and inits[0][1][0] == "assign" and isinstance(inits[0][1][1], ast.List) and len(inits[0][1][1].elts) == 1
        ctx.ob("R05-TAU", fresh, c.file, qual, "thresholds rebuilt from scratch at every traversal",
               "self.tau_h = [..] once, then one append per depth" if fresh else "self.tau_h is not re-initialised as a one-element list in optTraverse "
               "(thresholds of existing depths would keep an old delta~)", fn.lineno)
        loops = [l for l in ast.walk(fn) if isinstance(l, ast.For) and any(isinstance(x, ast.Call) and norm_src(x.func) == "self.tau_h.append"
                                                                          for x in ast.walk(l))]
        if not loops:
            # equivalent spelling: self.tau_h.extend(f(i) for i in range(1, D+1)) -> rewritten as the loop it stands for
            for st in ast.walk(fn):
                if isinstance(st, ast.Expr) and isinstance(st.value, ast.Call) and norm_src(st.value.func) == "self.tau_h.extend" and \
                        len(st.value.args) == 1 and isinstance(st.value.args[0], (ast.GeneratorExp, ast.ListComp)) and \
                        len(st.value.args[0].generators) == 1 and not st.value.args[0].generators[0].ifs:
                    ge = st.value.args[0]
                    call = ast.Call(func=ast.parse("self.tau_h.append", mode="eval").body, args=[ge.elt], keywords=[])
                    loop = ast.For(target=ge.generators[0].target, iter=ge.generators[0].iter, body=[ast.Expr(value=call)], orelse=[])
                    ast.copy_location(loop, st)
                    ast.fix_missing_locations(loop)
                    par = model.up(st)
                    for fld in ("body", "orelse"):
                        b = getattr(par, fld, None)
                        if isinstance(b, list) and st in b:
                            b[b.index(st)] = loop
                    model.parent[id(loop)] = par
                    loops = [loop]
                    fc = CS.FnCtx(model, E.Effects(model), "HCT", fn)
                    inits = [(n, r) for n, r in fc.defs_of("self.tau_h")]
                    break
        okl = len(loops) == 1 and norm_src(loops[0].iter) == "range(1, self.partition.get_depth() + 1)" and isinstance(loops[0].target, ast.Name)
        ctx.ob("R05-TAU", okl, c.file, qual, "one threshold per depth 1..D in order",
               "for %s in %s" % (norm_src(loops[0].target), norm_src(loops[0].iter)) if loops else "no threshold loop", fn.lineno)
        if okl and fresh:
            i = loops[0].target.id
            if not fc.cfg.dominates(inits[0][0], fc.cfg.node_of(loops[0])):
                ctx.violation("R05-TAU", c.file, qual, "threshold loop", "the re-initialisation does not precede the loop", fn.lineno)
            app = [x for x in ast.walk(loops[0]) if isinstance(x, ast.Call) and norm_src(x.func) == "self.tau_h.append"]
            Sm = SM.Summarizer(model, "HCT")
            Sm.skip_loops = True
            Sm.run(fn)
            st = [p for (l, p) in Sm.at_loop if l is loops[0]]
            ok = False
            if len(app) == 1 and st:
                Sm.cur = st[0]
                h = sp.Symbol("LOOP_DEPTH", positive=True)
                st[0].locals[i] = h
                # temporaries computed inside the loop body before the append
                okbody = True
                for b in loops[0].body:
                    if isinstance(b, ast.Assign) and len(b.targets) == 1 and isinstance(b.targets[0], ast.Name):
                        st[0].locals[b.targets[0].id] = Sm.T.tr(b.value)
                    elif isinstance(b, ast.Expr) and any(x is app[0] for x in ast.walk(b)):
                        break
                    else:
                        okbody = False
                got = Sm.T.tr(app[0].args[0])
                cc, d, rho, nu = S("c"), sp.Symbol("DT", positive=True), S("rho"), S("nu")
                for dv in sorted(delta_vars(fn)):
                    dt = st[0].locals.get(dv)
                    got = got.subs(dt, d) if dt is not None else got
                ref = sp.ceiling(cc ** 2 * sp.log(1 / d) * rho ** (-2 * h) / nu ** 2)
                eq, wit = SX.equivalent(got, ref)
                ok = eq is True
                ctx.ob("R05-TAU", ok, c.file, qual, "tau_h = ceil(c^2 ln(1/delta~) rho^(-2h) / nu^2)",
                       "matches" if ok else "is %s" % got, app[0].lineno)
            else:
                ctx.violation("R05-TAU", c.file, qual, "threshold loop", "not a single append per depth", fn.lineno)
    if algo == "VHCT":
        fn = model.own_method("VHCT_node", "compute_tau_hi_value")
        qual = "VHCT_node.compute_tau_hi_value"
        ctx.fn(qual)
        Sm = SM.Summarizer(model, "VHCT_node")
        ps = Sm.run(fn)
        ok = len(ps) == 1 and "tau" in ps[0].stores
        if ok:
            var, b, nu, rho, h, cc, d = S("variance"), S("bound"), S("nu"), S("rho"), S("depth"), S("c"), S("delta_tilde")
            ref = sp.ceiling((var + 3 * b * nu * rho ** h + var * sp.sqrt(1 + 6 * b * nu * rho ** h / var))
                             * (cc ** 2 * sp.log(1 / d) * rho ** (-2 * h) / nu ** 2))
            eq, wit = SX.equivalent(ps[0].stores["tau"], ref)
            ok = eq is True
        ctx.ob("R05-TAU", ok, model.cls("VHCT_node").file, qual, "variance-aware threshold tau_{h,i}",
               "matches the pinned formula" if ok else "differs from the pinned formula", fn.lineno)
        # every cell of depth >= 1 gets its threshold before the traversal
        ot = model.own_method("VHCT", "optTraverse")
        calls = calls_in(ot, "compute_tau_hi_value")
        okc = False
        if len(calls) == 1:
            loop = model.up(model.up(calls[0])) if isinstance(model.up(calls[0]), ast.Expr) else model.up(calls[0])
            outer = model.up(loop)
            okc = (isinstance(loop, ast.For) and isinstance(outer, ast.For)
                   and norm_src(outer.iter) == "range(1, self.partition.get_depth() + 1)"
                   and norm_src(loop.iter) in ("self.partition.get_layer_node_list(depth=%s)" % norm_src(outer.target),
                                               "self.partition.get_layer_node_list(%s)" % norm_src(outer.target))
                   and norm_src(calls[0].func.value) == norm_src(loop.target))
            whiles = [w for w in ast.walk(ot) if isinstance(w, ast.While)]
            okc = okc and len(whiles) == 1 and outer.lineno < whiles[0].lineno
        ctx.ob("R05-TAU", okc, c.file, "VHCT.optTraverse", "thresholds of all cells of depth 1..D recomputed before descending",
               "loop over every layer precedes the descent" if okc else "threshold refresh is not a full sweep before the descent", ot.lineno)


def check_backward(ctx, algo):
    """R05-B: B = U at leaves, min(U, max over all children of B) elsewhere, layers deepest first."""
    model = ctx.model
    c = model.cls(algo)
    fn = model.own_method(algo, "updateBackwardTree")
    qual = "%s.updateBackwardTree" % algo
    ctx.fn(qual)
    body = strip_doc(fn.body)
    loops = [s for s in body if isinstance(s, ast.For)]
    if len(loops) != 1:
        ctx.violation("R05-B", c.file, qual, "layer loop", "expected one loop over the layers", fn.lineno)
        return
    L = loops[0]
    nl = None
    for s in body:
        if isinstance(s, ast.Assign) and norm_src(s.value) == "self.partition.get_node_list()" and isinstance(s.targets[0], ast.Name):
            nl = s.targets[0].id
    order_ok = False
    layer_var = None
    it = norm_src(L.iter)
    D = "self.partition.get_depth()"
    inner_layer = [s for s in L.body if isinstance(s, ast.For)]
    if nl and isinstance(L.target, ast.Name):
        i = L.target.id
        if it == "range(1, %s + 1)" % D:
            # layer = nodes[-i]: deepest first (len = D+1), down to layer 1
            asg = [s for s in L.body if isinstance(s, ast.Assign) and norm_src(s.value) == "%s[-%s]" % (nl, i)]
            if asg:
                order_ok, layer_var = True, norm_src(asg[0].targets[0])
        elif it in ("range(%s, 0, -1)" % D, "reversed(range(1, %s + 1))" % D):
            asg = [s for s in L.body if isinstance(s, ast.Assign) and norm_src(s.value) == "%s[%s]" % (nl, i)]
            if asg:
                order_ok, layer_var = True, norm_src(asg[0].targets[0])
    if nl and it in ("reversed(%s[1:])" % nl, "%s[:0:-1]" % nl, "%s[1:][::-1]" % nl) and isinstance(L.target, ast.Name):
        order_ok, layer_var = True, L.target.id
        inner_layer = [L]
    ctx.ob("R05-B", order_ok, c.file, qual, "layers visited deepest first, depths D..1",
           "for %s in %s" % (norm_src(L.target), it) if order_ok else "layer order '%s' is not recognised as bottom-up over depths D..1" % it, L.lineno)
    if not order_ok:
        return
    node_loops = [s for s in (L.body if inner_layer != [L] else [L]) if isinstance(s, ast.For) and norm_src(s.iter) == layer_var] \
        if inner_layer != [L] else []
    if inner_layer == [L]:
        node_loops = [s for s in L.body if isinstance(s, ast.For)]
    if len(node_loops) != 1 or not isinstance(node_loops[0].target, ast.Name):
        ctx.violation("R05-B", c.file, qual, "cell loop", "expected one loop over the cells of the layer", L.lineno)
        return
    NLp = node_loops[0]
    node = NLp.target.id
    stmts = [s for s in NLp.body if not (isinstance(s, ast.Expr) and isinstance(s.value, ast.Constant))]
    ifs = [s for s in stmts if isinstance(s, ast.If)]
    if len(ifs) != 1:
        ctx.violation("R05-B", c.file, qual, "leaf / internal case split", "expected `if children is None: .. else: ..`", NLp.lineno)
        return
    I = ifs[0]
    aliases = {}
    for s in stmts:
        if isinstance(s, ast.Assign) and isinstance(s.targets[0], ast.Name):
            aliases[s.targets[0].id] = norm_src(s.value)
    test = norm_src(I.test)
    for a, v in aliases.items():
        test = test.replace(a, v) if test.startswith(a + " ") else test
    leaf_first = test in ("%s.get_children() is None" % node, "%s.children is None" % node)
    internal_first = test in ("%s.get_children() is not None" % node, "%s.children is not None" % node)
    ctx.ob("R05-B", leaf_first or internal_first, c.file, qual, "case split on 'cell has no children'", "test: %s" % test, I.lineno)
    if not (leaf_first or internal_first):
        return
    leaf_body, int_body = (I.body, I.orelse) if leaf_first else (I.orelse, I.body)
    U = "%s.get_u_value()" % node
    okleaf = len(leaf_body) == 1 and norm_src(leaf_body[0]) in ("%s.update_b_value(%s)" % (node, U), "%s.update_b_value(b_value=%s)" % (node, U))
    ctx.ob("R05-B", okleaf, c.file, qual, "leaf: B <- U", "%s" % [norm_src(s) for s in leaf_body], I.lineno)
    # internal: acc = -inf; for child in children: acc = max(acc, child.B); B <- min(U, acc)
    acc = None
    seed_ok = fold_ok = store_ok = False
    why = ""
    for s in int_body:
        if isinstance(s, ast.Assign) and isinstance(s.targets[0], ast.Name) and acc is None:
            acc = s.targets[0].id
            seed_ok = norm_src(s.value) in ("-np.inf", "-math.inf", "float('-inf')", "-float('inf')")
            if not seed_ok:
                why = "running maximum starts at %s, not at -inf" % norm_src(s.value)
        elif isinstance(s, ast.For) and acc is not None:
            whole = norm_src(s.iter) in ("%s.get_children()" % node, "%s.children" % node) or aliases.get(norm_src(s.iter)) in (
                "%s.get_children()" % node, "%s.children" % node)
            child = norm_src(s.target)
            bod = [norm_src(x) for x in s.body]
            B = "%s.get_b_value()" % child
            forms = {"%s = np.maximum(%s, %s)" % (acc, acc, B), "%s = np.maximum(%s, %s)" % (acc, B, acc),
                     "%s = max(%s, %s)" % (acc, acc, B), "%s = max(%s, %s)" % (acc, B, acc)}
            fold_ok = whole and len(bod) == 1 and bod[0] in forms
            if not whole:
                why = "the maximum runs over '%s', not over all children" % norm_src(s.iter)
            elif not fold_ok:
                why = "fold body %s is not acc = max(acc, child.B)" % bod
        elif isinstance(s, ast.Expr) and isinstance(s.value, ast.Call) and method_name(s.value) == "update_b_value" and acc is not None:
            a = norm_src(s.value.args[0]) if s.value.args else ""
            store_ok = norm_src(s.value.func.value) == node and a in (
                "np.minimum(%s, %s)" % (U, acc), "np.minimum(%s, %s)" % (acc, U), "min(%s, %s)" % (U, acc), "min(%s, %s)" % (acc, U))
            if not store_ok:
                why = "B is set to %s, not to min(U, max children B)" % a
    okint = seed_ok and fold_ok and store_ok
    ctx.ob("R05-B", okint, c.file, qual, "internal cell: B <- min(U, max over all children of B), maximum seeded with -inf",
           "recognised" if okint else (why or "internal case not recognised: %s" % [norm_src(s) for s in int_body]), I.lineno)
    # getters / setter
    ncls = TREE_ALGOS[algo]
    for g, a in (("get_b_value", "b_value"), ("get_u_value", "u_value")):
        f2 = model.own_method(ncls, g)
        b2 = strip_doc(f2.body)
        ok = len(b2) == 1 and isinstance(b2[0], ast.Return) and norm_src(b2[0].value) == "self." + a
        ctx.ob("R05-B", ok, model.cls(ncls).file, "%s.%s" % (ncls, g), "return self.%s" % a, "getter returns the stored value", f2.lineno, nontrivial=False)
    f2 = model.own_method(ncls, "update_b_value")
    b2 = strip_doc(f2.body)
    ok = len(b2) == 1 and norm_src(b2[0]) == "self.b_value = %s" % f2.args.args[1].arg
    ctx.ob("R05-B", ok, model.cls(ncls).file, "%s.update_b_value" % ncls, "self.b_value = b_value", "setter stores its argument", f2.lineno, nontrivial=False)


def check_descent(ctx, algo):
    model = ctx.model
    c = model.cls(algo)
    fn = model.own_method(algo, "optTraverse")
    qual = "%s.optTraverse" % algo
    ctx.fn(qual)
    whiles = [w for w in ast.walk(fn) if isinstance(w, ast.While)]
    if len(whiles) != 1:
        ctx.violation("R05-DESCENT", c.file, qual, "descent loop", "expected one while loop", fn.lineno)
        return
    W = whiles[0]
    atoms = {C.atom_of(e, pol) for e, pol in C.flatten_cond(W.test, True)}
    cur = None
    for a in atoms:
        if a[0] == "is not" and a[1].endswith(".get_children()") and a[2] == "None":
            cur = a[1][: -len(".get_children()")]
    if cur is None:
        ctx.violation("R05-DESCENT", c.file, qual, norm_src(W.test), "the descent does not continue on 'cell has children'", W.lineno)
        return
    want = {("is not", "%s.get_children()" % cur, "None")}
    if algo == "HCT":
        want.add(("<=", "self.tau_h[%s.get_depth()]" % cur, "%s.get_visited_times()" % cur))
    if algo == "VHCT":
        want.add(("<=", "%s.get_tau_hi_value()" % cur, "%s.get_visited_times()" % cur))
    ctx.ob("R05-DESCENT", atoms == want, c.file, qual, "continue-condition of the descent",
           "%s" % sorted(atoms) if atoms == want else "is %s, published rule is %s" % (sorted(atoms), sorted(want)), W.lineno)
    # start at the root
    fc = CS.FnCtx(model, E.Effects(model), algo, fn)
    wn = fc.cfg.node_of(W)
    ds, entry = fc.reaching(cur, wn)
    starts = [r for n, r in ds if not fc.cfg.paths_avoiding(wn, n, ())]
    ok = not entry and len(starts) == 1 and starts[0][0] == "assign" and norm_src(starts[0][1]) in ("self.partition.get_root()", "self.partition.root")
    ctx.ob("R05-DESCENT", ok, c.file, qual, "descent starts at the root", "%s" % [norm_src(r[1]) for r in starts if r[0] == "assign"], W.lineno)
    # step: argmax of B over all children
    folds = [f for f in ID.find_folds(fn) if f.if_node in list(ast.walk(W))]
    good = [f for f in folds if f.kind == "incumbent"]
    if len(folds) != 1 or not good:
        desc = [f.describe() + (" [%s]" % "; ".join(f.also) if f.also else "") for f in folds]
        ctx.violation("R05-DESCENT", c.file, qual, "child selection",
                      "not recognised as 'move to a child with maximal B' (%s)" % (desc or "no arg-max fold found"), W.lineno)
        return
    f = good[0]
    okf = (f.direction == "max" and f.covers_all and not f.also and f.key_src == "%s.get_b_value()" % f.cand
           and f.set_src in ("%s.get_children()" % cur, "children"))
    if f.set_src == "children":
        dd = [s for s in W.body if isinstance(s, ast.Assign) and norm_src(s.targets[0]) == "children"]
        okf = okf and len(dd) == 1 and norm_src(dd[0].value) == "%s.get_children()" % cur
    ctx.ob("R05-DESCENT", okf, c.file, qual, "step: child with maximal B among all children", f.describe() + ("; " + "; ".join(f.also) if f.also else ""),
           f.if_node.lineno)
    mv = [s for s in W.body if isinstance(s, ast.Assign) and norm_src(s.targets[0]) == cur]
    okm = len(mv) == 1 and norm_src(mv[0].value) == f.best and W.body.index(mv[0]) > max(W.body.index(s) for s in W.body if f.if_node in list(ast.walk(s)))
    ctx.ob("R05-DESCENT", okm, c.file, qual, "cursor moves to the selected child", "%s" % [norm_src(s) for s in mv], W.lineno)
    # pull returns that cell's representative (checked with the path pairing in C04 R04-PAIR)


def check_fresh(ctx, algo):
    """R05-FRESH: after any U-value is written in updateAllTree, updateBackwardTree runs before the function exits."""
    model = ctx.model
    c = model.cls(algo)
    fn = model.own_method(algo, "updateAllTree")
    qual = "%s.updateAllTree" % algo
    ctx.fn(qual)
    g = C.CFG(fn)
    ustores = [n for n in g.nodes if n.ast is not None and any(isinstance(x, ast.Call) and method_name(x) in ("compute_u_value", "updateUvalueTree")
                                                                for r in E.node_exprs(n) for x in ast.walk(r))]
    backs = [n for n in g.nodes if n.ast is not None and any(isinstance(x, ast.Call) and method_name(x) == "updateBackwardTree"
                                                              for r in E.node_exprs(n) for x in ast.walk(r))]
    ctx.count("R05-FRESH U-writing sites in %s.updateAllTree" % algo, len(ustores), 1)
    for n in ustores:
        ok = g.must_pass(n, backs, [g.exit])
        ctx.ob("R05-FRESH", ok, c.file, qual, norm_src(n.ast),
               "followed by updateBackwardTree on every path" if ok else "B-values can be left stale: a path from here to the exit skips updateBackwardTree", n.line)
    # the recorded reward reaches U before B is refreshed: update_reward precedes the last compute_u_value
    rew = [n for n in g.nodes if n.ast is not None and any(isinstance(x, ast.Call) and method_name(x) == "updateRewardTree"
                                                            for r in E.node_exprs(n) for x in ast.walk(r))]
    for n in rew:
        ok = g.must_pass(n, ustores, [g.exit])
        ctx.ob("R05-FRESH", ok, c.file, qual, norm_src(n.ast),
               "the new reward flows into a U-value before the function returns" if ok else "the new reward is recorded but no U-value is recomputed afterwards", n.line)
    # whole-tree refresh condition (HCT/VHCT): iteration == t+
    if algo in ("HCT", "VHCT"):
        refresh = [n for n in ustores if any(isinstance(x, ast.Call) and method_name(x) == "updateUvalueTree" for r in E.node_exprs(n) for x in ast.walk(r))]
        ok = False
        why = "no whole-tree refresh"
        for n in refresh:
            facts = [a for a, t, lab, e in C.facts_at(g, n)]
            ok = any(a[0] == "==" and "self.iteration" in (a[1], a[2]) and
                     (("compute_t_plus(self.iteration)" in (a[1], a[2])) or ("t_plus" in (a[1], a[2]))) for a in facts)
            why = "guards: %s" % facts
        ctx.ob("R05-DELTA", ok, c.file, qual, "whole-tree refresh when the round counter reaches a power of two", why, fn.lineno)


def check_update_uvalue_tree(ctx, algo):
    """updateUvalueTree visits every cell of every layer."""
    model = ctx.model
    c = model.cls(algo)
    fn = model.own_method(algo, "updateUvalueTree")
    loops = [l for l in ast.walk(fn) if isinstance(l, ast.For)]
    ok = False
    if len(loops) == 2:
        outer, inner = (loops[0], loops[1]) if loops[1] in list(ast.walk(loops[0])) else (loops[1], loops[0])
        nl = [s for s in fn.body if isinstance(s, ast.Assign) and norm_src(s.value) == "self.partition.get_node_list()"]
        ok = bool(nl) and norm_src(outer.iter) == norm_src(nl[0].targets[0]) and norm_src(inner.iter) == norm_src(outer.target) \
            and any(isinstance(x, ast.Call) and method_name(x) == "compute_u_value" and norm_src(x.func.value) == norm_src(inner.target)
                    for x in ast.walk(inner))
    ctx.ob("R05-U", ok, c.file, "%s.updateUvalueTree" % algo, "U recomputed for every cell of every layer",
           "double loop over node_list" if ok else "not a full sweep over node_list", fn.lineno)


def run(ctx):
    for algo, ncls in TREE_ALGOS.items():
        if algo not in ctx.model.classes or ncls not in ctx.model.classes:
            raise AnalysisError("%s / %s not found" % (algo, ncls))
        fa = ctx.model.cls(algo).file
        ctx.attempt("R05-U", fa, "%s.compute_u_value" % ncls, "U-value", check_u, ctx, algo, ncls)
        ctx.attempt("R05-PARAM", fa, "%s.__init__" % algo, "parameters", ctor_params_flow, ctx, algo)
        ctx.attempt("R05-PARAM", fa, algo, "call bindings", check_call_bindings, ctx, algo, ncls)
        ctx.attempt("R05-U", fa, "%s.updateUvalueTree" % algo, "full sweep", check_update_uvalue_tree, ctx, algo)
        if algo != "T_HOO":
            ctx.attempt("R05-DELTA", fa, algo, "delta~", delta_sites, ctx, algo)
            ctx.attempt("R05-TAU", fa, algo, "thresholds", check_tau, ctx, algo)
        ctx.attempt("R05-B", fa, "%s.updateBackwardTree" % algo, "B recursion", check_backward, ctx, algo)
        ctx.attempt("R05-DESCENT", fa, "%s.optTraverse" % algo, "descent", check_descent, ctx, algo)
        ctx.attempt("R05-FRESH", fa, "%s.updateAllTree" % algo, "refresh order", check_fresh, ctx, algo)
    # the statistics the index is built from are the empirical ones (mean, count, clipped variance of the cell's own rewards)
    from . import c04
    from ..report import Ctx
    tmp = Ctx(ctx.prop, ctx.tier, ctx.seed, ctx.model)
    c04.check_node_classes(tmp, only=sorted(TREE_ALGOS.values()))
    for o in tmp.obligations:
        ctx.obligations.append(dict(o, rule="R05-STAT"))
    for f in tmp.findings:
        ctx.add_finding("R05-STAT", f.file, f.qual, f.construct, f.why, f.line)
    ctx.functions |= tmp.functions
    ctx.shortfalls += tmp.shortfalls
    return dict(
        explanation=(
            "For T-HOO, HCT and VHCT: (U) compute_u_value is summarised symbolically (two cases: never pulled -> infinite U; pulled -> "
            "closed form) and the closed form is proved equal (sympy, positive symbols) to the published index mean + nu*rho^depth + "
            "width; the parameters reach it unchanged (constructor stores, call bindings); (DELTA) t+ = 2^ceil(log2 t), delta~ = "
            "min(kappa, c1 delta/t+), c1 = (rho/(3nu))^(1/8), whole-tree refresh guarded by iteration == t+; (TAU) HCT thresholds are "
            "rebuilt from scratch at every traversal, one per depth 1..D, equal to ceil(c^2 ln(1/delta~) rho^(-2h)/nu^2); VHCT's "
            "variance-aware threshold equals the pinned formula and is refreshed for all cells before descending; (B) "
            "updateBackwardTree visits layers deepest-first over depths D..1, sets B=U at leaves and B=min(U, max over ALL children of "
            "B seeded with -inf) elsewhere; (DESCENT) optTraverse starts at the root, continues exactly while the published condition "
            "holds, and steps to an arg-max-B child over all children; (FRESH) every U write in updateAllTree is followed by "
            "updateBackwardTree on all paths and the new reward reaches a U-value before return. Not decided: that stored U/B equal "
            "the values re-derived from the raw history at every round (HCT refreshes the whole tree only at powers of two)."),
        assumptions=["positive parameters (nu, rho, c, delta, bound, T >= 1)", "sympy equivalence of single expressions; numeric "
                     "identity test at rational points when simplify is inconclusive",
                     "VHCT threshold: no independent published statement in the repository, pinned formula is the reference"],
        technique="symbolic method summaries + sympy equivalence against published formulas; structural recognisers for the B recursion, descent and refresh order",
    )
