"""C12 - SequOOL opens cells depth by depth within its harmonic budget (thin: guard/shape rules only)."""
import ast

import sympy as sp

from .. import cfg as C
from .. import credit as CR
from .. import idioms as ID
from .. import symx as SX
from ..model import calls_in, get_arg, is_self_attr, method_name, strip_doc
from ..report import AnalysisError, Ctx, norm_src
from . import c07

SENT = ("-np.inf", "-math.inf", "float('-inf')")


def harmonic_ok(fn):
    """fn(n) returns sum_{i=1..n} 1/i."""
    body = strip_doc(fn.body)
    n = fn.args.args[-1].arg
    src = [norm_src(s) for s in body]
    if len(body) == 3 and isinstance(body[0], ast.Assign) and isinstance(body[1], ast.For) and isinstance(body[2], ast.Return):
        acc = norm_src(body[0].targets[0])
        L = body[1]
        i = norm_src(L.target)
        ok = (norm_src(body[0].value) in ("0", "0.0") and norm_src(L.iter) == "range(1, %s + 1)" % n and len(L.body) == 1 and
              norm_src(L.body[0]) in ("%s += 1 / %s" % (acc, i), "%s += 1.0 / %s" % (acc, i), "%s = %s + 1 / %s" % (acc, acc, i)) and
              norm_src(body[2].value) == acc)
        return ok, "res = 0; for i in range(1, n+1): res += 1/i" if ok else "loop form differs: %s" % src
    if len(body) == 1 and isinstance(body[0], ast.Return):
        s = norm_src(body[0].value)
        ok = s in ("sum((1 / i for i in range(1, %s + 1)))" % n, "sum(1 / i for i in range(1, %s + 1))" % n,
                   "np.sum(1.0 / np.arange(1, %s + 1))" % n, "np.sum(1 / np.arange(1, %s + 1))" % n)
        return ok, s
    return False, "not recognised as the harmonic sum H_n: %s" % src


def check_form(ctx):
    model = ctx.model
    c = model.cls("SequOOL")
    hs = model.own_method("SequOOL", "harmonic_series_sum")
    ctx.fn("SequOOL.harmonic_series_sum")
    ok, why = harmonic_ok(hs)
    ctx.ob("R12-FORM", ok, c.file, "SequOOL.harmonic_series_sum", "H_n = sum_{i=1..n} 1/i", why, hs.lineno)
    init = model.own_method("SequOOL", "__init__")
    ctx.fn("SequOOL.__init__")
    st = [s for s in ast.walk(init) if isinstance(s, ast.Assign) and is_self_attr(s.targets[0], "h_max")]
    okh = len(st) == 1 and norm_src(st[0].value) in ("math.floor(n / self.harmonic_series_sum(n))", "int(np.floor(n / self.harmonic_series_sum(n)))",
                                                     "np.floor(n / self.harmonic_series_sum(n))", "n // self.harmonic_series_sum(n)")
    ctx.ob("R12-FORM", okh, c.file, "SequOOL.__init__", "h_max = floor(n / H_n)", "%s" % [norm_src(s.value) for s in st], init.lineno)
    want = {"curr_depth": "0", "loc": "0", "chosen": "[]"}
    for a, v in want.items():
        s2 = [s for s in init.body if isinstance(s, ast.Assign) and is_self_attr(s.targets[0], a)]
        ctx.ob("R12-FORM", len(s2) == 1 and norm_src(s2[0].value) == v, c.file, "SequOOL.__init__", "self.%s = %s" % (a, v),
               "%s" % [norm_src(s.value) for s in s2], init.lineno, nontrivial=False)
    # h_max is never changed afterwards
    for m, f in c.methods.items():
        if m == "__init__":
            continue
        for s in ast.walk(f):
            tg = s.targets if isinstance(s, ast.Assign) else ([s.target] if isinstance(s, (ast.AugAssign, ast.AnnAssign)) else [])
            if any(is_self_attr(t, "h_max") for t in tg):
                ctx.violation("R12-FORM", c.file, "SequOOL.%s" % m, norm_src(s), "h_max is changed after construction", s.lineno)
    # budget = floor(h_max / curr_depth) next to every depth advance; budget otherwise only decremented by one
    pull = model.own_method("SequOOL", "pull")
    n_adv = 0
    for blk in blocks(pull):
        for i, s in enumerate(blk):
            if norm_src(s) in ("self.curr_depth += 1", "self.curr_depth = self.curr_depth + 1"):
                n_adv += 1
                nxt = blk[i + 1] if i + 1 < len(blk) else None
                ok = nxt is not None and norm_src(nxt) in ("self.budget = math.floor(self.h_max / self.curr_depth)",
                                                         "self.budget = self.h_max // self.curr_depth",
                                                         "self.budget = int(np.floor(self.h_max / self.curr_depth))")
                ctx.ob("R12-FORM", ok, c.file, "SequOOL.pull", "depth advance is followed by budget = floor(h_max / depth)",
                       norm_src(nxt) if nxt is not None else "nothing follows", s.lineno)
    ctx.count("R12-FORM depth advances in SequOOL.pull", n_adv, 2)
    for f in c.methods.values():
        for s in ast.walk(f):
            tg = s.targets if isinstance(s, ast.Assign) else ([s.target] if isinstance(s, (ast.AugAssign, ast.AnnAssign)) else [])
            for t in tg:
                if is_self_attr(t, "budget"):
                    ok = norm_src(s) in ("self.budget = math.floor(self.h_max / self.curr_depth)", "self.budget -= 1",
                                         "self.budget = self.h_max // self.curr_depth", "self.budget = int(np.floor(self.h_max / self.curr_depth))")
                    ctx.ob("R12-FORM", ok and f.name == "pull", c.file, "SequOOL.%s" % f.name, norm_src(s), "budget set to floor(h_max/depth) or decremented by one",
                           s.lineno, nontrivial=False)
                if is_self_attr(t, "curr_depth") and f.name not in ("__init__", "pull"):
                    ctx.violation("R12-FORM", c.file, "SequOOL.%s" % f.name, norm_src(s), "the current depth is changed outside pull", s.lineno)


def blocks(fn):
    for n in ast.walk(fn):
        for f in ("body", "orelse"):
            b = getattr(n, f, None)
            if isinstance(b, list) and b and isinstance(b[0], ast.stmt):
                yield b


def check_cap(ctx):
    model = ctx.model
    c = model.cls("SequOOL")
    pull = model.own_method("SequOOL", "pull")
    q = "SequOOL.pull"
    ctx.fn(q)
    body = strip_doc(pull.body)
    top = [s for s in body if isinstance(s, ast.If)]
    ok = len(top) == 1 and norm_src(top[0].test) in ("self.curr_depth <= self.h_max", "self.h_max >= self.curr_depth") and body[-1] is top[0]
    ctx.ob("R12-CAP", ok, c.file, q, "all opening code runs under curr_depth <= h_max", norm_src(top[0].test) if top else "no top-level test", pull.lineno)
    if not ok:
        return None
    I = top[0]
    ex = [norm_src(s) for s in I.orelse]
    okx = ex in (["self.curr_node = node_list[0][0]", "return node_list[0][0].get_cpoint()"],
                 ["self.curr_node = self.partition.get_root()", "return self.partition.get_root().get_cpoint()"])
    ctx.ob("R12-CAP", okx, c.file, q, "exhausted schedule: hand out the root's centre, touch nothing else",
           "%s" % ex, I.lineno)
    pre = [norm_src(s) for s in body[:-1]]
    okp = set(pre) <= {"node_list = self.partition.get_node_list()", "self.iteration = %s" % pull.args.args[1].arg}
    ctx.ob("R12-CAP", okp, c.file, q, "nothing happens before the cap test", "%s" % pre, pull.lineno, nontrivial=False)
    # opening effects only inside the capped branch
    for x in ast.walk(pull):
        if isinstance(x, ast.Call) and (method_name(x) in ("make_children", "open") or norm_src(x.func) == "self.chosen.append"):
            inside = any(x is y for s in I.body for y in ast.walk(s))
            ctx.ob("R12-CAP", inside, c.file, q, norm_src(x)[:70], "inside the capped branch" if inside else "executed even after the schedule is exhausted",
                   x.lineno, nontrivial=False)
    return I


def check_open(ctx, I):
    model = ctx.model
    c = model.cls("SequOOL")
    pull = model.own_method("SequOOL", "pull")
    q = "SequOOL.pull"
    inner = [s for s in I.body if isinstance(s, ast.If)]
    ok = len(inner) == 1 and norm_src(inner[0].test) == "self.curr_depth == 0" and len(I.body) == 1
    ctx.ob("R12-OPEN", ok, c.file, q, "depth 0 opens the root, depth h >= 1 opens the best unopened cell", norm_src(inner[0].test) if inner else "?", I.lineno,
           nontrivial=False)
    if not ok:
        return
    root_blk, deep_blk = inner[0].body, inner[0].orelse
    # ---- fold at depth >= 1
    folds = [f for f in ID.find_folds(pull) if any(f.if_node is y for s in deep_blk for y in ast.walk(s))]
    if len(folds) != 1:
        ctx.violation("R12-OPEN", c.file, q, "choice of the cell to open", "not recognised as an arg-max over the unopened cells of the current depth "
                      "(%d fold(s) found)" % len(folds), inner[0].lineno)
        return
    f = folds[0]
    ncls = model.node_class_of_algo("SequOOL")
    key_attr = c07.getter_attr(model, ncls, f.key) if isinstance(f.key, ast.Call) else None
    layer_ok = f.set_src in ("range(len(node_list[self.curr_depth]))", "node_list[self.curr_depth]")
    filt_ok = f.filters in ([("node.not_opened()", True)], [("%s.not_opened()" % f.cand, True)]) or \
        (len(f.filters) == 1 and f.filters[0][0].endswith(".not_opened()") and f.filters[0][1])
    okf = f.direction == "max" and f.seed in SENT and key_attr == "rewards[0]" and layer_ok and filt_ok and not [a for a in f.also if "num" not in a]
    ctx.ob("R12-OPEN", okf, c.file, q, "opened cell = unopened cell of the current depth with the highest observed reward",
           f.describe() + ("; key attribute %s" % key_attr), f.if_node.lineno)
    no = model.own_method(ncls, "not_opened")
    b = strip_doc(no.body)
    okn = len(b) == 1 and norm_src(b[0]) in ("return False if self.opened else True", "return not self.opened")
    op = model.own_method(ncls, "open")
    okn = okn and [norm_src(s) for s in strip_doc(op.body)] == ["self.opened = True"]
    ctx.ob("R12-OPEN", okn, model.cls(ncls).file, "%s.not_opened/open" % ncls, "opened flag", "open() sets it, not_opened() reads it", no.lineno, nontrivial=False)
    # ---- hand-out of the children, one by one, in order
    for name, blk, cell in (("root", root_blk, None), ("depth>=1", deep_blk, f.best)):
        outs = [s for s in blk if isinstance(s, ast.If) and norm_src(s.test).startswith("self.loc < len(")]
        if len(outs) != 1:
            ctx.violation("R12-OPEN", c.file, q, "%s: hand-out of the children" % name, "hand-out block not recognised", inner[0].lineno)
            continue
        H = outs[0]
        ch = norm_src(H.test)[len("self.loc < len("):-1]
        cellname = ch[: ch.rfind(".get_children()")] if ch.endswith(".get_children()") else None
        if cell is not None:
            ctx.ob("R12-OPEN", cellname == cell, c.file, q, "%s: the children handed out are those of the selected cell" % name, "%s vs %s" % (cellname, cell), H.lineno)
        split = [s for s in H.body if isinstance(s, ast.If)]
        oks = len(split) == 1 and norm_src(split[0].test) == "self.loc == len(%s) - 1" % ch and len(H.body) == 1 and not H.orelse
        ctx.ob("R12-OPEN", oks, c.file, q, "%s: last child vs earlier child" % name, norm_src(split[0].test) if split else "?", H.lineno, nontrivial=False)
        if not oks:
            continue
        last, early = [norm_src(s) for s in split[0].body], [norm_src(s) for s in split[0].orelse]
        e_want = {"self.loc += 1", "self.chosen.append(%s[self.loc - 1])" % ch, "self.curr_node = %s[self.loc - 1]" % ch,
                  "return %s[self.loc - 1].get_cpoint()" % ch}
        oke = set(early) == e_want and early[0] == "self.loc += 1" and early[-1].startswith("return")
        ctx.ob("R12-OPEN", oke, c.file, q, "%s: earlier children are handed out in order (index loc, then loc+1)" % name, "%s" % early, split[0].lineno)
        l_core = {"self.loc = 0", "self.chosen.append(%s[-1])" % ch, "self.curr_node = %s[-1]" % ch, "return %s[-1].get_cpoint()" % ch}
        if cell is None:
            l_want = l_core | {"self.curr_depth += 1", "self.budget = math.floor(self.h_max / self.curr_depth)"}
            okl = set(last) == l_want
        else:
            adv = [s for s in split[0].body if isinstance(s, ast.If)]
            rest = {norm_src(s) for s in split[0].body if not isinstance(s, ast.If)}
            okl = rest == l_core | {"%s.open()" % cell, "self.budget -= 1"} and len(adv) == 1 and \
                norm_src(adv[0].test) in ("self.budget == 0 or num == 1", "num == 1 or self.budget == 0") and \
                [norm_src(s) for s in adv[0].body] == ["self.curr_depth += 1", "self.budget = math.floor(self.h_max / self.curr_depth)"] and not adv[0].orelse
            if okl:
                # order: open / decrement before the advance test; return last
                idx = {norm_src(s): i for i, s in enumerate(split[0].body) if not isinstance(s, ast.If)}
                ia = split[0].body.index(adv[0])
                okl = idx["self.budget -= 1"] < ia and isinstance(split[0].body[-1], ast.Return)
        ctx.ob("R12-OPEN", okl, c.file, q, "%s: the last child closes the opening (mark opened, loc = 0, budget - 1, advance depth when the budget is "
               "used up or no unopened cell is left)" % name, "%s" % last, split[0].lineno)
    # num counts the unopened cells of the layer
    nums = [s for s in ast.walk(pull) if isinstance(s, (ast.Assign, ast.AugAssign)) and norm_src(s.targets[0] if isinstance(s, ast.Assign) else s.target) == "num"]
    okn = [norm_src(s) for s in nums] == ["num = 0", "num += 1"] and any(s is nums[1] for s in model.up(f.if_node).body) if len(nums) == 2 else False
    ctx.ob("R12-OPEN", okn, c.file, q, "num = number of unopened cells of the current depth", "%s" % [norm_src(s) for s in nums], pull.lineno)


def check_chosen(ctx):
    model = ctx.model
    c = model.cls("SequOOL")
    n = 0
    for fn in c.methods.values():
        for call in ast.walk(fn):
            if isinstance(call, ast.Call) and isinstance(call.func, ast.Attribute) and is_self_attr(call.func.value, "chosen") and \
                    call.func.attr in ("append", "extend", "insert", "pop", "remove", "clear"):
                n += 1
                if call.func.attr == "append" and fn.name == "pull":
                    ok, why = c07.chosen_append_ok(model, c, fn, call)
                else:
                    ok, why = False, ("the list of searched points is changed in %s by %s(): pulls after the schedule is exhausted (or bulk "
                                      "additions) would alter the recommendation" % (fn.name, call.func.attr))
                ctx.ob("R12-CHOSEN", ok, c.file, "SequOOL.%s" % fn.name, norm_src(call), why, call.lineno)
    ctx.count("R12-CHOSEN sites that change the searched points", n, 4)


def run(ctx):
    model = ctx.model
    check_form(ctx)
    I = check_cap(ctx)
    if I is not None:
        check_open(ctx, I)
    check_chosen(ctx)
    from . import c04, c03
    from .. import callsites as CS
    from .. import effects as E
    tmp = Ctx(ctx.prop, ctx.tier, ctx.seed, model)
    cls = model.cls("SequOOL")
    info = CR.credit_paths(model, "SequOOL")
    des, reward = c04.check_once(tmp, cls, info)
    cache = {}
    eff = E.Effects(model)

    def fcs(cn, fn):
        k = (cn, fn.name)
        if k not in cache:
            cache[k] = CS.FnCtx(model, eff, cn, fn)
        return cache[k]
    c04.check_pair(tmp, cls, des, fcs)
    c03.check_sites(tmp)
    for o in tmp.obligations:
        if "SequOOL" in o["where"]:
            ctx.obligations.append(dict(o, rule=o["rule"].replace("R04", "R12").replace("R03", "R12")))
    for f in tmp.findings:
        if f.qual.startswith("SequOOL"):
            ctx.add_finding(f.rule.replace("R04", "R12").replace("R03", "R12"), f.file, f.qual, f.construct, f.why, f.line)
    ctx.functions |= {f for f in tmp.functions if f.startswith("SequOOL")}
    return dict(
        explanation=(
            "FORM: harmonic_series_sum is the sum 1/i for i = 1..n; h_max = floor(n/H_n) is fixed at construction; every depth advance is "
            "immediately followed by budget = floor(h_max/depth) and the budget is otherwise only decremented by one. CAP: all opening "
            "code (make_children, open, additions to the searched points) sits under curr_depth <= h_max; the other branch hands out the "
            "root's centre and touches nothing else. OPEN: at depth >= 1 the cell to open is an arg-max (seed -inf) of the first observed "
            "reward over the unopened cells of the current depth; its children are handed out one per pull in index order, each "
            "recorded as the cell to credit and as a searched point in the same step; the last child marks the cell opened, resets the "
            "child counter, decrements the budget and advances the depth when the budget is used up or no unopened cell remains. "
            "CHOSEN: the searched points change only on those hand-out steps. Plus C03/C04's call-site, pairing and once-rules for "
            "SequOOL. This is a thin row: the order of openings over a whole run is not decided."),
        assumptions=["n >= 10; pull/receive_reward alternate"],
        technique="structural pattern rules over the schedule code (normalised statements) + arg-max fold recognition",
    )
