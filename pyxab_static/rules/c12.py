"""C12 - SequOOL opens cells depth by depth within its harmonic budget (thin: guard/shape rules only)."""
import ast

import sympy as sp

from .. import cfg as C
from .. import credit as CR
from .. import idioms as ID
from .. import symx as SX
from ..model import calls_in, get_arg, is_self_attr, method_name, strip_doc
from ..report import AnalysisError, Ctx, norm_src
from . import c07

SENT = ("-np.inf", "-math.inf", "float('-inf')")


def harmonic_ok(fn):
    """fn(n) returns sum_{i=1..n} 1/i."""
    body = strip_doc(fn.body)
    n = fn.args.args[-1].arg
    src = [norm_src(s) for s in body]
    if len(body) == 3 and isinstance(body[0], ast.Assign) and isinstance(body[1], ast.For) and isinstance(body[2], ast.Return):
        acc = norm_src(body[0].targets[0])
        L = body[1]
        i = norm_src(L.target)
        ok = (norm_src(body[0].value) in ("0", "0.0") and norm_src(L.iter) == "range(1, %s + 1)" % n and len(L.body) == 1 and
              norm_src(L.body[0]) in ("%s += 1 / %s" % (acc, i), "%s += 1.0 / %s" % (acc, i), "%s = %s + 1 / %s" % (acc, acc, i)) and
              norm_src(body[2].value) == acc)
        return ok, "res = 0; for i in range(1, n+1): res += 1/i" if ok else "loop form differs: %s" % src
    if len(body) == 1 and isinstance(body[0], ast.Return):
        s = norm_src(body[0].value)
        ok = s in ("sum((1 / i for i in range(1, %s + 1)))" % n, "sum(1 / i for i in range(1, %s + 1))" % n,
                   "np.sum(1.0 / np.arange(1, %s + 1))" % n, "np.sum(1 / np.arange(1, %s + 1))" % n)
        return ok, s
    return False, "not recognised as the harmonic sum H_n: %s" % src


def check_form(ctx):
    model = ctx.model
    c = model.cls("SequOOL")
    hs = model.own_method("SequOOL", "harmonic_series_sum")
    ctx.fn("SequOOL.harmonic_series_sum")
    ok, why = harmonic_ok(hs)
    ctx.ob("R12-FORM", ok, c.file, "SequOOL.harmonic_series_sum", "H_n = sum_{i=1..n} 1/i", why, hs.lineno)
    init = model.own_method("SequOOL", "__init__")
    ctx.fn("SequOOL.__init__")
    st = [s for s in ast.walk(init) if isinstance(s, ast.Assign) and is_self_attr(s.targets[0], "h_max")]
    okh = len(st) == 1 and norm_src(st[0].value) in ("math.floor(n / self.harmonic_series_sum(n))", "int(np.floor(n / self.harmonic_series_sum(n)))",
                                                     "np.floor(n / self.harmonic_series_sum(n))", "n // self.harmonic_series_sum(n)")
    ctx.ob("R12-FORM", okh, c.file, "SequOOL.__init__", "h_max = floor(n / H_n)", "%s" % [norm_src(s.value) for s in st], init.lineno)
    want = {"curr_depth": "0", "loc": "0", "chosen": "[]"}
    for a, v in want.items():
        s2 = [s for s in init.body if isinstance(s, ast.Assign) and is_self_attr(s.targets[0], a)]
        ctx.ob("R12-FORM", len(s2) == 1 and norm_src(s2[0].value) == v, c.file, "SequOOL.__init__", "self.%s = %s" % (a, v),
               "%s" % [norm_src(s.value) for s in s2], init.lineno, nontrivial=False)
    # h_max is never changed afterwards
    for m, f in c.methods.items():
        if m == "__init__":
            continue
        for s in ast.walk(f):
            tg = s.targets if isinstance(s, ast.Assign) else ([s.target] if isinstance(s, (ast.AugAssign, ast.AnnAssign)) else [])
            if any(is_self_attr(t, "h_max") for t in tg):
                ctx.violation("R12-FORM", c.file, "SequOOL.%s" % m, norm_src(s), "h_max is changed after construction", s.lineno)
    # budget = floor(h_max / curr_depth) next to every depth advance; budget otherwise only decremented by one
    pull = model.own_method("SequOOL", "pull")
    n_adv = 0
    for blk in blocks(pull):
        for i, s in enumerate(blk):
            if norm_src(s) in ("self.curr_depth += 1", "self.curr_depth = self.curr_depth + 1"):
                n_adv += 1
                nxt = blk[i + 1] if i + 1 < len(blk) else None
                ok = nxt is not None and norm_src(nxt) in ("self.budget = math.floor(self.h_max / self.curr_depth)",
                                                         "self.budget = self.h_max // self.curr_depth",
                                                         "self.budget = int(np.floor(self.h_max / self.curr_depth))")
                ctx.ob("R12-FORM", ok, c.file, "SequOOL.pull", "depth advance is followed by budget = floor(h_max / depth)",
                       norm_src(nxt) if nxt is not None else "nothing follows", s.lineno)
    ctx.count("R12-FORM depth advances in SequOOL.pull", n_adv, 2)
    for f in c.methods.values():
        for s in ast.walk(f):
            tg = s.targets if isinstance(s, ast.Assign) else ([s.target] if isinstance(s, (ast.AugAssign, ast.AnnAssign)) else [])
            for t in tg:
                if is_self_attr(t, "budget"):
                    ok = norm_src(s) in ("self.budget = math.floor(self.h_max / self.curr_depth)", "self.budget -= 1",
                                         "self.budget = self.h_max // self.curr_depth", "self.budget = int(np.floor(self.h_max / self.curr_depth))")
                    ctx.ob("R12-FORM", ok and f.name == "pull", c.file, "SequOOL.%s" % f.name, norm_src(s), "budget set to floor(h_max/depth) or decremented by one",
                           s.lineno, nontrivial=False)
                if is_self_attr(t, "curr_depth") and f.name not in ("__init__", "pull"):
                    ctx.violation("R12-FORM", c.file, "SequOOL.%s" % f.name, norm_src(s), "the current depth is changed outside pull", s.lineno)


def blocks(fn):
    for n in ast.walk(fn):
        for f in ("body", "orelse"):
            b = getattr(n, f, None)
            if isinstance(b, list) and b and isinstance(b[0], ast.stmt):
                yield b


def check_cap(ctx):
    model = ctx.model
    c = model.cls("SequOOL")
    pull = model.own_method("SequOOL", "pull")
    q = "SequOOL.pull"
    ctx.fn(q)
    body = strip_doc(pull.body)
    from ..routes import canon_cond
    top = [s for s in body if isinstance(s, ast.If)]
    capped = None
    if len(top) == 1:
        ctext, pol = canon_cond(norm_src(top[0].test), True)
        if ctext == "self.h_max < self.curr_depth":
            # pol True: the test says 'schedule exhausted'; pol False: the test says 'within the cap'
            k = body.index(top[0])
            rest = body[k + 1:]
            if not pol:
                capped, exhausted = top[0].body, top[0].orelse + rest
                ok_shape = not rest or bool(top[0].body and isinstance(top[0].body[-1], ast.Return))
            else:
                exhausted = top[0].body
                ends = bool(exhausted) and isinstance(exhausted[-1], ast.Return)
                capped = top[0].orelse + (rest if ends or not top[0].orelse else [])
                ok_shape = (not rest) or ends
            if not ok_shape:
                capped = None
    ok = capped is not None
    ctx.ob("R12-CAP", ok, c.file, q, "all opening code runs under curr_depth <= h_max", norm_src(top[0].test) if top else "no top-level test", pull.lineno)
    if not ok:
        return None
    pre = [norm_src(s) for s in body[:body.index(top[0])]]
    okp = set(pre) <= {"node_list = self.partition.get_node_list()", "self.iteration = %s" % pull.args.args[1].arg}
    ctx.ob("R12-CAP", okp, c.file, q, "nothing happens before the cap test", "%s" % pre, pull.lineno, nontrivial=False)
    # opening effects only inside the capped branch
    for x in ast.walk(pull):
        if isinstance(x, ast.Call) and (method_name(x) in ("make_children", "open") or norm_src(x.func) == "self.chosen.append"):
            inside = any(x is y for s in capped for y in ast.walk(s))
            ctx.ob("R12-CAP", inside, c.file, q, norm_src(x)[:70], "inside the capped branch" if inside else "executed even after the schedule is exhausted",
                   x.lineno, nontrivial=False)
    I = ast.If(test=top[0].test, body=capped, orelse=[])
    ast.copy_location(I, top[0])
    return I


def check_open(ctx, I):
    model = ctx.model
    c = model.cls("SequOOL")
    pull = model.own_method("SequOOL", "pull")
    q = "SequOOL.pull"
    inner = [s for s in I.body if isinstance(s, ast.If)]
    # (initialisations of locals with literals in front of the case distinction - `num = 0` hoisted out of the deeper case - do nothing
    # the root case could observe)
    others = [s for s in I.body if s not in inner and not (isinstance(s, ast.Assign) and len(s.targets) == 1 and isinstance(s.targets[0], ast.Name) and
                                                           isinstance(s.value, ast.Constant) and inner and I.body.index(s) < I.body.index(inner[0]))]
    ok = len(inner) == 1 and norm_src(inner[0].test) == "self.curr_depth == 0" and not others
    ctx.ob("R12-OPEN", ok, c.file, q, "depth 0 opens the root, depth h >= 1 opens the best unopened cell", norm_src(inner[0].test) if inner else "?", I.lineno,
           nontrivial=False)
    if not ok:
        return
    root_blk, deep_blk = inner[0].body, inner[0].orelse
    # ---- fold at depth >= 1
    folds = [f for f in ID.find_folds(pull) if any(f.if_node is y for s in deep_blk for y in ast.walk(s))]
    if len(folds) != 1:
        ctx.violation("R12-OPEN", c.file, q, "choice of the cell to open", "not recognised as an arg-max over the unopened cells of the current depth "
                      "(%d fold(s) found)" % len(folds), inner[0].lineno)
        return
    f = folds[0]
    ncls = model.node_class_of_algo("SequOOL")
    key_attr = c07.getter_attr(model, ncls, f.key) if isinstance(f.key, ast.Call) else None
    layer_ok = f.set_src in ("range(len(node_list[self.curr_depth]))", "node_list[self.curr_depth]")
    filt_ok = f.filters in ([("node.not_opened()", True)], [("%s.not_opened()" % f.cand, True)]) or \
        (len(f.filters) == 1 and f.filters[0][0].endswith(".not_opened()") and f.filters[0][1])
    okf = f.direction == "max" and f.seed in SENT and key_attr == "rewards[0]" and layer_ok and filt_ok and not [a for a in f.also if "num" not in a]
    ctx.ob("R12-OPEN", okf, c.file, q, "opened cell = unopened cell of the current depth with the highest observed reward",
           f.describe() + ("; key attribute %s" % key_attr), f.if_node.lineno)
    no = model.own_method(ncls, "not_opened")
    b = strip_doc(no.body)
    okn = len(b) == 1 and norm_src(b[0]) in ("return False if self.opened else True", "return not self.opened",
                                              "if self.opened: return False else: return True",
                                              "if not self.opened: return True else: return False")
    op = model.own_method(ncls, "open")
    okn = okn and [norm_src(s) for s in strip_doc(op.body)] == ["self.opened = True"]
    ctx.ob("R12-OPEN", okn, model.cls(ncls).file, "%s.not_opened/open" % ncls, "opened flag", "open() sets it, not_opened() reads it", no.lineno, nontrivial=False)
    # ---- hand-out of the children, one by one, in order: decided path by path (aliases expanded, so temporaries,
    # merged branch tails and re-ordered independent statements do not matter)
    check_handout_paths(ctx, f.best)
    # num counts the unopened cells of the layer
    nums = [s for s in ast.walk(pull) if isinstance(s, (ast.Assign, ast.AugAssign)) and norm_src(s.targets[0] if isinstance(s, ast.Assign) else s.target) == "num"]
    okn = [norm_src(s) for s in nums] == ["num = 0", "num += 1"] and any(s is nums[1] for s in model.up(f.if_node).body) if len(nums) == 2 else False
    ctx.ob("R12-OPEN", okn, c.file, q, "num = number of unopened cells of the current depth", "%s" % [norm_src(s) for s in nums], pull.lineno)


ROOT = ("self.partition.get_node_list()[0][0]", "self.partition.get_root()", "self.partition.root")
ADVANCE = ("self.budget = math.floor(self.h_max / self.curr_depth)", "self.budget = self.h_max // self.curr_depth",
           "self.budget = int(np.floor(self.h_max / self.curr_depth))")


def check_handout_paths(ctx, winner):
    """Every value-returning path of pull, with all expressions rendered in terms of the state pull was entered with (reads of
    attributes written earlier on the path replaced by the written value, integer arithmetic folded, integer comparisons
    brought to a canonical form): statement order, temporaries, flipped comparisons and merged branch tails do not matter."""
    model = ctx.model
    c = model.cls("SequOOL")
    q = "SequOOL.pull"
    fn, params, paths, fns = CR.method_paths(model, "SequOOL", "pull", entry=True)
    n_ret = 0
    FLOOR = ("math.floor(self.h_max / (self.curr_depth + 1))", "self.h_max // (self.curr_depth + 1)",
             "int(np.floor(self.h_max / (self.curr_depth + 1)))", "int(math.floor(self.h_max / (self.curr_depth + 1)))",
             "np.floor(self.h_max / (self.curr_depth + 1))")
    for p in paths:
        rets = [e for e in p.events if e[0] == "ret"]
        if not rets:
            continue
        n_ret += 1
        cset = {CR.canon_int_cond(c0, pol0) for c0, pol0 in p.conds}

        def query(src):
            if CR.canon_int_cond(src, True) in cset:
                return True
            if CR.canon_int_cond(src, False) in cset:
                return False
            return None
        r = rets[0]
        label = "path [%s]" % " and ".join("%s%s" % ("" if pol else "not ", c0) for c0, pol in p.conds[-4:])
        if not r[1].endswith(".get_cpoint()"):
            ctx.violation("R12-OPEN", c.file, q, label, "returns '%s', not the representative of a cell" % r[1], r[3].lineno)
            continue
        cell = r[1][: -len(".get_cpoint()")]
        calls = [e for e in p.events if e[0] in ("call", "loop-call")]
        F = {k: v for k, v in p.sym.items() if k != "self.iteration"}
        wtargets = [w[0] for w in p.writes if w[0] != "self.iteration"]
        capped = query("self.curr_depth <= self.h_max")
        if capped is False:
            ok = cell in ROOT and set(wtargets) == {"self.curr_node"} and F.get("self.curr_node") in ROOT and not calls
            ctx.ob("R12-CAP", ok, c.file, q, label, "exhausted schedule: hands out the root's centre, stores it as the cell to credit, nothing else"
                   if ok else "exhausted branch does more: state %s, calls %s, returns %s" % (F, [e[1] for e in calls], cell), r[3].lineno)
            continue
        if capped is not True:
            ctx.violation("R12-CAP", c.file, q, label, "a child is handed out on a path that is not under 'curr_depth <= h_max'", r[3].lineno)
            continue
        at_root = query("self.curr_depth == 0")
        parent = None
        for cand in (list(ROOT) if at_root else [winner]):
            if cell.startswith(cand + ".get_children()["):
                parent = cand
        if parent is None:
            ctx.violation("R12-OPEN", c.file, q, label, "the cell handed out (%s) is not a child of the cell being opened (%s)" % (
                cell, "the root" if at_root else winner), r[3].lineno)
            continue
        C = parent + ".get_children()"
        last = query("self.loc == len(%s) - 1" % C)
        inrange = query("self.loc < len(%s)" % C)
        if last is None:
            # the same fact stated as an order test: within the range, `loc < len - 1` is `not (loc == len - 1)`
            before_last = query("self.loc < len(%s) - 1" % C)
            if before_last is True:
                last = False
            elif before_last is False and inrange is True:
                last = True
        wch = [w for w in p.writes if w[0] == "self.chosen[]"]
        other = [t for t in wtargets if t not in ("self.curr_node", "self.chosen[]", "self.loc", "self.budget", "self.curr_depth")]
        opens = [e for e in calls if e[1].endswith(".open")]
        othercalls = [e for e in calls if not e[1].endswith(".open") and not e[1].endswith(".make_children")]
        ok = inrange is True and last is not None and F.get("self.curr_node") == cell and len(wch) == 1 and wch[0][2] == cell and \
            not other and not othercalls
        why = []
        if last is True:
            ok = ok and cell in (C + "[-1]", C + "[self.loc]", C + "[len(%s) - 1]" % C) and F.get("self.loc") == "0"
            if at_root:
                ok = ok and not opens and F.get("self.curr_depth") == "self.curr_depth + 1" and F.get("self.budget") in FLOOR
                why.append("root fully handed out: depth 1 begins with budget floor(h_max/1)")
            else:
                ok = ok and len(opens) == 1 and opens[0][1] == parent + ".open"
                qb, qn = query("self.budget == 1"), query("num == 1")
                used_up = query("self.budget == 1 or num == 1")
                if used_up is None:
                    used_up = True if (qb is True or qn is True) else (False if (qb is False and qn is False) else None)
                if used_up is True:
                    ok = ok and F.get("self.curr_depth") == "self.curr_depth + 1" and F.get("self.budget") in FLOOR
                    why.append("last child: cell marked opened, budget - 1, depth advances with a fresh budget")
                elif used_up is False:
                    ok = ok and "self.curr_depth" not in F and F.get("self.budget") == "self.budget - 1"
                    why.append("last child: cell marked opened, budget - 1")
                else:
                    ok = False
                    why.append("no 'budget used up or no unopened cell left' test on this path")
        else:
            ok = ok and cell == C + "[self.loc]" and F.get("self.loc") == "self.loc + 1" and not opens and "self.budget" not in F and \
                "self.curr_depth" not in F
            why.append("earlier child: child counter + 1, hand out the child at the old counter")
        ctx.ob("R12-OPEN", ok, c.file, q, label, "; ".join(why) + ": credited cell, searched point and returned representative are the same child"
               if ok else "hand-out step not as published: returns %s; state after the step (in terms of the state before) %s; searched points += %s; calls %s" % (
                   cell, F, [w[2] for w in wch], [e[1] for e in calls]), r[3].lineno)
    ctx.count("R12-OPEN value-returning paths of SequOOL.pull", n_ret, 5)


def check_chosen(ctx):
    """The searched points change only in pull (where the path rule ties each addition to a hand-out)."""
    model = ctx.model
    c = model.cls("SequOOL")
    n = 0
    for fn in c.methods.values():
        for call in ast.walk(fn):
            if isinstance(call, ast.Call) and isinstance(call.func, ast.Attribute) and is_self_attr(call.func.value, "chosen") and \
                    call.func.attr in ("append", "extend", "insert", "pop", "remove", "clear", "sort", "reverse"):
                n += 1
                ok = fn.name == "pull" and call.func.attr == "append"
                ctx.ob("R12-CHOSEN", ok, c.file, "SequOOL.%s" % fn.name, norm_src(call),
                       "added in pull (tied to a hand-out by the path rule)" if ok else
                       "the list of searched points is changed in %s by %s(): pulls after the schedule is exhausted (or bulk additions) would "
                       "alter the recommendation" % (fn.name, call.func.attr), call.lineno)
        for st in ast.walk(fn):
            tg = st.targets if isinstance(st, ast.Assign) else ([st.target] if isinstance(st, (ast.AugAssign, ast.AnnAssign)) else [])
            if fn.name != "__init__" and any(is_self_attr(t, "chosen") for t in tg):
                ctx.violation("R12-CHOSEN", c.file, "SequOOL.%s" % fn.name, norm_src(st), "the list of searched points is replaced", st.lineno)
    ctx.count("R12-CHOSEN sites that change the searched points", n, 1)


def run(ctx):
    model = ctx.model
    fs = model.cls("SequOOL").file
    ctx.attempt("R12-FORM", fs, "SequOOL.__init__", "schedule constants", check_form, ctx)
    I = ctx.attempt("R12-CAP", fs, "SequOOL.pull", "depth cap", check_cap, ctx)
    if I is not None:
        ctx.attempt("R12-OPEN", fs, "SequOOL.pull", "opening", check_open, ctx, I)
    ctx.attempt("R12-CHOSEN", fs, "SequOOL", "searched points", check_chosen, ctx)
    from . import c04, c03
    from .. import callsites as CS
    from .. import effects as E
    tmp = Ctx(ctx.prop, ctx.tier, ctx.seed, model)
    cls = model.cls("SequOOL")
    info = CR.credit_paths(model, "SequOOL")
    des, reward = c04.check_once(tmp, cls, info)
    cache = {}
    eff = E.Effects(model)

    def fcs(cn, fn):
        k = (cn, fn.name)
        if k not in cache:
            cache[k] = CS.FnCtx(model, eff, cn, fn)
        return cache[k]
    c04.check_pair(tmp, cls, des, fcs)
    c03.check_sites(tmp)
    for o in tmp.obligations:
        if "SequOOL" in o["where"]:
            ctx.obligations.append(dict(o, rule=o["rule"].replace("R04", "R12").replace("R03", "R12")))
    for f in tmp.findings:
        if f.qual.startswith("SequOOL"):
            ctx.add_finding(f.rule.replace("R04", "R12").replace("R03", "R12"), f.file, f.qual, f.construct, f.why, f.line)
    ctx.functions |= {f for f in tmp.functions if f.startswith("SequOOL")}
    return dict(
        explanation=(
            "FORM: harmonic_series_sum is the sum 1/i for i = 1..n; h_max = floor(n/H_n) is fixed at construction; every depth advance is "
            "immediately followed by budget = floor(h_max/depth) and the budget is otherwise only decremented by one. CAP: all opening "
            "code (make_children, open, additions to the searched points) sits under curr_depth <= h_max; the other branch hands out the "
            "root's centre and touches nothing else. OPEN: at depth >= 1 the cell to open is an arg-max (seed -inf) of the first observed "
            "reward over the unopened cells of the current depth; its children are handed out one per pull in index order, each "
            "recorded as the cell to credit and as a searched point in the same step; the last child marks the cell opened, resets the "
            "child counter, decrements the budget and advances the depth when the budget is used up or no unopened cell remains. "
            "CHOSEN: the searched points change only on those hand-out steps. Plus C03/C04's call-site, pairing and once-rules for "
            "SequOOL. This is a thin row: the order of openings over a whole run is not decided."),
        assumptions=["n >= 10; pull/receive_reward alternate"],
        technique="structural pattern rules over the schedule code (normalised statements) + arg-max fold recognition",
    )
