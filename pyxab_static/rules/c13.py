"""C13 - VROOM samples cells from the rank-based distribution and points inside the cell (thin)."""
import ast

import sympy as sp

from .. import callsites as CS
from .. import cfg as C
from .. import credit as CR
from .. import effects as E
from .. import summary as SM
from .. import symx as SX
from ..model import calls_in, get_arg, is_self_attr, method_name, strip_doc
from ..report import AnalysisError, Ctx, norm_src


def P(n):
    return sp.Symbol(n, positive=True)


def check_init(ctx):
    model = ctx.model
    c = model.cls("VROOM")
    init = model.own_method("VROOM", "__init__")
    q = "VROOM.__init__"
    ctx.fn(q)
    Sm = SM.Summarizer(model, "VROOM")
    Sm.skip_loops = True
    ps = [p for p in Sm.run(init) if not p.raises]
    n, b, fm = P("n"), P("b"), P("f_max")
    want = {"n": n, "b": b, "f_max": fm, "search_depth": sp.floor(sp.log(n) / sp.log(2)), "delta": 4 * b / (fm * sp.sqrt(n))}
    for a, ref in want.items():
        vals = {p.stores.get(a) for p in ps}
        ok = len(vals) == 1 and None not in vals and SX.equivalent(list(vals)[0], ref)[0] is True
        ctx.ob("R13-FORM", ok, c.file, q, "self.%s" % a, "== %s" % ref if ok else "is %s, published value %s" % (vals, ref), init.lineno)
    hm = sorted(str(p.stores.get("h_max")) for p in ps)
    ctx.ob("R13-FORM", hm == ["h_max", "n"], c.file, q, "depth cap = min(h_max, n)", "%s" % hm, init.lineno, nontrivial=False)
    # tree pre-built down to search_depth
    wl = [w for w in ast.walk(init) if isinstance(w, ast.While)]
    ok = len(wl) == 1 and norm_src(wl[0].test) == "self.partition.get_depth() < self.search_depth" and [norm_src(s) for s in wl[0].body] == ["self.partition.deepen()"]
    ctx.ob("R13-FORM", ok, c.file, q, "tree pre-built to the ranking depth", "while depth < search_depth: deepen()" if ok else "not recognised", init.lineno)
    # normaliser: sum over h = 1..search_depth, l = 1..2^h of 1/(h l) - the accumulation loops are summarised as a symbolic
    # double sum (temporaries, a local accumulator stored afterwards and either nesting of the factors are all the same sum)
    Sm2 = SM.Summarizer(model, "VROOM")
    Sm2.skip_loops = True
    okc = False
    whyc = "normaliser loop not recognised"
    try:
        ps2 = [p2 for p2 in Sm2.run(init) if not p2.raises]
        v0, v1 = sp.Symbol("SUMVAR0", integer=True, positive=True), sp.Symbol("SUMVAR1", integer=True, positive=True)
        Dsym = None
        vals = []
        for p2 in ps2:
            cv = p2.stores.get("const")
            vals.append(cv)
            Dsym = p2.stores.get("search_depth", Sm2.T.sym("search_depth"))
        ref = sp.Sum(sp.Sum(1 / (v0 * v1), (v1, 1, 2 ** v0)), (v0, 1, Dsym)) if Dsym is not None else None
        okc = bool(vals) and all(cv is not None and ref is not None and sp.simplify(cv - ref) == 0 for cv in vals)
        if not okc:
            whyc = "self.const is %s" % (vals[:1],)
    except (SM.HasLoop, SX.Untranslatable) as ex:
        whyc = "cannot summarise __init__: %s" % ex
    ctx.ob("R13-WEIGHT", okc, c.file, q, "C = sum_{h=1..D} sum_{l=1..2^h} 1/(h l)", "double sum recognised" if okc else whyc, init.lineno)


def check_rank(ctx):
    model = ctx.model
    c = model.cls("VROOM")
    fn = model.own_method("VROOM", "rank")
    q = "VROOM.rank"
    ctx.fn(q)
    body = strip_doc(fn.body)
    inner = [s for s in body if isinstance(s, ast.FunctionDef)]
    srt = [s for s in body if isinstance(s, ast.Assign) and isinstance(s.value, ast.Call) and norm_src(s.value.func) == "sorted"]
    if not srt:
        # the ordered list may be built right in the loop header: for .. in enumerate(sorted(..)..)
        for s in body:
            if isinstance(s, ast.For):
                for x in ast.walk(s.iter):
                    if isinstance(x, ast.Call) and norm_src(x.func) == "sorted":
                        srt.append(ast.Assign(targets=[ast.parse(norm_src(x), mode="eval").body], value=x))
    arg = fn.args.args[1].arg
    # the key function: a nested def, a lambda, or a method of the class given as key=self.m
    kfun = None
    ok = len(srt) == 1
    if ok:
        call = srt[0].value
        kw = {k.arg: k.value for k in call.keywords}
        kv = kw.get("key")
        if isinstance(kv, ast.Name) and len(inner) == 1 and inner[0].name == kv.id:
            kfun = inner[0]
        elif isinstance(kv, ast.Lambda) and len(kv.args.args) == 1 and not inner:
            kfun = ast.FunctionDef(name="<lambda>", args=kv.args, body=[ast.Return(value=kv.body)], decorator_list=[], lineno=kv.lineno, col_offset=0)
            ast.fix_missing_locations(kfun)
        elif is_self_attr(kv) and kv.attr in c.methods and not inner and len(c.methods[kv.attr].args.args) == 2:
            m = c.methods[kv.attr]
            kfun = ast.FunctionDef(name=m.name, args=ast.arguments(posonlyargs=[], args=[m.args.args[1]], kwonlyargs=[], kw_defaults=[], defaults=[]),
                                   body=m.body, decorator_list=[], lineno=m.lineno, col_offset=0)
        # the sorted collection: the layer handed in, possibly copied into a list first
        a0 = call.args[0] if len(call.args) == 1 else None
        while isinstance(a0, ast.Call) and isinstance(a0.func, ast.Name) and a0.func.id in ("list", "tuple") and len(a0.args) == 1 and not a0.keywords:
            a0 = a0.args[0]
        ok = kfun is not None and a0 is not None and norm_src(a0) == arg and set(kw) == {"key", "reverse"} and norm_src(kw["reverse"]) == "True"
        if ok:
            inner = [kfun]
    ctx.ob("R13-RANK", ok, c.file, q, "cells ordered by sorted(cells, key=lower confidence value, reverse=True)",
           norm_src(srt[0].value) if srt else "no sorted() call", fn.lineno)
    if not ok:
        return
    rk = norm_src(srt[0].targets[0])
    loops = [s for s in body if isinstance(s, ast.For)]
    okl = False
    if len(loops) == 1:
        L = loops[0]
        it, tg = norm_src(L.iter), norm_src(L.target)
        lines = [norm_src(s) for s in L.body]
        if it == "range(len(%s))" % rk:
            okl = lines in (["node = %s[%s]" % (rk, tg), "node.add_rank(%s + 1)" % tg], ["%s[%s].add_rank(%s + 1)" % (rk, tg, tg)])
        elif it in ("enumerate(%s)" % rk,) and isinstance(L.target, ast.Tuple):
            i, nd = [norm_src(e) for e in L.target.elts]
            okl = lines == ["%s.add_rank(%s + 1)" % (nd, i)]
        elif it in ("enumerate(%s, 1)" % rk, "enumerate(%s, start=1)" % rk) and isinstance(L.target, ast.Tuple):
            i, nd = [norm_src(e) for e in L.target.elts]
            okl = lines == ["%s.add_rank(%s)" % (nd, i)]
    ctx.ob("R13-RANK", okl, c.file, q, "rank = position + 1 in that order: a permutation of 1..|layer|, non-increasing in the key",
           "%s" % [norm_src(s) for s in loops[0].body] if loops else "no loop", fn.lineno)
    # the key
    kf = inner[0]
    pn = kf.args.args[0].arg
    ncls = model.node_class_of_algo("VROOM")
    Sm = SM.Summarizer(model, "VROOM")
    T = Sm.T
    Tc = P("evals")
    mean = P("mean")

    def call_cb(e, T2, orig=Sm._call):
        s = norm_src(e)
        if s == "%s.get_eval_time()" % pn:
            return Tc
        if s == "%s.get_mean_reward()" % pn:
            return mean
        return orig(e, T2)
    T.call_cb = call_cb
    try:
        ps = Sm.run(kf)
    except (SM.HasLoop, SX.Untranslatable) as ex:
        ctx.violation("R13-RANK", c.file, q, "rank key", "cannot read: %s" % ex, kf.lineno)
        return
    zero = [p for p in ps if p.conds == [("%s.get_eval_time() == 0" % pn, True)]]
    pos = [p for p in ps if p.conds == [("%s.get_eval_time() == 0" % pn, False)]]
    okk = len(ps) == 2 and len(zero) == 1 and len(pos) == 1 and zero[0].ret == -sp.oo
    if okk:
        ref = mean - sp.sqrt(sp.log(4 * P("n") ** 3 / P("delta")) / (2 * Tc))
        eq, wit = SX.equivalent(pos[0].ret, ref)
        okk = eq is True
        why = "mean - sqrt(ln(4 n^3/delta)/(2T)), -inf when unevaluated" if okk else "key is %s%s" % (pos[0].ret, " (differs at %s)" % wit if wit else "")
    else:
        why = "paths %s" % [(p.conds, p.ret) for p in ps]
    ctx.ob("R13-RANK", okk, c.file, q, "key = lower confidence value", why, kf.lineno)
    # getters of the cell class
    nc = model.cls(ncls)
    for g, exp in (("get_mean_reward", "return np.mean(self.reward)"), ("get_eval_time", "return len(self.reward)"), ("get_rank", "return self.rank")):
        f2 = model.own_method(ncls, g)
        b2 = [norm_src(s) for s in strip_doc(f2.body)]
        ctx.ob("R13-RANK", b2 == [exp], nc.file, "%s.%s" % (ncls, g), exp, "%s" % b2, f2.lineno, nontrivial=False)
    f2 = model.own_method(ncls, "add_rank")
    ctx.ob("R13-RANK", [norm_src(s) for s in strip_doc(f2.body)] == ["self.rank.append(%s)" % f2.args.args[1].arg], nc.file, "%s.add_rank" % ncls,
           "self.rank.append(rank)", "ranks are appended; the latest is the current one", f2.lineno, nontrivial=False)


def _resolve(fc, e, at, depth=0):
    """Source of `e` with local names replaced by what they were last bound to (single reaching definition, plain or unpacked
    from a subscript), up to a small depth: `idx = T[s]; x = NL[idx[0]][idx[1]]` reads as NL[T[s][0]][T[s][1]]."""
    if depth > 4:
        return norm_src(e)

    class R(ast.NodeTransformer):
        def visit_Name(self, n):
            if not isinstance(n.ctx, ast.Load):
                return n
            ds, entry = fc.reaching(n.id, at)
            if entry or len(ds) != 1:
                return n
            nd, r = ds[0]
            if r[0] == "assign" and isinstance(r[1], (ast.Subscript, ast.Name)) and n.id not in ("node_list",):
                return ast.parse(_resolve(fc, r[1], nd, depth + 1), mode="eval").body
            if r[0] == "unpack" and isinstance(r[1], ast.Subscript) and isinstance(r[2], (ast.Tuple, ast.List)):
                names = [norm_src(t) for t in r[2].elts]
                if n.id in names:
                    return ast.parse("%s[%d]" % (_resolve(fc, r[1], nd, depth + 1), names.index(n.id)), mode="eval").body
            return n
    import copy as _copy
    return norm_src(R().visit(_copy.deepcopy(e)))


def _inner_space(gen, h):
    """(layer source, {name: replacement source in terms of the position variable _k}) of the inner generator of a builder
    that visits every cell of one layer in order: `for l in range(len(X))`, `for c in X`, `for (l, c) in enumerate(X)`."""
    it, tg = gen.iter, gen.target
    if isinstance(tg, ast.Name) and isinstance(it, ast.Call) and norm_src(it.func) == "range" and len(it.args) == 1 and not it.keywords and \
            isinstance(it.args[0], ast.Call) and norm_src(it.args[0].func) == "len" and len(it.args[0].args) == 1:
        return norm_src(it.args[0].args[0]), {tg.id: "_k"}
    if isinstance(tg, ast.Tuple) and len(tg.elts) == 2 and all(isinstance(t, ast.Name) for t in tg.elts) and isinstance(it, ast.Call) and \
            norm_src(it.func) == "enumerate" and len(it.args) == 1 and not it.keywords:
        x = norm_src(it.args[0])
        return x, {tg.elts[0].id: "_k", tg.elts[1].id: "%s[_k]" % x}
    if isinstance(tg, ast.Name) and isinstance(it, (ast.Subscript, ast.Name, ast.Attribute)):
        x = norm_src(it)
        return x, {tg.id: "%s[_k]" % x}
    return None, None


def _subst(e, mp):
    class S(ast.NodeTransformer):
        def visit_Name(self, n):
            if isinstance(n.ctx, ast.Load) and n.id in mp:
                return ast.parse(mp[n.id], mode="eval").body
            return n
    import copy as _copy
    return S().visit(_copy.deepcopy(e))


def fuse_parallel_builders(ctx):
    """The statement of R13-WEIGHT does not depend on whether the table of records and the weights are built in ONE loop nest
    or as two parallel sequences over the SAME iteration space (two nested comprehensions, layers ranked by a loop of their own
    before): position k of both belongs to the k-th (depth, cell) pair of that space either way, and rank() touches only the
    cells of the layer it is given (R13-RANK), so ranking all layers first and ranking each layer right before its weights are
    read give every cell the same rank.  When pull is written in the parallel form, the equivalent single nest is what the
    rules read:
        for h in R: self.rank(L(h))                       for h in R:
        T = [rec for h in R for x in S1(h)]          ==       self.rank(L(h))
        self.prob = [w for h in R for y in S2(h)]             for _k in range(len(X(h))): T.append(rec'); self.prob.append(w')
    required: the three outer ranges are textually the same expression over names nothing in between assigns, both inner
    generators visit every cell of the same layer expression X(h) in order (no filters), and the three statements are adjacent
    up to each other.  Anything else is left as written."""
    model = ctx.model
    cinfo = model.cls("VROOM")
    pull = cinfo.methods.get("pull")
    if pull is None:
        return
    body = pull.body
    comps = {}
    for i, s in enumerate(body):
        if isinstance(s, ast.Assign) and len(s.targets) == 1 and isinstance(s.value, ast.ListComp) and len(s.value.generators) == 2 and \
                not any(g.ifs or g.is_async for g in s.value.generators) and isinstance(s.value.generators[0].target, ast.Name):
            comps[i] = s
    pi = [i for i, s in comps.items() if is_self_attr(s.targets[0], "prob")]
    ti = [i for i, s in comps.items() if isinstance(s.targets[0], ast.Name)]
    if len(pi) != 1 or len(ti) != 1:
        return
    pi, ti = pi[0], ti[0]
    R = norm_src(comps[pi].value.generators[0].iter)
    if norm_src(comps[ti].value.generators[0].iter) != R:
        return
    first = min(pi, ti)
    ri = [i for i, s in enumerate(body[:first]) if isinstance(s, ast.For) and not s.orelse and isinstance(s.target, ast.Name) and norm_src(s.iter) == R and
          len(s.body) == 1 and isinstance(s.body[0], ast.Expr) and isinstance(s.body[0].value, ast.Call) and norm_src(s.body[0].value.func) == "self.rank"]
    if len(ri) != 1:
        return
    ri = ri[0]
    if sorted([ri, pi, ti]) != list(range(ri, ri + 3)):
        return
    h = body[ri].target.id
    out = {}
    for i in (ti, pi):
        g0, g1 = comps[i].value.generators
        x, mp = _inner_space(g1, g0.target.id)
        if x is None:
            return
        ren = {g0.target.id: h}
        x = norm_src(_subst(ast.parse(x, mode="eval").body, ren))
        mp = {k: norm_src(_subst(ast.parse(v, mode="eval").body, ren)) for k, v in mp.items()}
        mp.update({g0.target.id: h} if g0.target.id != h else {})
        out[i] = (x, norm_src(_subst(comps[i].value.elt, mp)))
    if out[ti][0] != out[pi][0]:
        return
    tname = comps[ti].targets[0].id
    X = out[ti][0]
    src = ("%s = []\nself.prob = []\nfor %s in %s:\n    %s\n    for _k in range(len(%s)):\n        %s.append(%s)\n        self.prob.append(%s)\n"
           % (tname, h, R, norm_src(body[ri].body[0]), X, tname, out[ti][1], out[pi][1]))
    new = ast.parse(src).body
    for n in new:
        for x in ast.walk(n):
            ast.copy_location(x, body[ri])
    body[ri:ri + 3] = new
    for n in ast.walk(pull):
        for ch in ast.iter_child_nodes(n):
            model.parent[id(ch)] = n
    ctx.note("VROOM.pull: parallel builders of the record table and the weights read as one loop nest")


def check_weights(ctx):
    """R13-WEIGHT, stated as what must hold (not how it is written): at every pull the weight list and a parallel table of
    records are rebuilt; for every depth h = 1..floor(log2 n) the layer is ranked first and then EVERY cell of the layer
    contributes exactly one record and one weight 1/(h * its current rank * C), both unconditionally and in the same loop body
    (so position k of the table and of the weights belong to the same cell); one position is drawn with
    np.random.choice(<positions of the table>, p=weights) and the table is read at that position only."""
    model = ctx.model
    c = model.cls("VROOM")
    pull = model.own_method("VROOM", "pull")
    q = "VROOM.pull"
    ctx.fn(q)
    fc = CS.FnCtx(model, E.Effects(model), "VROOM", pull)
    body = strip_doc(pull.body)
    loops = [s for s in body if isinstance(s, ast.For) and any(isinstance(x, ast.Call) and norm_src(x.func) == "self.prob.append" for x in ast.walk(s))]
    ok = False
    why = "weight loop not recognised"
    table = None
    record_kind = None
    if len(loops) == 1 and isinstance(loops[0].target, ast.Name) and norm_src(loops[0].iter) == "range(1, self.search_depth + 1)":
        L = loops[0]
        h = L.target.id
        inner = [s for s in L.body if isinstance(s, ast.For)]
        rk = [s for s in L.body if isinstance(s, ast.Expr) and isinstance(s.value, ast.Call) and norm_src(s.value.func) == "self.rank" and
              len(s.value.args) == 1]
        others = [s for s in L.body if s not in inner and s not in rk and not (isinstance(s, ast.Assign) and isinstance(s.targets[0], ast.Name))]
        if len(inner) == 1 and len(rk) == 1 and not others and L.body.index(rk[0]) < L.body.index(inner[0]):
            I = inner[0]
            at = fc.node_of(rk[0])
            lay = CS.layer_index(fc, rk[0].value.args[0], at)
            ranked_h = lay is not None and norm_src(lay) == h
            # the cells the inner loop visits: all cells of layer h, in order
            it, tg = I.iter, I.target
            cell_srcs, idx = set(), None
            head = fc.node_of(I)
            if isinstance(tg, ast.Name) and isinstance(it, ast.Call) and norm_src(it.func) == "range" and len(it.args) == 1 and \
                    isinstance(it.args[0], ast.Call) and norm_src(it.args[0].func) == "len" and len(it.args[0].args) == 1:
                lexpr = it.args[0].args[0]
                l2 = CS.layer_index(fc, lexpr, head)
                if l2 is not None and norm_src(l2) == h:
                    idx = tg.id
                    cell_srcs = {"%s[%s]" % (norm_src(lexpr), idx), "node_list[%s][%s]" % (h, idx)}
            elif isinstance(tg, ast.Name):
                l2 = CS.layer_index(fc, it, head)
                if l2 is not None and norm_src(l2) == h:
                    cell_srcs = {tg.id}
            elif isinstance(tg, ast.Tuple) and len(tg.elts) == 2 and isinstance(it, ast.Call) and norm_src(it.func) == "enumerate" and len(it.args) == 1:
                l2 = CS.layer_index(fc, it.args[0], head)
                if l2 is not None and norm_src(l2) == h:
                    idx = norm_src(tg.elts[0])
                    cell_srcs = {norm_src(tg.elts[1]), "%s[%s]" % (norm_src(it.args[0]), idx), "node_list[%s][%s]" % (h, idx)}
            # cell aliases defined in the body (node = layer[l])
            temps = {}
            for b in I.body:
                if isinstance(b, ast.Assign) and len(b.targets) == 1 and isinstance(b.targets[0], ast.Name):
                    if norm_src(b.value) in cell_srcs:
                        cell_srcs.add(b.targets[0].id)
                    else:
                        temps[b.targets[0].id] = b.value
            appends = [b for b in I.body if isinstance(b, ast.Expr) and isinstance(b.value, ast.Call) and isinstance(b.value.func, ast.Attribute) and
                       b.value.func.attr == "append" and len(b.value.args) == 1]
            rest = [b for b in I.body if b not in appends and not (isinstance(b, ast.Assign) and isinstance(b.targets[0], ast.Name))]
            pa = [b for b in appends if norm_src(b.value.func) == "self.prob.append"]
            ta = [b for b in appends if b not in pa and isinstance(b.value.func.value, ast.Name)]
            whole = not any(isinstance(x, (ast.Break, ast.Continue, ast.Return)) for x in ast.walk(L))
            okw = False
            if cell_srcs and len(pa) == 1 and len(ta) == 1 and len(appends) == 2 and not rest and whole:
                T = SX.Translator(positive=True)
                T.attr_cb = lambda e: T.sym(e.attr) if is_self_attr(e) else None

                class Sub(ast.NodeTransformer):
                    def visit_Name(self, n):
                        if n.id in temps and isinstance(n.ctx, ast.Load):
                            return Sub().visit(ast.parse(norm_src(temps[n.id]), mode="eval").body)
                        return n

                    def visit_Subscript(self, n):
                        if any(norm_src(n) == "%s.get_rank()[-1]" % cs for cs in cell_srcs):
                            return ast.Name(id="RANK", ctx=ast.Load())
                        return self.generic_visit(n)
                try:
                    got = T.tr(Sub().visit(ast.parse(norm_src(pa[0].value.args[0]), mode="eval").body))
                    okw = SX.equivalent(got, 1 / (T.sym(h) * T.sym("RANK") * T.sym("const")))[0] is True
                except SX.Untranslatable as ex:
                    why = "weight expression not understood: %s" % ex
                table = ta[0].value.func.value.id
                rec = ta[0].value.args[0]
                if isinstance(rec, (ast.Tuple, ast.List)) and len(rec.elts) == 2 and norm_src(rec.elts[0]) == h:
                    if idx is not None and norm_src(rec.elts[1]) == idx:
                        record_kind = "index"
                    elif norm_src(rec.elts[1]) in cell_srcs:
                        record_kind = "cell"
            ok = ranked_h and okw and record_kind is not None
            if not ok and why == "weight loop not recognised":
                why = ("layer ranked: %s; every cell of layer %s visited: %s; one record + one weight per cell: %s; weight = 1/(h*rank*C): %s; record: %s"
                       % (ranked_h, h, bool(cell_srcs), len(pa) == 1 and len(ta) == 1 and not rest, okw, record_kind))
            elif ok:
                why = "for h in 1..D: rank(layer h); every cell: table.append((h, %s)); prob.append(1/(h*rank*C))" % ("position" if record_kind == "index" else "cell")
    ctx.ob("R13-WEIGHT", ok, c.file, q, "weight of a cell of depth h and rank r is 1/(h r C), over depths 1..floor(log2 n)", why, pull.lineno)
    resets = [norm_src(s) for s in body if isinstance(s, ast.Assign) and norm_src(s.targets[0]) in (table or "index", "self.prob")]
    ctx.ob("R13-WEIGHT", sorted(resets) == sorted(["%s = []" % (table or "index"), "self.prob = []"]), c.file, q, "weights rebuilt at every pull", "%s" % resets,
           pull.lineno, nontrivial=False)
    # the draw
    draw = [s for s in body if isinstance(s, ast.Assign) and isinstance(s.value, ast.Call) and norm_src(s.value.func) == "np.random.choice"]
    okd = False
    tb = table or "index"
    if len(draw) == 1 and isinstance(draw[0].targets[0], ast.Name):
        call = draw[0].value
        kw = {k.arg: norm_src(k.value) for k in call.keywords}
        a0 = norm_src(call.args[0]) if call.args else ""
        okd = kw == {"p": "self.prob"} and a0 in ("[i for i in range(len(%s))]" % tb, "range(len(%s))" % tb, "len(%s)" % tb, "list(range(len(%s)))" % tb,
                                                  "np.arange(len(%s))" % tb)
        sv = draw[0].targets[0].id
        # the table is read at the drawn position only, and the cell the round continues with is the one that record denotes
        reads = [x for x in ast.walk(pull) if isinstance(x, ast.Subscript) and isinstance(x.value, ast.Name) and x.value.id == tb and isinstance(x.ctx, ast.Load)]
        okd = okd and bool(reads) and all(norm_src(x.slice) == sv for x in reads)
        cn = [s for s in ast.walk(pull) if isinstance(s, ast.Assign) and any(is_self_attr(t, "curr_node") for t in s.targets)]
        if okd and len(cn) == 1:
            got = _resolve(fc, cn[0].value, fc.node_of(cn[0]))
            want = {"index": "node_list[%s[%s][0]][%s[%s][1]]" % (tb, sv, tb, sv), "cell": "%s[%s][1]" % (tb, sv)}.get(record_kind)
            okd = got == want
        else:
            okd = False
    ctx.ob("R13-WEIGHT", okd, c.file, q, "cell drawn with np.random.choice(<positions>, p=weights); the round continues with the cell of the drawn record",
           norm_src(draw[0]) if draw else "no draw", pull.lineno)


def draw_info(fc, pull):
    """(table, sample variable, record kind) of the draw: sample = np.random.choice(.., p=self.prob); the table is the local
    list read at [sample]; its records are (depth, position in the layer) ['index'] or (depth, cell) ['cell']."""
    draw = [s for s in ast.walk(pull) if isinstance(s, ast.Assign) and isinstance(s.value, ast.Call) and norm_src(s.value.func) == "np.random.choice" and
            isinstance(s.targets[0], ast.Name)]
    if len(draw) != 1:
        return None
    sv = draw[0].targets[0].id
    tabs = {x.value.id for x in ast.walk(pull) if isinstance(x, ast.Subscript) and isinstance(x.value, ast.Name) and isinstance(x.ctx, ast.Load) and
            norm_src(x.slice) == sv}
    if len(tabs) != 1:
        return None
    tb = tabs.pop()
    kind = None
    for x in ast.walk(pull):
        if isinstance(x, ast.Call) and norm_src(x.func) == "%s.append" % tb and len(x.args) == 1 and isinstance(x.args[0], (ast.Tuple, ast.List)) and \
                len(x.args[0].elts) == 2:
            second = x.args[0].elts[1]
            lay = CS.layer_of(fc, second, fc.node_of(x))
            k = "cell" if lay is not None and norm_src(lay) == norm_src(x.args[0].elts[0]) else "index"
            if kind is not None and kind != k:
                return None
            kind = k
    if kind is None:
        return None
    return tb, sv, kind


def drawn_cell_src(info):
    tb, sv, kind = info
    return {"index": "node_list[%s[%s][0]][%s[%s][1]]" % (tb, sv, tb, sv), "cell": "%s[%s][1]" % (tb, sv)}[kind]


def check_point(ctx):
    model = ctx.model
    c = model.cls("VROOM")
    pull = model.own_method("VROOM", "pull")
    q = "VROOM.pull"
    eff = E.Effects(model)
    fc = CS.FnCtx(model, eff, "VROOM", pull)
    rets = [r for r in ast.walk(pull) if isinstance(r, ast.Return)]
    okr = len(rets) == 1 and rets[0].value is not None and isinstance(rets[0].value, ast.Call) and method_name(rets[0].value) == "sample_uniform"
    ctx.ob("R13-POINT", okr, c.file, q, "returns a uniform sample of the final cell", "%s" % [norm_src(r) for r in rets], pull.lineno)
    if not okr:
        return
    cur = norm_src(rets[0].value.func.value)
    # update_list = [cur] ... lock-step descent
    from .c04 import lockstep_list
    ok, why = lockstep_list(fc, "self.update_list", cur)
    ctx.ob("R13-POINT", ok, c.file, q, "the credited chain is the drawn cell followed, step by step, by the child moved to", why, pull.lineno)
    inits = fc.defs_of("self.update_list")
    if len(inits) == 1:
        at = inits[0][0]
        ds, entry = fc.reaching(cur, at)
        info = draw_info(fc, pull)
        got = _resolve(fc, ast.parse(cur, mode="eval").body, at) if not entry and len(ds) == 1 else None
        if got is None and inits[0][1][0] == "assign" and isinstance(inits[0][1][1], ast.List) and len(inits[0][1][1].elts) == 1:
            # the chain's first element written out (the cursor is bound to the same expression next to it: checked by the
            # lock-step rule above)
            got = _resolve(fc, inits[0][1][1].elts[0], at)
        okd = info is not None and got is not None and got == drawn_cell_src(info)
        ctx.ob("R13-POINT", okd, c.file, q, "the chain starts at the drawn cell itself (the cell of the drawn record)",
               "%s is %s" % (cur, got) if got is not None else "%s" % [norm_src(r[1]) if r[0] == "assign" else r[0] for n, r in ds], at.line)
    ok, why = descent_loop(fc, pull, cur)
    ctx.ob("R13-POINT", ok, c.file, q, "descent to the depth cap: one random child per level while h < h_max", why, pull.lineno)


def descent_loop(fc, pull, cur):
    """The loop that walks from the drawn cell down to depth h_max: a depth counter running from the drawn cell's depth up to
    self.h_max (exclusive); per iteration exactly one unconditional step cur = cur.get_children()[k] with k drawn by
    np.random.randint over the children, preceded by an expansion of cur when it has no children; no early exit."""
    model = fc.model
    loops = []
    for l in ast.walk(pull):
        if isinstance(l, (ast.For, ast.While)):
            steps = [s for s in l.body if isinstance(s, ast.Assign) and len(s.targets) == 1 and norm_src(s.targets[0]) == cur and
                     CS._is_child_step(s.value, cur)]
            if steps:
                loops.append((l, steps))
    if len(loops) != 1:
        return False, "expected one loop stepping '%s' to a child, found %d" % (cur, len(loops))
    L, steps = loops[0]
    if len(steps) != 1:
        return False, "the loop steps '%s' %d times per iteration" % (cur, len(steps))
    step = steps[0]
    others = [x for b in L.body for x in ast.walk(b) if isinstance(x, (ast.Assign, ast.AugAssign)) and x is not step and
              any(norm_src(t) == cur for t in (x.targets if isinstance(x, ast.Assign) else [x.target]))]
    if others:
        return False, "'%s' is also changed by %s inside the loop" % (cur, norm_src(others[0]))
    if any(isinstance(x, (ast.Break, ast.Continue, ast.Return)) for b in L.body for x in ast.walk(b)):
        return False, "the descent loop can be left or cut short (break/continue/return)"
    # counter and bound
    if isinstance(L, ast.For):
        it = L.iter
        if not (isinstance(L.target, ast.Name) and isinstance(it, ast.Call) and norm_src(it.func) == "range" and len(it.args) == 2 and not it.keywords):
            return False, "descent loop is not a counting loop: for %s in %s" % (norm_src(L.target), norm_src(it))
        v, start, bound = L.target.id, it.args[0], it.args[1]
        if any(isinstance(x, ast.Name) and x.id == v and isinstance(x.ctx, ast.Store) for b in L.body for x in ast.walk(b)):
            return False, "the depth counter is modified inside the loop"
    else:
        t = L.test
        last = L.body[-1]
        if not (isinstance(t, ast.Compare) and len(t.ops) == 1 and isinstance(t.ops[0], ast.Lt) and isinstance(t.left, ast.Name) and
                isinstance(last, ast.AugAssign) and isinstance(last.op, ast.Add) and norm_src(last.target) == norm_src(t.left) and
                norm_src(last.value) == "1"):
            return False, "descent loop is not `while h < bound: ...; h += 1`: %s" % norm_src(t)
        v, bound = t.left.id, t.comparators[0]
        if sum(1 for b in L.body for x in ast.walk(b) if isinstance(x, ast.Name) and x.id == v and isinstance(x.ctx, ast.Store)) != 1:
            return False, "the depth counter is modified more than once per iteration"
        ds, entry = CS.FnCtx.reaching(fc, v, fc.cfg.node_of(L))
        ds = [d for d in ds if not any(d[0].ast is x for b in L.body for x in ast.walk(b))]
        if entry or len(ds) != 1 or ds[0][1][0] not in ("assign", "unpack"):
            return False, "the depth counter has no single initialisation"
        start = ds[0][1][1] if ds[0][1][0] == "assign" else ast.Name(id=v, ctx=ast.Load())
    if norm_src(bound) != "self.h_max":
        return False, "the descent stops at '%s', not at the depth cap self.h_max" % norm_src(bound)
    # the counter starts at the drawn cell's depth: first component of the drawn (depth, position) pair
    st = norm_src(start)
    okh = False
    info = draw_info(fc, pull)
    if info is not None:
        # resolved in front of the loop (the counter's own increments inside the loop are not definitions reaching the loop entry
        # from outside; _resolve requires a single reaching definition, so resolve at the initialising statement's successor)
        init_node = None
        if isinstance(start, ast.Name):
            ds0, e0 = fc.reaching(start.id, fc.cfg.node_of(L))
            ds0 = [d for d in ds0 if not any(d[0].ast is x for b in L.body for x in ast.walk(b))]
            if not e0 and len(ds0) == 1:
                nd0, r0 = ds0[0]
                if r0[0] == "assign":
                    okh = _resolve(fc, r0[1], nd0) == "%s[%s][0]" % (info[0], info[1])
                elif r0[0] == "unpack" and isinstance(r0[2], (ast.Tuple, ast.List)):
                    names = [norm_src(t) for t in r0[2].elts]
                    okh = start.id in names and "%s[%d]" % (_resolve(fc, r0[1], nd0), names.index(start.id)) == "%s[%s][0]" % (info[0], info[1])
        else:
            okh = _resolve(fc, start, fc.cfg.node_of(L)) == "%s[%s][0]" % (info[0], info[1])
    if not okh:
        return False, "the depth counter starts at '%s', which is not the depth component of the drawn index pair" % st
    # the child index is a fresh uniform draw over the children
    k = step.value.slice
    kd = None
    if isinstance(k, ast.Name):
        ds, entry = fc.reaching(k.id, fc.cfg.node_of(step))
        if not entry and len(ds) == 1 and ds[0][1][0] == "assign" and any(ds[0][0].ast is b for b in L.body):
            kd = ds[0][1][1]
    else:
        kd = k
    okk = isinstance(kd, ast.Call) and norm_src(kd.func) in ("np.random.randint", "numpy.random.randint") and len(kd.args) == 1 and not kd.keywords \
        and norm_src(kd.args[0]) in ("2", "len(%s.get_children())" % cur)
    if not okk:
        return False, "the child index '%s' is not a fresh np.random.randint draw over the children" % (norm_src(kd) if kd is not None else norm_src(k))
    # children exist when the step is taken: an earlier top-level `if cur has no children: make_children(cur, ..)`
    idx = L.body.index(step)
    ensured = False
    for b in L.body[:idx]:
        if not isinstance(b, ast.If):
            continue
        atoms = C.flatten_cond(b.test, True)
        if len(atoms) != 1:
            continue
        e, pol = atoms[0]
        e_src = norm_src(e)
        none_branch = None
        if e_src in ("%s.get_children() is None" % cur, "%s.children is None" % cur):
            none_branch = b.body if pol else b.orelse
        elif e_src in ("%s.get_children() is not None" % cur, "%s.children is not None" % cur):
            none_branch = b.orelse if pol else b.body
        elif e_src in ("%s.get_children()" % cur,):
            none_branch = b.orelse if pol else b.body
        if none_branch and any(isinstance(x, ast.Expr) and isinstance(x.value, ast.Call) and method_name(x.value) == "make_children" and
                               norm_src(get_arg(x.value, 0, "parent")) == cur for x in none_branch):
            ensured = True
    if not ensured:
        return False, "no expansion of '%s' precedes the step when it has no children" % cur
    return True, "for depth in [drawn depth, h_max): expand if needed, step to a uniformly drawn child"


    # sample_uniform lies in the cell: C01 R01-INSIDE; descendants lie in the drawn cell: C02


def drawn_cell_expr(fc, e, at):
    """e is node_list[A][B] with (A, B) the pair drawn from `index`: idx = index[sample] and A, B = idx[0], idx[1],
    or A, B unpacked directly from index[sample]."""
    if not (isinstance(e, ast.Subscript) and isinstance(e.value, ast.Subscript) and norm_src(e.value.value) == "node_list"):
        return False
    A, B = e.value.slice, e.slice
    sa, sb = norm_src(A), norm_src(B)
    if isinstance(A, ast.Subscript) and isinstance(B, ast.Subscript) and norm_src(A.value) == norm_src(B.value) and \
            (norm_src(A.slice), norm_src(B.slice)) == ("0", "1") and isinstance(A.value, ast.Name):
        ds, entry = fc.reaching(A.value.id, at)
        return not entry and len(ds) == 1 and ds[0][1][0] == "assign" and norm_src(ds[0][1][1]).startswith("index[")
    if isinstance(A, ast.Name) and isinstance(B, ast.Name):
        da, ea = fc.reaching(sa, at)
        db, eb = fc.reaching(sb, at)
        return (not ea and not eb and len(da) == 1 and len(db) == 1 and da[0][0] is db[0][0] and da[0][1][0] == "unpack" and
                norm_src(da[0][1][1]).startswith("index[") and [norm_src(x) for x in da[0][1][2].elts] == [sa, sb])
    return False


def run(ctx):
    model = ctx.model
    f13 = model.cls("VROOM").file
    fuse_parallel_builders(ctx)
    ctx.attempt("R13-FORM", f13, "VROOM.__init__", "schedule constants", check_init, ctx)
    ctx.attempt("R13-RANK", f13, "VROOM.rank", "ranking", check_rank, ctx)
    ctx.attempt("R13-WEIGHT", f13, "VROOM.pull", "weights", check_weights, ctx)
    ctx.attempt("R13-POINT", f13, "VROOM.pull", "sampled point", check_point, ctx)
    from . import c01, c03, c04
    tmp = Ctx(ctx.prop, ctx.tier, ctx.seed, model)
    cls = model.cls("VROOM")
    info = CR.credit_paths(model, "VROOM")
    c04.check_once(tmp, cls, info)
    c03.check_sites(tmp)
    c01.check_sample_uniform(tmp)
    for o in tmp.obligations:
        if "VROOM" in o["where"]:
            ctx.obligations.append(dict(o, rule=o["rule"].replace("R04", "R13").replace("R03", "R13").replace("R01", "R13")))
    for f in tmp.findings:
        if f.qual.startswith("VROOM"):
            ctx.add_finding(f.rule.replace("R04", "R13").replace("R03", "R13").replace("R01", "R13"), f.file, f.qual, f.construct, f.why, f.line)
    ctx.functions |= {f for f in tmp.functions if f.startswith("VROOM")}
    return dict(
        explanation=(
            "RANK: rank() sorts the layer with sorted(.., key, reverse=True) and assigns position+1 - a permutation of 1..|layer| that is "
            "non-increasing in the key by construction; the key is proved equal to mean - sqrt(ln(4n^3/delta)/(2T)) (-inf when "
            "unevaluated); delta = 4b/(f_max sqrt n), ranking depth floor(log2 n), tree pre-built to that depth. WEIGHT: pull re-ranks every "
            "depth 1..D and gives the cell of depth h and rank r the weight 1/(h r C), C accumulated over the same depth range and l = "
            "1..2^h (the identification 2^h = |layer| is the stated binary-partition assumption); the cell is drawn with np.random.choice "
            "under these weights. POINT: the credited chain starts at the drawn cell itself (no re-assignment in between), is extended by "
            "one random child per level up to the depth cap, and the returned point is sample_uniform() of its last cell (each coordinate "
            "within its own bounds, C01; descendants inside the drawn cell, C02); receive_reward credits every element once (C04). Thin "
            "row: the probabilities as numbers and the non-binary case are not decided."),
        assumptions=["binary-child partitions", "sorted() is stable and total on float keys"],
        technique="structural pattern rules + sympy equivalence of the rank key / weights + lock-step chain analysis",
    )
