"""C17 - synthetic objectives never exceed their declared maximum and attain it; f is pure; wrong
dimension is rejected with ValueError."""
import ast
import re

import sympy as sp
from mpmath import iv

from .. import ival as IV
from ..model import strip_doc
from ..symx import safe_simplify
from ..report import AnalysisError, Ctx, norm_src
from ..symx import Untranslatable

TOL = 1e-9
# parameter ranges of the property statement (constructor arguments)
PARAM_RANGES = {
    "DoubleSine": {"rho1": ("0.05", "1"), "rho2": ("0.05", "1"), "tmax": ("0", "1")},
    "Perturbed_DoubleSine": {"rho1": ("0.05", "1"), "rho2": ("0.05", "1"), "tmax": ("0", "1")},
    "Rastrigin_Normalized": {"k": ("0.001", "1000")},
}
# documented maximisers (point at which fmax must be attained) and the tolerance of the statement
MAXIMISER = {
    "Garland": (lambda P: [sp.pi / 6], 0.003),
    "Perturbed_Garland": (lambda P: [sp.pi / 6], 0.003),
    "DoubleSine": (lambda P: [P["tmax"]], TOL),
    "Perturbed_DoubleSine": (lambda P: [P["tmax"]], TOL),
    "DifficultFunc": (lambda P: [sp.Rational(1, 2)], TOL),
    "Ackley": (lambda P: [0, 0], TOL),
    "Ackley_Normalized": (lambda P: [0, 0], TOL),
    "Himmelblau": (lambda P: [3, 2], TOL),
    "Himmelblau_Normalized": (lambda P: [3, 2], TOL),
    "Rastrigin": (lambda P: None, TOL),          # origin in every dimension
    "Rastrigin_Normalized": (lambda P: None, TOL),
    "Cexample": (lambda P: [0], TOL),
}
DOMAIN_FALLBACK = {"Cexample": ("0", "exp(-1)", 1)}
ANY_DIM = {"Rastrigin", "Rastrigin_Normalized"}
MIN_CLASSES = 12


def doc_domain(cls):
    doc = ast.get_docstring(cls.node) or ""
    m = re.search(r"domain\s*\[\s*([^,\]]+)\s*,\s*([^\]]+)\]\s*(?:\^\s*(\w+))?", doc)
    if not m:
        return None
    lo, hi, p = m.group(1).strip(), m.group(2).strip(), m.group(3)
    hi = hi.replace("1/e", "exp(-1)")
    return lo, hi, p


def analyse_init(ctx, cls, P):
    """self attributes after __init__ as sympy expressions over the constructor parameters."""
    model = ctx.model
    init = cls.methods.get("__init__")
    attrs = {}
    atoms = []
    if init is None:
        return attrs, atoms
    fe = IV.FEval(model, cls.file, {}, 0, atoms)
    env = {}
    for a in init.args.args[1:]:
        env[a.arg] = P.setdefault(a.arg, sp.Symbol(a.arg, real=True))
    perturb = sp.Symbol("perturb", real=True)

    orig_call = fe._call

    def call(e, T):
        if norm_src(e.func) in ("np.random.normal", "numpy.random.normal", "np.random.randn", "np.random.standard_normal"):
            return perturb
        return orig_call(e, T)
    fe.T.call_cb = call
    fe._call = call

    def delegate0(cname, _ctx=ctx, _me=cls.name):
        # attributes of a shared module-level instance of another objective class (read in this constructor)
        if cname == _me or cname not in model.classes:
            raise AnalysisError("%s.__init__ refers to an instance of itself" % _me)
        ci = model.classes[cname]
        ca, _ = analyse_init(_ctx, ci, {})
        return ci, ca
    fe.delegate = delegate0
    body = list(strip_doc(init.body))
    paths = []

    def walk(stmts, env, attrs):
        stmts = list(stmts)
        while stmts:
            s = stmts.pop(0)
            if isinstance(s, ast.If):
                # parameter validation: follow the non-raising branch
                b_raises = any(isinstance(x, ast.Raise) for x in s.body)
                o_raises = any(isinstance(x, ast.Raise) for x in s.orelse)
                if b_raises and not o_raises:
                    stmts = list(s.orelse) + stmts
                    continue
                if o_raises and not b_raises:
                    stmts = list(s.body) + stmts
                    continue
                raise AnalysisError("%s.__init__: unsupported branching" % cls.name)
            if isinstance(s, ast.Assign) and len(s.targets) == 1:
                t = s.targets[0]
                fe.self_attrs = attrs
                v = fe.tr(s.value, env)
                if isinstance(t, ast.Attribute) and isinstance(t.value, ast.Name) and t.value.id == "self":
                    attrs[t.attr] = v
                elif isinstance(t, ast.Name):
                    env[t.id] = v
                else:
                    raise AnalysisError("%s.__init__: unsupported target" % cls.name)
                continue
            if isinstance(s, ast.Expr):
                continue
            if isinstance(s, ast.Pass):
                continue
            raise AnalysisError("%s.__init__: unsupported statement %s" % (cls.name, type(s).__name__))
    walk(body, env, attrs)
    return attrs, atoms


_depth = [0]


def check_dim(ctx, cls, f):
    """R17-DIM: a ValueError guard on len(x) dominates every use of x; d = 1 + max index."""
    body = strip_doc(f.body)
    xname = f.args.args[1].arg
    qual = "%s.f" % cls.name
    if cls.name in ANY_DIM:
        ctx.ob("R17-DIM", True, cls.file, qual, "dimension-generic objective", "accepts any dimension by design (loop over x.size)",
               f.lineno, nontrivial=False)
        return None
    # every use x[k] is dominated by the fact len(x) == d, and the other outcome of that test always raises ValueError
    from .. import cfg as C
    g = C.CFG(f)
    uses = [n for n in ast.walk(f) if isinstance(n, ast.Subscript) and isinstance(n.value, ast.Name) and n.value.id == xname and
            isinstance(n.ctx, ast.Load)]
    other = [n for n in ast.walk(f) if isinstance(n, ast.Name) and n.id == xname and isinstance(n.ctx, ast.Load) and
             not any(n is u.value for u in uses) and not (isinstance(ctx.model.up(n), ast.Call) and norm_src(ctx.model.up(n).func) == "len")]
    # the whole point handed to another objective's f: that f's own guard decides (same d, same ValueError)
    deleg = []
    for n in list(other):
        par = ctx.model.up(n)
        if isinstance(par, ast.Call) and isinstance(par.func, ast.Attribute) and par.func.attr == "f" and par.args == [n]:
            fe0 = IV.FEval(ctx.model, cls.file, {}, 0, [])
            fe0.cls_node = cls.node
            cname = fe0.delegated_class(par.func.value)
            if cname is not None and cname != cls.name and "f" in ctx.model.classes[cname].methods and _depth[0] < 3:
                _depth[0] += 1
                try:
                    tmp = Ctx(ctx.prop, ctx.tier, ctx.seed, ctx.model)
                    dd = check_dim(tmp, ctx.model.classes[cname], ctx.model.classes[cname].methods["f"])
                finally:
                    _depth[0] -= 1
                if dd is not None and not tmp.findings:
                    deleg.append((n, dd, cname))
                    other.remove(n)
    if deleg and not uses and not other:
        dset = {dd for _, dd, _ in deleg}
        ok = len(dset) == 1
        ctx.ob("R17-DIM", ok, cls.file, qual, "len(x) != d raises ValueError before any coordinate is read",
               "the point is handed unchanged to %s.f, whose guard (d=%s) rejects other dimensions" % (deleg[0][2], deleg[0][1]) if ok else
               "delegates to objectives of different dimensions %s" % sorted(dset), f.lineno)
        return deleg[0][1] if ok else None
    d = None
    ok = bool(uses)
    why = "f never reads a coordinate of %s" % xname
    tests = set()
    lx = "len(%s)" % xname
    for u in uses + other:
        fs = [(a, t, lab) for a, t, lab, e in C.facts_at(g, g.node_of(u)) if a[0] == "==" and lx in (a[1], a[2])]
        if not fs:
            ok, why = False, "the use '%s' (line %s) is not guarded by a test of len(%s)" % (norm_src(u), u.lineno, xname)
            break
        a, t, lab = fs[0]
        val = a[2] if a[1] == lx else a[1]
        if not val.isdigit() or (d is not None and int(val) != d):
            ok, why = False, "inconsistent dimension guards (%s)" % (a,)
            break
        d = int(val)
        tests.add((t, lab))
    if ok:
        for t, lab in tests:
            # the complementary outcome must end in `raise ValueError` on every path
            raises = [n for n in g.nodes if n.kind == "stmt" and isinstance(n.ast, ast.Raise) and n.ast.exc is not None and
                      norm_src(n.ast.exc).startswith("ValueError")]
            for s2 in g.succ_by_label(t, not lab):
                if s2 not in raises and not g.must_pass(s2, set(raises), {g.exit}):
                    ok, why = False, "a point of the wrong dimension is not rejected with ValueError on every path"
        if ok:
            why = "guard found with d=%s" % d
    ctx.ob("R17-DIM", ok, cls.file, qual, "len(x) != d raises ValueError before any coordinate is read",
           why if ok else why, f.lineno)
    if ok:
        idx = []
        for n in ast.walk(f):
            if isinstance(n, ast.Subscript) and isinstance(n.value, ast.Name) and n.value.id == xname and isinstance(n.slice, ast.Constant):
                idx.append(n.slice.value)
        good = bool(idx) and set(idx) == set(range(d))
        ctx.ob("R17-DIM", good, cls.file, qual, "indices used are exactly 0..d-1",
               "indices %s with guard d=%s" % (sorted(set(idx)), d), f.lineno)
    else:
        d = None
    return d


def check_class(ctx, cls):
    model = ctx.model
    name = cls.name
    f = cls.methods.get("f")
    if f is None:
        raise AnalysisError("%s has no f" % name)
    qual = "%s.f" % name
    ctx.fn(qual)
    ctx.fn("%s.__init__" % name)
    P = {}
    try:
        attrs, atoms0 = analyse_init(ctx, cls, P)
    except Untranslatable as ex:
        ctx.violation("R17-PURE", cls.file, "%s.__init__" % name, "__init__", "cannot interpret the constructor: %s" % ex)
        return
    if "fmax" not in attrs:
        ctx.violation("R17-BOUND", cls.file, "%s.__init__" % name, "self.fmax", "the constructor does not assign self.fmax")
        return
    fmax = attrs["fmax"]
    d_guard = check_dim(ctx, cls, f)
    dom = doc_domain(cls) or DOMAIN_FALLBACK.get(name)
    if dom is None:
        # "the normalized / perturbed version of X": the domain documented for X
        base = name.replace("_Normalized", "").replace("Perturbed_", "")
        if base != name and base in model.classes:
            dom = doc_domain(model.classes[base]) or DOMAIN_FALLBACK.get(base)
    if dom is None:
        raise AnalysisError("cannot find the documented domain of %s" % name)
    lo, hi, p = dom
    lo_s, hi_s = sp.sympify(lo), sp.sympify(hi)
    if name in ANY_DIM:
        dims = [1, 2, 3, 4]
    elif d_guard is not None:
        dims = [d_guard]
    else:
        dims = [int(p) if p and p.isdigit() else 1]
    if p and p.isdigit() and d_guard is not None:
        ctx.ob("R17-DIM", int(p) == d_guard, cls.file, qual, "guard dimension equals documented dimension",
               "documented ^%s, guard %s" % (p, d_guard), f.lineno)
    ranges = PARAM_RANGES.get(name, {})
    # f is the function the class body defines: a decorator replaces it by something else (a cache that makes the value depend on
    # earlier calls, a wrapper that post-processes it), and nothing proved about the body would describe what callers get
    decos = [norm_src(dc) for dc in f.decorator_list]
    ctx.ob("R17-PURE", not decos, cls.file, qual, "f is called as written (no decorator)",
           "no decorator" if not decos else "f is wrapped by %s: callers get the wrapper's value, which the analysis of the body does not "
           "describe (a memo keyed on a rounded point, for instance, makes f depend on the evaluation history)" % decos, f.lineno, nontrivial=False)
    for d in dims:
        xs = [sp.Symbol("x%d" % k, real=True) for k in range(d)]
        atoms = []
        fe = IV.FEval(model, cls.file, attrs, d, atoms)
        fe.cls_node = cls.node

        def delegate(cname, _ctx=ctx):
            ci = model.classes[cname]
            ca, _ = analyse_init(_ctx, ci, {})
            return ci, ca
        fe.delegate = delegate
        xname = f.args.args[1].arg
        try:
            paths = fe.run_body(strip_doc(f.body), {xname: list(xs)})
        except Untranslatable as ex:
            if fe.rng or "random draw" in str(ex):
                ctx.violation("R17-PURE", cls.file, qual, "f body", "f is not a pure function of x: %s" % ex, f.lineno)
            elif "does not assign" in str(ex):
                ctx.violation("R17-PURE", cls.file, qual, "f body", str(ex), f.lineno)
            else:
                ctx.violation("R17-BOUND", cls.file, qual, "f body",
                              "f(x) <= fmax cannot be established: the body of f uses a construct the interval interpreter does not "
                              "cover (%s) - obligation not discharged" % ex, f.lineno)
            return
        ctx.ob("R17-PURE", not fe.writes and not fe.rng, cls.file, qual, "f writes no state and draws no random number (d=%d)" % d,
               "stores/effects in f: %s" % (fe.writes + fe.rng) if (fe.writes or fe.rng) else "no store, no RNG call, reads only x and "
               "attributes assigned by __init__", f.lineno)
        box = {}
        for x in xs:
            box[x] = iv.mpf([IV.ieval(lo_s, {}).a, IV.ieval(hi_s, {}).b])
        for pn, psym in P.items():
            if pn in ranges:
                box[psym] = iv.mpf([ranges[pn][0], ranges[pn][1]])
            else:
                # constructor parameter outside the property's quantifier: use its default
                init = cls.methods.get("__init__")
                dflt = None
                if init is not None:
                    names = [a.arg for a in init.args.args]
                    defs = init.args.defaults
                    for nme, dv in zip(names[len(names) - len(defs):], defs):
                        if nme == pn and isinstance(dv, ast.Constant):
                            dflt = dv.value
                if dflt is None:
                    raise AnalysisError("%s: no range for constructor parameter %s" % (name, pn))
                box[psym] = iv.mpf(str(dflt))
        for (s, a, b, desc) in atoms:
            box[s] = iv.mpf([float(a), float(b)])
        perturb = sp.Symbol("perturb", real=True)
        # f is defined on the whole (closed) documented domain: a path that raises must be infeasible inside the box.  Its
        # condition is evaluated exactly at the corners, edge midpoints and centre of the box - one satisfying point is a witness
        for pth in [pp for pp in paths if pp.expr is None]:
            pts = sample_points(xs, lo_s, hi_s)
            wit = None
            undecided = False
            for pt in pts:
                vals = []
                for cnd, pol in pth.conds:
                    if isinstance(cnd, bool):
                        vals.append(cnd == pol)
                        continue
                    try:
                        v = cnd.subs(pt)
                        v = bool(v) if v in (sp.true, sp.false) else None
                    except Exception:
                        v = None
                    vals.append(None if v is None else (v == pol))
                if all(v is True for v in vals):
                    wit = pt
                    break
                if any(v is None for v in vals) and not any(v is False for v in vals):
                    undecided = True
            ctx.ob("R17-FINITE", wit is None and not undecided, cls.file, qual, "f is defined on the whole documented domain (d=%d): %s" % (d, pth.raises),
                   "the raising path is infeasible at every corner / edge midpoint / centre of the box" if wit is None and not undecided else
                   ("f raises %s at the domain point %s" % (pth.raises, {str(k): str(v) for k, v in wit.items()}) if wit is not None else
                    "whether the raising path can be taken inside the domain cannot be decided (condition not evaluable)"), f.lineno)
        rets = [pth for pth in paths if pth.expr is not None]
        ctx.ob("R17-BOUND", bool(rets), cls.file, qual, "f has a returning path (d=%d)" % d, "%d path(s)" % len(paths), f.lineno,
               nontrivial=False)
        for k, pth in enumerate(rets):
            if pth.expr == sp.Symbol("None"):
                ctx.violation("R17-BOUND", cls.file, qual, "path %d returns nothing" % k, "f can fall off its end (returns None)", f.lineno)
                continue
            g = sp.expand(pth.expr - fmax) if perturb in (pth.expr - fmax).free_symbols else (pth.expr - fmax)
            if perturb in g.free_symbols:
                ctx.violation("R17-BOUND", cls.file, qual, "f - fmax on path %d" % k,
                              "f(x) - fmax still depends on the random offset: %s" % g, f.lineno)
                continue
            label = "f - fmax <= %g on the whole domain, path %d/%d, d=%d" % (TOL, k + 1, len(rets), d)
            try:
                # a path taken only when some expression equals zero is evaluated as such (point condition)
                ok, cells, worst, wbox, nonfinite = IV.prove_le(g, box, xs, TOL,
                                                                max_cells=(400000 if ctx.tier == "thorough" else 60000))
            except AnalysisError as ex:
                ctx.violation("R17-BOUND", cls.file, qual, label, "cannot enclose f - fmax: %s" % ex, f.lineno)
                continue
            detail = "%d cells, sup enclosure %s" % (cells, worst)
            if not ok:
                wit = witness(g, wbox, xs, box)
                detail = ("upper bound %s > %g on cell %s after %d cells%s" % (
                    worst, TOL, {str(x): str(wbox[x]) for x in xs}, cells,
                    "; e.g. at %s f - fmax >= %s" % wit if wit else "; no sound bound found (obligation not discharged)"))
            ctx.ob("R17-BOUND", ok, cls.file, qual, label, detail, f.lineno)
            try:
                root = IV.ieval(g, box)
                fin = root.a > -iv.inf and root.b < iv.inf and root.a == root.a
                vb = IV.vertex_bound(g, box, None)
                fin = fin or (vb is not None and vb < iv.inf and finite_atoms(g, box))
            except AnalysisError as ex:
                fin = False
                root = ex
            ctx.ob("R17-FINITE", fin, cls.file, qual, "f is finite on the whole domain, path %d/%d, d=%d" % (k + 1, len(rets), d),
                   "enclosure of f - fmax over the domain: %s" % (root,), f.lineno)
        # ATTAIN
        mk, tol = MAXIMISER.get(name, (None, TOL))
        if mk is None:
            raise AnalysisError("no documented maximiser for %s" % name)
        pt = mk(P)
        if pt is None:
            pt = [0] * d
        if len(pt) != d:
            continue
        sub = {x: sp.sympify(v) for x, v in zip(xs, pt)}
        best = None
        for k, pth in enumerate(rets):
            feas = True
            for c, pol in pth.conds:
                try:
                    cv = c.subs(sub) if hasattr(c, "subs") else c
                    cv = safe_simplify(cv)
                except Exception:
                    cv = None
                if cv is sp.true or cv is sp.false:
                    if bool(cv) != pol:
                        feas = False
            if not feas:
                continue
            try:
                gv = safe_simplify((pth.expr - fmax).subs(sub))
                b2 = {s: v for s, v in box.items() if s not in xs}
                encl = IV.ieval(gv, b2)
                gap = max(abs(encl.a), abs(encl.b))
            except Exception as ex:
                continue
            if best is None or gap < best[0]:
                best = (gap, k, encl)
        ok = best is not None and best[0] <= tol
        ctx.ob("R17-ATTAIN", ok, cls.file, qual, "fmax attained at the documented maximiser %s (d=%d, tolerance %g)" % (
            [str(v) for v in pt], d, tol),
            "f - fmax at the maximiser in %s" % (best[2],) if best else "no feasible path at the maximiser", f.lineno)


def sample_points(xs, lo, hi):
    """corners, edge midpoints and centre of the box [lo, hi]^d as substitution dicts (exact values)"""
    import itertools
    mid = (lo + hi) / 2
    out = []
    for combo in itertools.product((lo, mid, hi), repeat=len(xs)):
        out.append(dict(zip(xs, combo)))
    return out[:243]


def finite_atoms(g, box):
    try:
        table = {}
        IV.atomise(g, table)
        for sub in table:
            r = IV.ieval(sub, box)
            if not (r.a > -iv.inf and r.b < iv.inf):
                return False
        return True
    except AnalysisError:
        return False


def witness(g, wbox, xs, box):
    """A point of the offending cell where the enclosure of f - fmax is certainly positive (for the report)."""
    try:
        b = dict(box)
        pt = {}
        for x in xs:
            m = (iv.mpf(wbox[x].a) + iv.mpf(wbox[x].b)) / 2
            b[x] = iv.mpf(m.a)
            pt[str(x)] = float(m.a)
        for s in list(b):
            if s not in xs:
                m = (iv.mpf(wbox[s].a) + iv.mpf(wbox[s].b)) / 2 if s in wbox else b[s]
                b[s] = iv.mpf(m.a) if hasattr(m, "a") else m
        v = IV.ieval(g, b)
        if v.a > TOL:
            return pt, float(v.a)
    except Exception:
        pass
    return None


def run(ctx):
    model = ctx.model
    classes = [c for c in model.subclasses("Objective")]
    ctx.count("R17 objective classes", len(classes), MIN_CLASSES)
    for c in sorted(classes, key=lambda c: c.name):
        check_class(ctx, c)
    return dict(
        explanation=(
            "For each of the %d objective classes the body of f is turned into straight-line paths over symbolic inputs (ifs split, "
            "module helpers inlined, Rastrigin's loop unrolled for d=1..4, constructor-assigned attributes substituted, the random "
            "offset of the perturbed variants kept symbolic so that it must cancel in f - fmax). BOUND: f - fmax <= 1e-9 on the whole "
            "documented domain (parsed from the class docstring) and, for DoubleSine, the whole parameter box rho1,rho2 in [0.05,1], "
            "tmax in [0,1], by outward-rounded interval evaluation (mpmath.iv) with branch-and-bound, combined with vertex enumeration "
            "of the multilinear form in the expression's non-polynomial atoms (exact for such forms; this is what removes the "
            "dependency problem where f touches fmax). FINITE: the enclosure is finite. ATTAIN: at the documented maximiser the "
            "feasible path gives |f - fmax| <= 1e-9 (Garland 0.003). PURE: f stores nothing, draws nothing, reads only x and "
            "constructor-assigned attributes. DIM: the ValueError guard on len(x) comes first and matches the indices used." % len(classes)),
        assumptions=[
            "mpmath.iv encloses the elementary functions; numpy/math evaluate them to within the 1e-9 slack",
            "path conditions are dropped (each path is bounded on the whole domain), which only enlarges the input set",
            "parameter ranges are those of the property statement",
        ],
        technique="abstract interpretation of f over intervals (mpmath.iv) + multilinear vertex bound + purity/guard scans",
    )
