"""C07 - simple-regret algorithms recommend their best evaluated candidate."""
import ast

import sympy as sp

from .. import cfg as C
from .. import credit as CR
from .. import idioms as ID
from .. import summary as SM
from .. import symx as SX
from ..model import calls_in, get_arg, is_self_attr, method_name, strip_doc
from ..report import AnalysisError, Ctx, norm_src

SENTINELS = ("-np.inf", "-math.inf", "float('-inf')", "-float('inf')")
# what each recommendation maximises (cell attribute behind the key getter) and over which set
SPEC = {
    "DOO": dict(key="reward", set="all-cells"),
    "SOO": dict(key="reward", set="all-cells"),
    "SequOOL": dict(key="rewards[0]", set="self.chosen"),
    "StoSOO": dict(key="mean_reward", set="deepest-layer"),
    "StroquOOL": dict(key="mean_reward", set="self.candidate"),
}


def getter_attr(model, ncls, call):
    """Attribute (source) returned by a one-line getter of the cell class, e.g. get_reward -> 'reward'."""
    if not (isinstance(call, ast.Call) and isinstance(call.func, ast.Attribute)):
        return None
    o, fn = model.lookup(ncls, call.func.attr)
    if fn is None:
        return None
    body = strip_doc(fn.body)
    if len(body) == 1 and isinstance(body[0], ast.Return) and body[0].value is not None:
        s = norm_src(body[0].value)
        return s[5:] if s.startswith("self.") else s
    return None


def all_cells_loop(fn, fold):
    """The fold's loop nest enumerates every cell of every layer of the node list."""
    outer = fold.loop
    inner = fold.inner
    nl_names = {"self.partition.get_node_list()", "self.partition.node_list"}
    for s in ast.walk(fn):
        if isinstance(s, ast.Assign) and norm_src(s.value) in ("self.partition.get_node_list()", "self.partition.node_list") and \
                isinstance(s.targets[0], ast.Name):
            nl_names.add(s.targets[0].id)
    if outer is inner:
        # one flat loop over every cell: itertools.chain.from_iterable(NL) / chain(*NL), directly or through a local bound once
        it = inner.iter
        if isinstance(it, ast.Name):
            ds = [s for s in ast.walk(fn) if isinstance(s, ast.Assign) and len(s.targets) == 1 and isinstance(s.targets[0], ast.Name) and s.targets[0].id == it.id]
            stores = [n for n in ast.walk(fn) if isinstance(n, ast.Name) and n.id == it.id and isinstance(n.ctx, ast.Store)]
            if len(ds) == 1 and len(stores) == 1:
                it = ds[0].value
        if isinstance(it, ast.Call) and norm_src(it.func) in ("itertools.chain.from_iterable", "chain.from_iterable") and len(it.args) == 1 and \
                norm_src(it.args[0]) in nl_names:
            return True, "for cell in chain.from_iterable(node_list)"
        if isinstance(it, (ast.ListComp, ast.GeneratorExp)) and len(it.generators) == 2 and not it.generators[0].ifs and not it.generators[1].ifs and \
                isinstance(it.generators[0].target, ast.Name) and isinstance(it.generators[1].target, ast.Name) and \
                norm_src(it.generators[0].iter) in nl_names and norm_src(it.generators[1].iter) == it.generators[0].target.id and \
                norm_src(it.elt) == it.generators[1].target.id:
            return True, "for cell in [cell for layer in node_list for cell in layer]"
        if isinstance(it, ast.Call) and norm_src(it.func) in ("itertools.chain", "chain") and len(it.args) == 1 and isinstance(it.args[0], ast.Starred) and \
                norm_src(it.args[0].value) in nl_names:
            return True, "for cell in chain(*node_list)"
        return False, "a single loop over '%s'" % norm_src(inner.iter)
    def unordered(e):
        # the candidate SET does not depend on the order of enumeration: reversed(X), list(X), tuple(X), X[::-1] enumerate X
        while True:
            if isinstance(e, ast.Call) and isinstance(e.func, ast.Name) and e.func.id in ("reversed", "list", "tuple") and len(e.args) == 1 and not e.keywords:
                e = e.args[0]
            elif isinstance(e, ast.Subscript) and isinstance(e.slice, ast.Slice) and e.slice.lower is None and e.slice.upper is None and \
                    (e.slice.step is None or norm_src(e.slice.step) == "-1"):
                e = e.value
            else:
                return e
    o_it, i_it = norm_src(unordered(outer.iter)), norm_src(unordered(inner.iter))
    if o_it in nl_names and isinstance(outer.target, ast.Name) and i_it == outer.target.id:
        return True, "for layer in node_list: for cell in layer"
    for nl in nl_names:
        if o_it == "range(len(%s))" % nl and isinstance(outer.target, ast.Name) and i_it == "%s[%s]" % (nl, outer.target.id):
            return True, "for h in range(len(node_list)): for cell in node_list[h]"
        if o_it == "range(self.partition.get_depth() + 1)" and isinstance(outer.target, ast.Name) and i_it == "%s[%s]" % (nl, outer.target.id):
            return True, "for h in range(depth+1): for cell in node_list[h]"
    return False, "loops '%s' / '%s' do not enumerate every layer of the node list" % (o_it, i_it)


def check_fold(ctx, cls, fn, spec):
    model = ctx.model
    qual = "%s.%s" % (cls.name, fn.name)
    ctx.fn(qual)
    ncls = model.node_class_of_algo(cls.name)
    folds = ID.find_folds(fn)
    rets = [r for r in ast.walk(fn) if isinstance(r, ast.Return) and r.value is not None]
    if len(folds) == 1 and len(rets) > 1:
        # `return None` under the guard 'no winner' is the empty-candidate case spelled out, not a second recommendation
        g0 = C.CFG(fn)
        keep = []
        for r in rets:
            if isinstance(r.value, ast.Constant) and r.value.value is None and \
                    any(a == ("is", folds[0].best, "None") for a, t, lab, e in C.facts_at(g0, g0.node_of(r))):
                continue
            keep.append(r)
        rets = keep
    if len(folds) != 1 or len(rets) != 1:
        ctx.violation("R07-ARGMAX", cls.file, qual, "recommendation", "expected one arg-max fold and one return, found %d fold(s), %d return(s): %s"
                      % (len(folds), len(rets), [f.describe() for f in folds]), fn.lineno)
        return None
    f = folds[0]
    # key
    key_attr = None
    k = f.key
    if isinstance(k, ast.Call):
        key_attr = getter_attr(model, ncls, k) if norm_src(k.func.value) == f.cand else None
    elif isinstance(k, ast.Attribute) and norm_src(k.value) == f.cand:
        key_attr = k.attr
    ok = (f.direction == "max" and key_attr == spec["key"] and not f.also and f.seed in SENTINELS)
    ctx.ob("R07-ARGMAX", ok, cls.file, qual, "arg-max of the recorded %s" % spec["key"],
           f.describe() if ok else "found: %s (key attribute %s; extra: %s); expected: maximise %s, seed -inf" % (f.describe(), key_attr, f.also, spec["key"]),
           f.if_node.lineno)
    # the incumbent variables are not touched elsewhere
    for var in (f.value_var, f.best):
        extra = [s for s in ID.assignments_outside(fn, var, f) if not (norm_src(s.value) in SENTINELS + ("None",))]
        ctx.ob("R07-ARGMAX", not extra, cls.file, qual, "incumbent '%s' only set by the fold" % var,
               "other assignments: %s" % [norm_src(s) for s in extra] if extra else "seed + fold update only", fn.lineno, nontrivial=False)
    # candidate set
    if spec["set"] == "all-cells":
        okc, how = all_cells_loop(fn, f)
        okc = okc and not f.filters
        ctx.ob("R07-ARGMAX", okc, cls.file, qual, "candidate set: every cell of the tree", how + ("; filters %s" % f.filters if f.filters else ""),
               f.loop.lineno)
    elif spec["set"] == "deepest-layer":
        it = norm_src(f.inner.iter)
        okc = not f.filters and f.loop is f.inner
        depth_vars = {"self.partition.get_depth()"}
        for s in ast.walk(fn):
            if isinstance(s, ast.Assign) and norm_src(s.value) == "self.partition.get_depth()" and isinstance(s.targets[0], ast.Name):
                depth_vars.add(s.targets[0].id)
        okc = okc and any(it in ("self.partition.get_node_list()[%s]" % d, "self.partition.get_layer_node_list(%s)" % d,
                                  "self.partition.get_layer_node_list(depth=%s)" % d) for d in depth_vars)
        ctx.ob("R07-ARGMAX", okc, cls.file, qual, "candidate set: the deepest layer", "iterates %s" % it, f.loop.lineno)
    else:
        okc = norm_src(f.inner.iter) == spec["set"] and f.loop is f.inner and not f.filters
        ctx.ob("R07-ARGMAX", okc, cls.file, qual, "candidate set: %s" % spec["set"],
               "iterates %s%s" % (norm_src(f.inner.iter), "; filters %s" % f.filters if f.filters else ""), f.loop.lineno)
    # what is returned is the winner's representative
    r = rets[0]
    bv = norm_src(f.best_value)
    rv = r.value
    if isinstance(rv, ast.IfExp):
        # `None if best is None else best.get_cpoint()` (either orientation): the empty-candidate case spelled out
        t = norm_src(rv.test)
        if t == "%s is None" % f.best and norm_src(rv.body) == "None":
            rv = rv.orelse
        elif t == "%s is not None" % f.best and norm_src(rv.orelse) == "None":
            rv = rv.body
    okr = (norm_src(rv) in ("%s.get_cpoint()" % f.winner, "%s.get_cpoint()" % f.best) and bv in (f.cand, f.elem)) or \
        (norm_src(rv) == f.best and bv in ("%s.get_cpoint()" % f.cand, "%s.get_cpoint()" % f.elem))
    ctx.ob("R07-ARGMAX", okr, cls.file, qual, norm_src(r), "returns the representative of the winner" if okr else
           "the returned value is not the winner's representative (winner stored as %s = %s)" % (f.best, bv), r.lineno)
    return f


def check_eval(ctx, cls, fold):
    """R07-EVAL: a never-evaluated cell cannot win."""
    model = ctx.model
    ncls = model.node_class_of_algo(cls.name)
    nc = model.cls(ncls)
    init = model.own_method(ncls, "__init__")
    if cls.name in ("DOO", "SOO"):
        st = [s for s in init.body if isinstance(s, ast.Assign) and is_self_attr(s.targets[0], "reward")]
        sentinel = len(st) == 1 and norm_src(st[0].value) in SENTINELS
        filt = fold is not None and any(c in ("%s.visited" % fold.cand,) and pol for c, pol in fold.filters)
        ctx.ob("R07-EVAL", sentinel or filt, nc.file, "%s.__init__" % ncls, "an unevaluated cell cannot win the arg-max",
               "reward starts at -inf" if sentinel else ("fold filters on the evaluated flag" if filt else
               "reward starts at %s and the fold does not filter on 'visited': with all rewards below it a never-evaluated cell is recommended"
               % [norm_src(s.value) for s in st]), init.lineno)
    if cls.name == "StoSOO":
        st = [s for s in init.body if isinstance(s, ast.Assign) and is_self_attr(s.targets[0], "mean_reward")]
        ok = len(st) == 1 and norm_src(st[0].value) == "0"
        ctx.ob("R07-EVAL", ok, nc.file, "%s.__init__" % ncls, "recorded mean is 0 while unevaluated", "mean_reward = %s" % [norm_src(s.value) for s in st],
               init.lineno)
    if cls.name == "SequOOL":
        # every element of `chosen` has a reward by the time of the query
        n = 0
        for fn in cls.methods.values():
            for call in ast.walk(fn):
                if isinstance(call, ast.Call) and norm_src(call.func) == "self.chosen.append":
                    n += 1
                    ok, why = chosen_append_ok(model, cls, fn, call)
                    ctx.ob("R07-EVAL", ok, cls.file, "%s.%s" % (cls.name, fn.name), norm_src(call), why, call.lineno)
                elif isinstance(call, ast.Call) and isinstance(call.func, ast.Attribute) and is_self_attr(call.func.value, "chosen") and \
                        call.func.attr in ("extend", "insert", "pop", "remove", "clear", "sort", "reverse"):
                    n += 1
                    ctx.violation("R07-EVAL", cls.file, "%s.%s" % (cls.name, fn.name), norm_src(call),
                                  "the searched points are changed by %s(): cells enter the list without being handed out for evaluation "
                                  "one by one (get_last_point reads the first reward of every listed cell)" % call.func.attr, call.lineno)
            for s in ast.walk(fn):
                if isinstance(s, (ast.Assign, ast.AugAssign)) and fn.name != "__init__":
                    tg = s.targets if isinstance(s, ast.Assign) else [s.target]
                    if any(is_self_attr(t, "chosen") for t in tg):
                        ctx.violation("R07-EVAL", cls.file, "%s.%s" % (cls.name, fn.name), norm_src(s), "the list of search points is replaced", s.lineno)
        ctx.count("R07-EVAL SequOOL chosen.append sites", n, 1)
    if cls.name == "StroquOOL":
        from ..routes import canon_cond
        fn = model.own_method(ncls, "compute_mean_reward")
        Sm = SM.Summarizer(model, ncls)
        ps = Sm.run(fn)
        T = Sm.T
        good = len(ps) == 2
        for p in ps:
            if canon_cond("self.visited_times > 0", True) in {canon_cond(c0, pol0) for c0, pol0 in p.conds}:
                m = p.stores.get("mean_reward")
                eq = m is not None and SX.equivalent(m, SX.SUM(T.sym("rewards")) / SX.LEN(T.sym("rewards")))[0] is True
                good = good and eq
                ctx.ob("R07-EVAL", eq, nc.file, "%s.compute_mean_reward" % ncls, "validation mean = sum(rewards)/len(rewards)",
                       "== SUM(rewards)/LEN(rewards)" if eq else "is %s: after the reward list restarts for validation the mean must divide by the "
                       "number of validation rewards" % m, fn.lineno)
            elif p.stores:
                good = False
        ctx.ob("R07-EVAL", good, nc.file, "%s.compute_mean_reward" % ncls, "mean defined only once evaluated", "paths %s" % [p.conds for p in ps], fn.lineno,
               nontrivial=False)
        # get_last_point recomputes each candidate's mean before comparing
        glp = model.own_method("StroquOOL", "get_last_point")
        calls = calls_in(glp, "compute_mean_reward")
        okc = False
        if fold is not None and len(calls) == 1:
            st = model.enclosing_stmt(calls[0])
            okc = st in fold.inner.body and fold.inner.body.index(st) < fold.inner.body.index(
                [s for s in fold.inner.body if fold.if_node in list(ast.walk(s))][0]) and norm_src(calls[0].func.value) == fold.cand
            if not okc:
                # or in a loop of its own over the same collection, run completely and unconditionally before the comparison loop
                par_ = model.up(st)
                blk_ = [b for b in (getattr(model.up(fold.loop), "body", []), getattr(model.up(fold.loop), "orelse", [])) if fold.loop in b]
                if isinstance(par_, ast.For) and par_.body == [st] and not par_.orelse and isinstance(par_.target, ast.Name) and \
                        norm_src(calls[0].func.value) == par_.target.id and norm_src(par_.iter) == norm_src(fold.inner.iter) and blk_ and par_ in blk_[0] and \
                        blk_[0].index(par_) < blk_[0].index(fold.loop) and \
                        all(isinstance(b, ast.Assign) and all(isinstance(t, ast.Name) for t in b.targets)
                            for b in blk_[0][blk_[0].index(par_) + 1:blk_[0].index(fold.loop)]):
                    okc = True
        ctx.ob("R07-EVAL", okc, cls.file, "StroquOOL.get_last_point", "each candidate's mean is refreshed before it is compared", "%s" % [norm_src(c) for c in calls],
               glp.lineno)
        # the validated candidates are the searched cells themselves (one pooled object per cell, however many precisions selected
        # it): what enters self.candidate is the winner of the scan over self.chosen, not a copy or anything derived from it
        pull = model.own_method("StroquOOL", "pull")
        apps = [x for x in ast.walk(pull) if isinstance(x, ast.Call) and norm_src(x.func) in ("self.candidate.append",) and len(x.args) == 1]
        folds_p = [f2 for f2 in ID.find_folds(pull) if f2.set_src in ("self.chosen",) or "self.chosen" in (f2.set_src or "")]
        okp = bool(apps) and len(folds_p) == 1
        whyp = "%d append site(s), %d scan(s) over self.chosen" % (len(apps), len(folds_p))
        if okp:
            f2 = folds_p[0]
            def through_copies(e, depth=0):
                # a name bound once to another name denotes the same object
                while isinstance(e, ast.Name) and depth < 5:
                    ds = [s2 for s2 in ast.walk(pull) if isinstance(s2, ast.Assign) and len(s2.targets) == 1 and isinstance(s2.targets[0], ast.Name) and
                          s2.targets[0].id == e.id]
                    if norm_src(e) == f2.best or len(ds) != 1 or not isinstance(ds[0].value, ast.Name):
                        break
                    e = ds[0].value
                    depth += 1
                return norm_src(e)
            for x in apps:
                if through_copies(x.args[0]) != f2.best:
                    okp = False
                    whyp = "self.candidate receives '%s', not the winner '%s' of the scan over the searched cells" % (norm_src(x.args[0]), f2.best)
            extra = [s2 for s2 in ID.assignments_outside(pull, f2.best, f2) if norm_src(s2.value) not in ("None",)]
            if extra:
                okp = False
                whyp = "the winner '%s' is replaced before it is stored: %s" % (f2.best, norm_src(extra[0]))
        ctx.ob("R07-EVAL", okp, cls.file, "StroquOOL.pull", "validated candidates are the searched cells themselves", whyp, pull.lineno)


def chosen_append_ok(model, cls, fn, call):
    """The appended cell is evaluated by the time get_last_point can read it: appended on a hand-out path of pull
    (same block stores it as the cell to credit and returns its representative) or, in receive_reward, it is the
    cell being credited."""
    arg = norm_src(call.args[0]) if call.args else None
    st = model.enclosing_stmt(call)
    blk = None
    par = model.up(st)
    for f in ("body", "orelse"):
        b = getattr(par, f, None)
        if isinstance(b, list) and st in b:
            blk = b
    if blk is None:
        return False, "append outside a statement block"
    if fn.name == "pull":
        stored = any(isinstance(s, ast.Assign) and any(is_self_attr(t, "curr_node") for t in s.targets) and norm_src(s.value) == arg for s in blk)
        returned = any(isinstance(s, ast.Return) and s.value is not None and norm_src(s.value) == "%s.get_cpoint()" % arg for s in blk)
        if stored and returned:
            return True, "appended on a hand-out path: the same block stores it as the cell to credit and returns its representative"
        return False, ("'%s' is added to the search points without being handed out in the same step (stored as curr_node: %s, returned: %s): "
                       "get_last_point would read a reward that may not exist" % (arg, stored, returned))
    if fn.name == "receive_reward":
        credited = any(isinstance(s, ast.Expr) and isinstance(s.value, ast.Call) and method_name(s.value) == "update_reward"
                       and norm_src(s.value.func.value) == arg for s in blk)
        return (credited, "appended together with its reward" if credited else "appended in receive_reward without being credited there")
    return False, "search points are extended in %s" % fn.name


def check_wrappers(ctx):
    model = ctx.model
    # POO
    c = model.cls("POO")
    fn = model.own_method("POO", "get_last_point")
    ctx.fn("POO.get_last_point")
    ok, why = argmax_index_use(fn, "self.V_reward", "self.V_algo", "pull")
    ctx.ob("R07-ARGMAX", ok, c.file, "POO.get_last_point", "proposal of a learner with the highest score", why, fn.lineno)
    # GPO
    c = model.cls("GPO")
    fn = model.own_method("GPO", "get_last_point")
    ctx.fn("GPO.get_last_point")
    ok, why = argmax_index_use(fn, "self.V_reward", "self.V_x", None)
    ctx.ob("R07-ARGMAX", ok, c.file, "GPO.get_last_point", "validated point with the highest score", why, fn.lineno)
    # GPO finished state: goodx = V_x[argmax V_reward], set when the last phase ends; pull returns it when finished
    rr = model.own_method("GPO", "receive_reward")
    ctx.fn("GPO.receive_reward")
    st = [s for s in ast.walk(rr) if isinstance(s, ast.Assign) and any(is_self_attr(t, "goodx") for t in s.targets)]
    okg = False
    why = "goodx is not set in receive_reward"
    if len(st) == 1:
        okg, why = argmax_expr(rr, st[0].value, "self.V_reward", "self.V_x")
        g = model.up(st[0])
        okg = okg and isinstance(g, ast.If) and norm_src(g.test) == "self.phase > self.N"
        if not okg:
            why += "; not guarded by phase > N"
    ctx.ob("R07-ARGMAX", okg, c.file, "GPO.receive_reward", "final recommendation fixed when all phases are over", why, rr.lineno)
    pull = model.own_method("GPO", "pull")
    # on every path of pull entered in the finished state (phase > N) the stored recommendation is returned and nothing else
    # happens (no learner is asked, nothing is stored); read on the paths, so the shape of the code is irrelevant
    from .. import credit as CR
    from .. import routes as RT
    pf, pparams, ppaths, pfns = CR.method_paths(model, "GPO", "pull", entry=True)
    fin = [p for p in ppaths if RT.entry_state(p).get("self.N < self.phase") is True]
    undecided = [p for p in ppaths if "self.N < self.phase" not in RT.entry_state(p)]
    bad = [p for p in fin if [(e[0], e[1]) for e in p.events] != [("ret", "self.goodx")] or p.writes]
    okp = bool(fin) and not bad and not undecided
    ctx.ob("R07-ARGMAX", okp, c.file, "GPO.pull", "once finished, pull returns the recommendation",
           "%d finished-state path(s): each returns self.goodx, asks no learner, stores nothing" % len(fin) if okp else
           ("no path of pull is guarded by phase > N" if not fin else
            ("%d path(s) do not consult the finished test" % len(undecided) if undecided else
             "in the finished state pull does %s and stores %s" % ([(e[0], e[1]) for e in bad[0].events], [w[0] for w in bad[0].writes]))), pull.lineno)
    # PCT / VPCT: pure delegation to a GPO built with the caller's arguments.  The constructor chain is followed through
    # super().__init__ calls (arguments bound, defaults filled in) and own one-line methods are resolved on the instance's
    # class, so a wrapper may inherit the forwards and the construction from another wrapper.
    for w, base in (("PCT", "HCT"), ("VPCT", "VHCT")):
        c = model.cls(w)
        init = model.lookup(w, "__init__")[1]
        ctx.fn("%s.__init__" % w)
        params = [a.arg for a in init.args.args][1:]
        got, why = gpo_construction(model, w, w, {p: "param:" + p for p in params}, 0)
        want = dict([(p, "param:" + p) for p in params] + [("algo", base)])
        ok = got == want
        ctx.ob("R07-DELEG", ok, c.file, "%s.__init__" % w, "self.algorithm = GPO(<caller's arguments>, algo=%s)" % base,
               "constructed with the caller's own arguments" if ok else "GPO is built with %s (%s); expected %s" % (got, why, want), init.lineno)
        for m, exp in (("pull", "return self.algorithm.pull(%s)"), ("receive_reward", "self.algorithm.receive_reward(%s)"),
                       ("get_last_point", "return self.algorithm.get_last_point(%s)")):
            owner, fn = model.lookup(w, m)
            if fn is None or owner.name == "Algorithm":
                ctx.violation("R07-DELEG", c.file, "%s.%s" % (w, m), m, "the wrapper does not define (or inherit from another wrapper) this protocol method")
                continue
            ctx.fn("%s.%s" % (owner.name, m))
            body = strip_doc(fn.body)
            args = ", ".join(a.arg for a in fn.args.args[1:])
            ok = len(body) == 1 and norm_src(body[0]) == exp % args
            ctx.ob("R07-DELEG", ok, c.file, "%s.%s" % (w, m), exp % args, "pure forward" if ok else "body is %s" % [norm_src(s) for s in body], fn.lineno)


def gpo_construction(model, cls, inst_cls, env, depth):
    """Arguments of the GPO(...) stored in self.algorithm when `inst_cls` is constructed, following super().__init__ chains:
    returns ({keyword: 'param:<name of a parameter of inst_cls.__init__>' | source}, explanation)."""
    if depth > 3:
        return None, "constructor chain too deep"
    owner, init = model.lookup(cls, "__init__")
    if init is None:
        return None, "no constructor"

    def value(e):
        if isinstance(e, ast.Name):
            return env.get(e.id, e.id)
        if isinstance(e, ast.Call) and isinstance(e.func, ast.Attribute) and isinstance(e.func.value, ast.Name) and e.func.value.id == "self" \
                and not e.args and not e.keywords:
            o2, m2 = model.lookup(inst_cls, e.func.attr)          # dynamic dispatch on the instance's class
            if m2 is not None:
                b = strip_doc(m2.body)
                if len(b) == 1 and isinstance(b[0], ast.Return) and b[0].value is not None:
                    return norm_src(b[0].value)
        return norm_src(e)
    for s in ast.walk(init):
        if isinstance(s, ast.Assign) and any(is_self_attr(t, "algorithm") for t in s.targets) and isinstance(s.value, ast.Call) and \
                isinstance(s.value.func, ast.Name) and s.value.func.id == "GPO":
            call = s.value
            if call.args or any(k.arg is None for k in call.keywords):
                return None, "GPO built with positional / ** arguments"
            return {k.arg: value(k.value) for k in call.keywords}, "in %s.__init__" % owner.name
    for s in ast.walk(init):
        if isinstance(s, ast.Call) and isinstance(s.func, ast.Attribute) and s.func.attr == "__init__" and isinstance(s.func.value, ast.Call) \
                and isinstance(s.func.value.func, ast.Name) and s.func.value.func.id == "super":
            mro = [c2.name for c2 in model.mro(owner.name)]
            nxt = mro[mro.index(owner.name) + 1] if owner.name in mro and mro.index(owner.name) + 1 < len(mro) else None
            if nxt is None or nxt == "Algorithm":
                continue
            o3, init3 = model.lookup(nxt, "__init__")
            if init3 is None:
                continue
            ps = [a.arg for a in init3.args.args][1:]
            defaults = init3.args.defaults
            env2 = {}
            for pn, a in zip(ps, s.args):
                env2[pn] = value(a)
            for k in s.keywords:
                if k.arg in ps:
                    env2[k.arg] = value(k.value)
            for pn, d in zip(ps[len(ps) - len(defaults):], defaults):
                env2.setdefault(pn, "default:" + norm_src(d))
            if set(env2) != set(ps):
                return None, "super().__init__ call does not bind every parameter"
            return gpo_construction(model, o3.name, inst_cls, env2, depth + 1)
    return None, "no GPO is stored in self.algorithm"


def argmax_expr(fn, e, scores, container):
    """e is container[np.argmax(np.array(scores))] (possibly through a local index variable)."""
    if isinstance(e, ast.Subscript) and norm_src(e.value) == container:
        idx = e.slice
        if isinstance(idx, ast.Name):
            ds = [s for s in ast.walk(fn) if isinstance(s, ast.Assign) and norm_src(s.targets[0]) == idx.id]
            if len(ds) != 1:
                return False, "index variable %s has %d definitions" % (idx.id, len(ds))
            idx = ds[0].value
        s = norm_src(idx)
        ok = s in ("np.argmax(np.array(%s))" % scores, "np.argmax(%s)" % scores)
        if not ok and isinstance(idx, ast.Call) and norm_src(idx.func) == "np.argmax" and isinstance(idx.args[0], ast.Name):
            ds = [t for t in ast.walk(fn) if isinstance(t, ast.Assign) and norm_src(t.targets[0]) == idx.args[0].id]
            ok = len(ds) == 1 and norm_src(ds[0].value) in ("np.array(%s)" % scores, scores)
        return ok, "%s[argmax(%s)]" % (container, scores) if ok else "index is %s" % s
    return False, "'%s' is not %s[argmax ...]" % (norm_src(e), container)


def argmax_index_use(fn, scores, container, method):
    rets = [r for r in ast.walk(fn) if isinstance(r, ast.Return) and r.value is not None]
    if len(rets) != 1:
        return False, "expected one return"
    v = rets[0].value
    if isinstance(v, ast.Name):
        ds = [s for s in ast.walk(fn) if isinstance(s, ast.Assign) and norm_src(s.targets[0]) == v.id]
        if len(ds) != 1:
            return False, "returned variable has %d definitions" % len(ds)
        v = ds[0].value
    if method is not None:
        if not (isinstance(v, ast.Call) and isinstance(v.func, ast.Attribute) and v.func.attr == method):
            return False, "returns %s, not a learner's %s()" % (norm_src(v), method)
        v = v.func.value
    return argmax_expr(fn, v, scores, container)


def import_once(ctx, names):
    """The observed reward must actually be recorded for the recommendation to be 'best evaluated': C04's
    R04-ONCE / R04-NODE obligations for these algorithms, re-reported."""
    from . import c04
    tmp = Ctx(ctx.prop, ctx.tier, ctx.seed, ctx.model)
    from .. import callsites as CS
    from .. import effects as E
    eff = E.Effects(ctx.model)
    cache = {}

    def fcs(cname, fn):
        k = (cname, fn.name)
        if k not in cache:
            cache[k] = CS.FnCtx(ctx.model, eff, cname, fn)
        return cache[k]
    for cls in c04.algos(ctx.model):
        if cls.name in names:
            info = CR.credit_paths(ctx.model, cls.name)
            designators, reward = c04.check_once(tmp, cls, info)
            # ... and on the cell whose point was handed out (pairing), or the 'best evaluated' point has someone else's reward
            tmp.attempt("R04-PAIR", cls.file, "%s.pull" % cls.name, "pairing", c04.check_pair, tmp, cls, designators, fcs)
    c04.check_node_classes(tmp)
    c04.check_write(tmp)        # ... and nothing but the recording methods writes it afterwards
    for o in tmp.obligations:
        ctx.obligations.append(dict(o, rule=o["rule"].replace("R04", "R07")))
    for f in tmp.findings:
        ncls_ok = any(f.qual.startswith(n) for n in names) or any(f.qual.startswith(ctx.model.node_class_of_algo(n) or "?") for n in names)
        if ncls_ok:
            ctx.add_finding(f.rule.replace("R04", "R07"), f.file, f.qual, f.construct, f.why, f.line)
    ctx.functions |= tmp.functions


def import_scores(ctx):
    """'Highest score' presupposes that the scores are what they are documented to be: the mean reward of a learner (POO, C10's
    R10-MEAN) and the mean validation reward of a validated point (GPO, C09's R09-VALID), re-reported."""
    from . import c09, c10
    for mod, fn_name, pat, rule in ((c10, "check_means", "R10-MEAN", "R07-SCORE"), (c09, "check_validation", "R09-VALID", "R07-SCORE")):
        tmp = Ctx(ctx.prop, ctx.tier, ctx.seed, ctx.model)
        tmp.attempt(pat, "PyXAB/algos", fn_name, "scores", getattr(mod, fn_name), tmp)
        for o in tmp.obligations:
            if o["rule"] == pat:
                ctx.obligations.append(dict(o, rule=rule))
        for f in tmp.findings:
            if f.rule == pat:
                ctx.add_finding(rule, f.file, f.qual, f.construct, f.why, f.line)
        ctx.functions |= tmp.functions


def check_key_stores(ctx):
    """The statistic a recommendation is computed from is only ever stored as the statistic of the recorded history: every store to
    mean_reward in the cell classes of StoSOO and StroquOOL - wherever it happens (update_reward, compute_b_value,
    compute_mean_reward) - is the arithmetic mean of the cell's reward list (with or without the reward being recorded)."""
    model = ctx.model
    for ncls in ("StoSOO_node", "StroquOOL_node"):
        if ncls not in model.classes:
            continue
        c = model.cls(ncls)
        for name, fn in sorted(c.methods.items()):
            if name == "__init__" or not any(is_self_attr(x, "mean_reward") and isinstance(x.ctx, ast.Store) for x in ast.walk(fn)):
                continue
            qual = "%s.%s" % (ncls, name)
            ctx.fn(qual)
            S = SM.Summarizer(model, ncls)
            T = S.T
            try:
                ps = S.run(fn, params={"reward": T.sym("reward")} if any(a.arg == "reward" for a in fn.args.args) else None)
            except (SM.HasLoop, SX.Untranslatable) as ex:
                ctx.violation("R07-EVAL", c.file, qual, "self.mean_reward", "cannot read how the mean is computed: %s" % ex, fn.lineno)
                continue
            R, N, r = T.sym("rewards"), T.sym("visited_times"), T.sym("reward")
            refs = [SX.SUM(R) / N, SX.SUM(R) / SX.LEN(R)] if hasattr(SX, "LEN") else [SX.SUM(R) / N]
            for p in ps:
                if p.raises or "mean_reward" not in p.stores:
                    continue
                got = p.stores["mean_reward"]
                ok = False
                gs = str(got)
                # accepted: SUM(L)/n with L the reward list (possibly with the new reward appended) and n its length / the pull count
                for L, ns in (("rewards", ("visited_times", "LEN(rewards)")),
                              ("APPEND(rewards, reward)", ("visited_times + 1", "LEN(APPEND(rewards, reward))", "LEN(rewards) + 1"))):
                    for n_ in ns:
                        if gs.replace(" ", "") in (("SUM(%s)/(%s)" % (L, n_)).replace(" ", ""), ("SUM(%s)/%s" % (L, n_)).replace(" ", "")):
                            ok = True
                if not ok and gs.replace(" ", "") in ("MEAN(rewards)", "MEAN(APPEND(rewards,reward))"):
                    ok = True
                if not ok:
                    # any other spelling: compared symbolically with the reference forms, read by the same translator
                    try:
                        base = [S.T.tr(ast.parse(e, mode="eval").body) for e in
                                ("sum(self.rewards) / self.visited_times", "sum(self.rewards) / len(self.rewards)", "np.mean(self.rewards)")]
                        app = sp.Function("APPEND")(R, r)
                        cands = list(base) + [b.subs(N, N + 1).subs(R, app) for b in base]
                        ok = any(SX.equivalent(got, cnd)[0] is True for cnd in cands)
                    except SX.Untranslatable:
                        pass
                ctx.ob("R07-EVAL", ok, c.file, qual, "self.mean_reward = mean of the recorded rewards",
                       "stored as %s on the path %s" % (got, p.conds or "(always)"), fn.lineno)


def run(ctx):
    model = ctx.model
    ctx.attempt("R07-EVAL", "PyXAB/algos", "StoSOO_node/StroquOOL_node", "recorded means", check_key_stores, ctx)
    for name, spec in SPEC.items():
        cls = model.cls(name)
        fn = model.own_method(name, "get_last_point")
        f = ctx.attempt("R07-ARGMAX", cls.file, "%s.get_last_point" % name, "recommendation", check_fold, ctx, cls, fn, spec)
        ctx.attempt("R07-EVAL", cls.file, name, "evaluated candidates", check_eval, ctx, cls, f)
    check_wrappers(ctx)
    import_once(ctx, list(SPEC))
    import_scores(ctx)
    # what a recommendation is computed from belongs to one run: no candidate list, score list or cell statistic is shared between
    # instances (C14's isolation rule for the classes concerned)
    from . import c14
    names = [n for n in list(SPEC) + ["POO", "GPO", "PCT", "VPCT"] if n in model.classes]
    names += [model.node_class_of_algo(n) for n in SPEC if model.node_class_of_algo(n) in model.classes]
    c14.import_iso(ctx, sorted(set(names)), "R07-ISO", "candidates and scores belong to one instance")
    return dict(
        explanation=(
            "ARGMAX: get_last_point of DOO, SOO, SequOOL, StoSOO, StroquOOL is recognised as an arg-max fold (direction max, seed -inf, "
            "winner and incumbent updated together, no other writer) over the stated key - resolved through the cell's getter to the "
            "recorded attribute (reward / first reward / mean) - and over the stated candidate set (every cell of every layer; the "
            "searched points; the deepest layer; the validated candidates), returning the winner's representative; POO returns the "
            "next proposal of V_algo[argmax V_reward], GPO V_x[argmax V_reward], fixed as goodx when the last phase ends and returned "
            "by pull afterwards. EVAL: a never-evaluated cell cannot win (DOO/SOO: reward sentinel -inf or evaluated filter; SequOOL: "
            "a cell enters the searched points only on a hand-out path or together with its reward; StoSOO: mean 0 while unevaluated; "
            "StroquOOL: validation mean = sum/len of the restarted reward list, refreshed before comparison). DELEG: PCT/VPCT are pure "
            "forwards to a GPO built with the caller's arguments. ONCE/NODE (from C04): the observed reward is recorded on every path."),
        assumptions=["ties may resolve either way (the statement allows any maximiser)", "getters are one-line returns (checked)"],
        technique="arg-max fold recognition + candidate-set/key resolution + sentinel/hand-out rules + delegation shape checks",
    )
