"""C08 - SOO, StoSOO and DOO evaluate and expand cells by their optimistic rule (thin: guard/shape rules)."""
import ast

import sympy as sp

from .. import callsites as CS
from .. import cfg as C
from .. import credit as CR
from .. import effects as E
from .. import idioms as ID
from .. import summary as SM
from .. import symx as SX
from ..model import calls_in, get_arg, is_self_attr, method_name, strip_doc
from ..report import AnalysisError, Ctx, norm_src
from . import c07

SENT = ("-np.inf", "-math.inf", "float('-inf')")


def atoms_at(g, node):
    return [a for a, t, lab, e in C.facts_at(g, node)]


def leaf_atom(x):
    return ("is", "%s.get_children()" % x, "None")


def cell_atoms(model, cls, fn, g, x, at):
    """Guard facts about the cell named x at CFG node `at`, including facts inherited through its definitions: when
    `x is not None` holds at `at`, every reaching definition of x other than `x = None` must be a copy `x = y`, and the facts
    that guard that copy about y hold for x (the guards were evaluated on the very cell that x then names)."""
    out = list(atoms_at(g, at))
    if not x.isidentifier() or ("is not", x, "None") not in out:
        return out
    fc = CS.FnCtx(model, E.Effects(model), cls, fn)
    ds, entry = fc.reaching(x, fc.cfg.node_of(at.ast))
    real = [(n, r) for n, r in ds if not (r[0] == "assign" and isinstance(r[1], ast.Constant) and r[1].value is None)]
    if not real or any(r[0] != "assign" or not isinstance(r[1], ast.Name) for n, r in real):
        return out
    inherited = None
    for n, r in real:
        y = r[1].id
        fs = set()
        for a in atoms_at(g, g.node_of(n.ast)):
            fs.add(tuple(part.replace(y, x) if isinstance(part, str) and (part == y or part.startswith(y + ".")) else part for part in a))
        inherited = fs if inherited is None else (inherited & fs)
    return out + sorted(inherited or [])


# ---------------------------------------------------------------------------


def foreign_filters(f, allowed_suffixes=(".get_children() is None", ".visited")):
    """Filters of a fold (enclosing ifs inside the loop and conjuncts of the update test) other than the leaf test and the
    evaluated flag of the candidate: any other condition removes cells from the maximum the rule speaks about."""
    out = []
    for src_, pol in f.filters:
        parts = [src_]
        try:
            e = ast.parse(src_, mode="eval").body
            if isinstance(e, ast.BoolOp) and isinstance(e.op, ast.And) and pol:
                parts = [norm_src(v) for v in e.values]
        except SyntaxError:
            pass
        for p_ in parts:
            q = p_[4:] if p_.startswith("not ") else p_
            if not any(q == f.cand + suf or q.endswith(suf) and q[:-len(suf)] in (f.cand, f.elem or f.cand) for suf in allowed_suffixes):
                out.append(p_ if pol else "not (%s)" % p_)
    return out


def check_soo(ctx):
    model = ctx.model
    c = model.cls("SOO")
    pull = model.own_method("SOO", "pull")
    q = "SOO.pull"
    ctx.fn(q)
    g = C.CFG(pull)
    # hand-out: an unvisited leaf, marked visited before it is returned
    rets = [r for r in ast.walk(pull) if isinstance(r, ast.Return) and r.value is not None]
    ok = len(rets) == 1 and isinstance(rets[0].value, ast.Call) and method_name(rets[0].value) == "get_cpoint"
    ctx.ob("R08-ONCE", ok, c.file, q, "single hand-out site", "%s" % [norm_src(r) for r in rets], pull.lineno, nontrivial=False)
    if ok:
        x = norm_src(rets[0].value.func.value)
        at = g.node_of(rets[0])
        at_atoms = cell_atoms(model, "SOO", pull, g, x, at)
        okg = ("falsy", "%s.visited" % x, "") in at_atoms and leaf_atom(x) in at_atoms
        ctx.ob("R08-ONCE", okg, c.file, q, norm_src(rets[0]), "handed out only if it is a leaf that was never evaluated" if okg else "guards: %s" % at_atoms,
               rets[0].lineno)
        blk = enclosing_block(model, rets[0])
        marks = [s for s in blk[:blk.index(rets[0])] if norm_src(s) == "%s.visit()" % x]
        ctx.ob("R08-ONCE", len(marks) == 1, c.file, q, "%s.visit() before the hand-out" % x, "marked evaluated in the same step", rets[0].lineno)
    visit_ok(ctx, "SOO_node")
    # expansion candidate: best evaluated leaf of the depth
    folds = ID.find_folds(pull)
    if len(folds) != 1:
        ctx.violation("R08-EXPAND", c.file, q, "choice of the leaf to expand", "not recognised as an arg-max of the reward over the depth's leaves "
                      "(%d fold(s))" % len(folds), pull.lineno)
        return
    f = folds[0]
    key_attr = c07.getter_attr(model, "SOO_node", f.key) if isinstance(f.key, ast.Call) else None
    fa = atoms_at(g, g.node_of(f.if_node))
    ff = foreign_filters(f)
    okf = (f.direction == "max" and f.seed in SENT and key_attr == "reward" and not f.also and f.set_src == "node_list[h]"
           and leaf_atom(f.cand) in fa and ("truthy", "%s.visited" % f.cand, "") in fa and not ff)
    ctx.ob("R08-EXPAND", okf, c.file, q, "expanded leaf = evaluated leaf of depth h with the highest reward", f.describe() + "; facts %s" % fa + ("; cells are also excluded by %s" % ff if ff else ""), f.if_node.lineno)
    # the fold is re-seeded for every depth (inside the depth loop)
    wl = [w for w in ast.walk(pull) if isinstance(w, ast.While)]
    inner = [w for w in wl if norm_src(w.test) != "True"]
    okcap = len(inner) == 1 and [C.atom_of(e, pol) for e, pol in C.flatten_cond(inner[0].test, True)] in (
        [("<=", "h", "min(self.partition.get_depth(), self.h_max)")], [("<=", "h", "min(self.h_max, self.partition.get_depth())")])
    ctx.ob("R08-CAP", okcap, c.file, q, "sweep bounded by min(tree depth, h_max)", norm_src(inner[0].test) if inner else "?", pull.lineno)
    if inner:
        W = inner[0]
        seeds = [norm_src(s) for s in W.body if isinstance(s, ast.Assign)]
        ctx.ob("R08-EXPAND", "%s = -np.inf" % f.value_var in seeds and "%s = None" % f.best in seeds, c.file, q, "best-of-depth restarts at every depth",
               "%s" % seeds, W.lineno, nontrivial=False)
    # sweep threshold
    sites = calls_in(pull, "make_children")
    oks = len(sites) == 1
    if oks:
        at = g.node_of(sites[0])
        aa = atoms_at(g, at)
        oks = ("<=", "v_max", f.value_var) in aa and norm_src(get_arg(sites[0], 0, "parent")) == f.best
        blk = enclosing_block(model, model.enclosing_stmt(sites[0]))
        after = [norm_src(s) for s in blk[blk.index(model.enclosing_stmt(sites[0])) + 1:]]
        oks = oks and "v_max = %s" % f.value_var in after
        ctx.ob("R08-SWEEP", oks, c.file, q, "expand only if the depth's best reward >= v_max, then v_max <- that reward", "guards %s; then %s" % (aa, after),
               sites[0].lineno)
    outer = [w for w in wl if norm_src(w.test) == "True"]
    okv = len(outer) == 1 and "v_max = -np.inf" in [norm_src(s) for s in outer[0].body if isinstance(s, ast.Assign)] and \
        "h = 0" in [norm_src(s) for s in outer[0].body if isinstance(s, ast.Assign)]
    ctx.ob("R08-SWEEP", okv, c.file, q, "every sweep starts at depth 0 with v_max = -inf", "while True: h = 0; v_max = -inf; ...", pull.lineno)
    vm = [s for s in ast.walk(pull) if isinstance(s, (ast.Assign, ast.AugAssign)) and norm_src(s.targets[0] if isinstance(s, ast.Assign) else s.target) == "v_max"]
    ctx.ob("R08-SWEEP", len(vm) == 2, c.file, q, "v_max only reset per sweep and raised on expansion", "%s" % [norm_src(s) for s in vm], pull.lineno, nontrivial=False)
    hs = [norm_src(s) for s in ast.walk(pull) if isinstance(s, (ast.Assign, ast.AugAssign)) and norm_src(s.targets[0] if isinstance(s, ast.Assign) else s.target) == "h"]
    ctx.ob("R08-SWEEP", sorted(hs) == ["h += 1", "h = 0"], c.file, q, "depths visited top-down, one by one", "%s" % hs, pull.lineno, nontrivial=False)
    # the cap the sweep compares with is the caller's h_max itself (a rounded-up cap lets a deeper layer be evaluated)
    init = model.own_method("SOO", "__init__")
    try:
        Si = SM.Summarizer(model, "SOO")
        pi = [p for p in Si.run(init) if not p.raises]
        okh = bool(pi) and all(p.stores.get("h_max") == Si.T.sym("h_max") for p in pi)
        whyh = "self.h_max = h_max on every constructor path" if okh else "self.h_max is %s" % sorted({str(p.stores.get("h_max")) for p in pi})
    except (SM.HasLoop, SX.Untranslatable) as ex:
        okh, whyh = False, "cannot read the constructor: %s" % ex
    ctx.ob("R08-CAP", okh, c.file, "SOO.__init__", "the depth cap is stored unchanged", whyh, init.lineno)


def visit_ok(ctx, ncls):
    model = ctx.model
    f = model.own_method(ncls, "visit")
    ok = [norm_src(s) for s in strip_doc(f.body)] == ["self.visited = True"]
    init = model.own_method(ncls, "__init__")
    ok2 = any(norm_src(s) == "self.visited = False" for s in init.body)
    ctx.ob("R08-ONCE", ok and ok2, model.cls(ncls).file, "%s.visit" % ncls, "evaluated flag: False at creation, set by visit()", "recognised", f.lineno, nontrivial=False)
    for c in model.classes.values():
        if not c.file.startswith("PyXAB/algos/"):
            continue
        for fn in c.methods.values():
            for s in ast.walk(fn):
                tg = s.targets if isinstance(s, ast.Assign) else ([s.target] if isinstance(s, (ast.AugAssign, ast.AnnAssign)) else [])
                for t in tg:
                    if isinstance(t, ast.Attribute) and t.attr == "visited" and not (c.name == ncls and fn.name in ("__init__", "visit")) \
                            and c.name in (ncls, ncls.replace("_node", "")):
                        ctx.violation("R08-ONCE", c.file, "%s.%s" % (c.name, fn.name), norm_src(s), "the evaluated flag is written outside visit()", s.lineno)


def enclosing_block(model, stmt):
    par = model.up(stmt)
    for f in ("body", "orelse"):
        b = getattr(par, f, None)
        if isinstance(b, list) and stmt in b:
            return b
    return [stmt]


# ---------------------------------------------------------------------------


def check_doo(ctx):
    model = ctx.model
    c = model.cls("DOO")
    pull = model.own_method("DOO", "pull")
    q = "DOO.pull"
    ctx.fn(q)
    g = C.CFG(pull)
    rets = [r for r in ast.walk(pull) if isinstance(r, ast.Return) and r.value is not None]
    ok = len(rets) == 1 and isinstance(rets[0].value, ast.Call) and method_name(rets[0].value) == "get_cpoint"
    ctx.ob("R08-ONCE", ok, c.file, q, "single hand-out site", "%s" % [norm_src(r) for r in rets], pull.lineno, nontrivial=False)
    if ok:
        x = norm_src(rets[0].value.func.value)
        aa = atoms_at(g, g.node_of(rets[0]))
        okg = ("falsy", "%s.visited" % x, "") in aa and leaf_atom(x) in aa
        ctx.ob("R08-ONCE", okg, c.file, q, norm_src(rets[0]), "handed out only if it is a leaf that was never evaluated" if okg else "guards %s" % aa, rets[0].lineno)
        blk = enclosing_block(model, rets[0])
        marks = [s for s in blk[:blk.index(rets[0])] if norm_src(s) == "%s.visit()" % x]
        ctx.ob("R08-ONCE", len(marks) == 1, c.file, q, "%s.visit() before the hand-out" % x, "marked evaluated in the same step", rets[0].lineno)
    visit_ok(ctx, "DOO_node")
    folds = ID.find_folds(pull)
    if len(folds) != 1:
        ctx.violation("R08-EXPAND", c.file, q, "choice of the leaf to expand", "not recognised as an arg-max of reward + delta(depth) over all evaluated leaves "
                      "(%d fold(s))" % len(folds), pull.lineno)
        return
    f = folds[0]
    key_attr = c07.getter_attr(model, "DOO_node", f.key) if isinstance(f.key, ast.Call) else None
    fa = atoms_at(g, g.node_of(f.if_node))
    ff = foreign_filters(f)
    okf = (f.direction == "max" and f.seed in SENT and key_attr == "b_value" and not f.also and f.set_src == "node_list[h]"
           and leaf_atom(f.cand) in fa and ("truthy", "%s.visited" % f.cand, "") in fa and not ff)
    ctx.ob("R08-EXPAND", okf, c.file, q, "expanded leaf = evaluated leaf with the highest b-value", f.describe() + "; facts %s" % fa + ("; cells are also excluded by %s" % ff if ff else ""), f.if_node.lineno)
    # the b-value is recomputed, with this depth's delta, right before it is compared
    # (a call <cand>.compute_b_value(delta) inside the cell loop that dominates the comparison)
    calls_b = [x for x in ast.walk(f.inner) if isinstance(x, ast.Call) and method_name(x) == "compute_b_value" and
               norm_src(x.func.value) == f.cand and [norm_src(a) for a in x.args] + [norm_src(k.value) for k in x.keywords] == ["delta"]]
    pre = [norm_src(x) for x in calls_b]
    okb = len(calls_b) == 1 and g.dominates(g.node_of(calls_b[0]), g.node_of(f.if_node)) and \
        isinstance(model.enclosing_stmt(calls_b[0]), ast.Expr)
    if okb:
        # not guarded by anything the comparison is not guarded by (it must run for every evaluated leaf)
        ga = set(atoms_at(g, g.node_of(calls_b[0])))
        okb = ga <= set(atoms_at(g, g.node_of(f.if_node)))
    # the delta handed to compute_b_value is self.delta(<depth of that cell>): its only reaching definition is
    # `delta = self.delta(X)` with X the index of the layer the cell is taken from, unchanged in between
    okd = False
    dwhy = ""
    if len(calls_b) == 1:
        fcd = CS.FnCtx(model, E.Effects(model), "DOO", pull)
        atb = fcd.cfg.node_of(calls_b[0])
        dd, de = fcd.reaching("delta", atb)
        lay = CS.layer_of(fcd, ast.Name(id=f.cand, ctx=ast.Load()), atb)
        if not de and len(dd) == 1 and dd[0][1][0] == "assign" and lay is not None:
            v = dd[0][1][1]
            okd = isinstance(v, ast.Call) and norm_src(v.func) == "self.delta" and len(v.args) + len(v.keywords) == 1 and \
                norm_src((list(v.args) + [k.value for k in v.keywords])[0]) == norm_src(lay) and \
                not fcd.stores_between(dd[0][0], atb, CS.deps(lay), ())
            dwhy = "delta = %s for cells of layer [%s]" % (norm_src(v), norm_src(lay))
        else:
            dwhy = "delta has %d reaching definition(s); cell layer %s" % (len(dd), norm_src(lay) if lay is not None else "unknown")
    ctx.ob("R08-B", okb and okd, c.file, q, "b = reward + delta(depth), recomputed for every evaluated leaf at every pull",
           "%s; %s" % (dwhy, pre), f.if_node.lineno)
    Sm = SM.Summarizer(model, "DOO_node")
    ps = Sm.run(model.own_method("DOO_node", "compute_b_value"))
    T = Sm.T
    okc = len(ps) == 1 and not ps[0].conds and SX.equivalent(ps[0].stores.get("b_value", sp.Integer(0)), T.sym("reward") + T.sym("delta"))[0] is True
    ctx.ob("R08-B", okc, model.cls("DOO_node").file, "DOO_node.compute_b_value", "b_value = reward + delta", "%s" % [p.stores for p in ps], 0)
    # the fold's incumbent spans the whole sweep over all depths (seeded once, before the depth loop), and the expansion
    # comes only after a complete sweep 0..D that found no unevaluated leaf.  Two spellings of the sweep are understood:
    #   (A) h = 0; while h <= D: <cells of layer h>; h += 1; if h > D: expand; h = 0
    #   (B) while True: for h in range(D + 1): <cells of layer h>;  expand
    fcx = CS.FnCtx(model, E.Effects(model), "DOO", pull)
    sw = CS.cell_sweep(fcx, ast.Name(id=f.cand, ctx=ast.Load()), fcx.cfg.node_of(f.if_node))
    D = "self.partition.get_depth()"
    sites = calls_in(pull, "make_children")
    wl = [w for w in ast.walk(pull) if isinstance(w, ast.While)]
    depth_loop = None
    form = None
    if sw is not None and sw["layers"][0] == "range" and norm_src(sw["layers"][1]) == "0" and norm_src(sw["layers"][2]) in (D + " + 1", "1 + " + D):
        depth_loop, form = sw["loops"][0], "B"
    elif sw is not None and sw["layers"][0] == "one" and isinstance(sw["layers"][1], ast.Name):
        hv = sw["layers"][1].id
        cand_w = [w for w in wl if norm_src(w.test) in ("%s <= %s" % (hv, D), "%s >= %s" % (D, hv)) and any(f.inner is x for x in ast.walk(w))]
        if len(cand_w) == 1:
            depth_loop, form = cand_w[0], "A"
        else:
            # (C) the same cycle entered at the check: h = 0; while True: if h > D: expand; h = 0 / <cells of layer h> / h += 1
            # (the check is vacuous on entry since 0 <= D; afterwards it is form A's cycle cells -> increment -> check)
            cand_w = [w for w in wl if isinstance(w.test, ast.Constant) and w.test.value is True and any(f.inner is x for x in w.body) or
                      (isinstance(w.test, ast.Constant) and w.test.value is True and any(any(f.inner is y for y in ast.walk(x)) for x in w.body))]
            if len(cand_w) == 1:
                depth_loop, form = cand_w[0], "C"
    okw = depth_loop is not None and any(depth_loop is x for x in ast.walk(f.loop)) and not (sw and sw["partial"] and form == "B" and
                                                                                              any("break" in x for x in sw["partial"]))
    ctx.ob("R08-EXPAND", okw, c.file, q, "the maximum runs over the leaves of every depth",
           "incumbent seeded before the sweep over depths 0..D (form %s)" % form if okw else "the depth sweep is not recognised or the incumbent is re-seeded inside it",
           pull.lineno)
    oks = len(sites) == 1 and norm_src(get_arg(sites[0], 0, "parent")) == f.best
    if oks and depth_loop is not None:
        at = g.node_of(sites[0])
        aa = atoms_at(g, at)
        st = model.enclosing_stmt(sites[0])
        if form in ("A", "C"):
            hv = sw["layers"][1].id
            blk = enclosing_block(model, st)
            after = [norm_src(s) for s in blk[blk.index(st) + 1:]]
            hdefs = sorted(norm_src(s) for s in ast.walk(pull) if isinstance(s, (ast.Assign, ast.AugAssign)) and
                           norm_src(s.targets[0] if isinstance(s, ast.Assign) else s.target) == hv)
            oks = ("<", D, hv) in aa and after == ["%s = 0" % hv] and hdefs == ["%s += 1" % hv, "%s = 0" % hv, "%s = 0" % hv]
            why = "guards %s; then %s; counter definitions %s" % (aa, after, hdefs)
            # order of the cycle inside the loop body: cells -> increment -> check (A), or the rotation that starts at the check (C)
            wb = depth_loop.body
            pos = {}
            for k2, b in enumerate(wb):
                if any(f.inner is x for x in ast.walk(b)):
                    pos["cells"] = k2
                if norm_src(b) == "%s += 1" % hv:
                    pos["inc"] = k2
                if any(st is x for x in ast.walk(b)):
                    pos["check"] = k2
            if len(pos) == 3:
                order = sorted(pos, key=pos.get)
                oks = oks and order == (["cells", "inc", "check"] if form == "A" else ["check", "cells", "inc"])
                # the check statement holds nothing but the expansion and the reset
                chk = wb[pos["check"]]
                oks = oks and isinstance(chk, ast.If) and not chk.orelse and [norm_src(x) for x in chk.body[1:]] == ["%s = 0" % hv] and len(chk.body) == 2
                why += "; cycle order %s" % order
            else:
                oks = False
                why += "; the sweep cycle (cells, increment, check) is not found at the top level of the loop"
            # the counter starts at 0 before the loop
            init = [b for b in enclosing_block(model, depth_loop)[:enclosing_block(model, depth_loop).index(depth_loop)] if norm_src(b) == "%s = 0" % hv]
            oks = oks and len(init) == 1
        else:
            head = g.node_of(depth_loop)
            inside = any(st is x for x in ast.walk(depth_loop))
            no_break = not any(isinstance(x, ast.Break) for x in ast.walk(depth_loop))
            oks = (not inside) and no_break and g.edge_dominates(head, "done", at)
            # the sweep restarts from depth 0 afterwards: the expansion is followed (in its own loop) by the same for loop
            outer = [w for w in wl if any(depth_loop is x for x in w.body) and any(st is x for x in w.body)]
            oks = oks and len(outer) == 1 and outer[0].body.index(depth_loop) < outer[0].body.index(st) and \
                isinstance(outer[0].test, ast.Constant) and outer[0].test.value is True
            why = "expansion after the exhausted `for %s in %s`, inside `while True` (restart at depth 0)" % (norm_src(depth_loop.target), norm_src(depth_loop.iter))
        ctx.ob("R08-SWEEP", oks, c.file, q, "one expansion after a complete sweep that found no unevaluated leaf, then restart at depth 0",
               why, sites[0].lineno)
    else:
        ctx.violation("R08-SWEEP", c.file, q, "expansion site", "expected one make_children on the arg-max leaf after the depth sweep", pull.lineno)


# ---------------------------------------------------------------------------


def index_fold(loop):
    """StoSOO's index variant: returns dict(idx, key_getter, direction, filters) or None."""
    if not (isinstance(loop.target, ast.Name) and norm_src(loop.iter).startswith("range(len(") and norm_src(loop.iter).endswith("))")):
        return None
    j = loop.target.id
    layer = norm_src(loop.iter)[len("range(len("):-2]
    body = loop.body
    if not body or not isinstance(body[0], ast.Assign) or norm_src(body[0].value) != "%s[%s]" % (layer, j):
        return None
    node = norm_src(body[0].targets[0])
    ifs = [s for s in body[1:] if isinstance(s, ast.If)]
    if len(ifs) != 1 or len(body) != 2:
        return None
    I = ifs[0]
    if norm_src(I.test) != "%s.get_children() is None" % node or I.orelse:
        return None
    pre = [s for s in I.body if not isinstance(s, ast.If)]
    sel = [s for s in I.body if isinstance(s, ast.If)]
    if len(sel) != 1:
        return None
    S = sel[0]
    if not (isinstance(S.test, ast.Compare) and norm_src(S.test).endswith(" is None")):
        return None
    idx = norm_src(S.test.left)
    if [norm_src(s) for s in S.body] != ["%s = %s" % (idx, j)]:
        return None
    if len(S.orelse) != 1 or not isinstance(S.orelse[0], ast.If) or S.orelse[0].orelse:
        return None
    Cmp = S.orelse[0]
    if [norm_src(s) for s in Cmp.body] != ["%s = %s" % (idx, j)]:
        return None
    t = Cmp.test
    if not (isinstance(t, ast.Compare) and len(t.ops) == 1):
        return None
    l, r = norm_src(t.left), norm_src(t.comparators[0])
    inc, cand = "%s[%s]" % (layer, idx), "%s[%s]" % (layer, j)
    op = type(t.ops[0])
    getter = None
    direction = None
    for a, b, flip in ((l, r, False), (r, l, True)):
        if a.startswith(inc + ".") and b.startswith(cand + ".") and a[len(inc):] == b[len(cand):]:
            getter = a[len(inc) + 1:]
            # inc OP cand
            o = op if not flip else {ast.LtE: ast.GtE, ast.Lt: ast.Gt, ast.GtE: ast.LtE, ast.Gt: ast.Lt}.get(op)
            direction = "max" if o in (ast.LtE, ast.Lt) else ("min" if o in (ast.GtE, ast.Gt) else None)
    if getter is None or direction is None:
        return None
    return dict(idx=idx, j=j, layer=layer, node=node, getter=getter, direction=direction, pre=[norm_src(s) for s in pre], loop=loop)


def ref_fold(loop):
    """StoSOO with the best leaf held by reference:
         best = None
         for [j,] node in [enumerate(]L[)]:
             if node is a leaf:
                 <pre>
                 if best is None or key(best) <= key(node):   (any equivalent orientation)
                     [idx = j]
                     best = node
    returns dict(sel=<best name>, ...) or None."""
    it = norm_src(loop.iter)
    tg = loop.target
    j = None
    if isinstance(tg, ast.Tuple) and len(tg.elts) == 2 and it.startswith("enumerate(") and it.endswith(")"):
        layer = it[len("enumerate("):-1]
        j, node = norm_src(tg.elts[0]), norm_src(tg.elts[1])
    elif isinstance(tg, ast.Name):
        layer, node = it, tg.id
    else:
        return None
    body = loop.body
    if len(body) != 1 or not isinstance(body[0], ast.If) or body[0].orelse or norm_src(body[0].test) != "%s.get_children() is None" % node:
        return None
    I = body[0]
    pre = [x for x in I.body if not isinstance(x, ast.If)]
    sel = [x for x in I.body if isinstance(x, ast.If)]
    if len(sel) != 1 or sel[0].orelse:
        return None
    S = sel[0]
    t = S.test
    if not (isinstance(t, ast.BoolOp) and isinstance(t.op, ast.Or) and len(t.values) == 2):
        return None
    none_t, cmp_t = t.values
    if not (isinstance(none_t, ast.Compare) and norm_src(none_t).endswith(" is None") and isinstance(cmp_t, ast.Compare) and len(cmp_t.ops) == 1):
        return None
    best = norm_src(none_t.left)
    l, r = norm_src(cmp_t.left), norm_src(cmp_t.comparators[0])
    op = type(cmp_t.ops[0])
    getter = direction = None
    for a, b, flip in ((l, r, False), (r, l, True)):
        if a.startswith(best + ".") and b.startswith(node + ".") and a[len(best):] == b[len(node):]:
            getter = a[len(best) + 1:]
            o = op if not flip else {ast.LtE: ast.GtE, ast.Lt: ast.Gt, ast.GtE: ast.LtE, ast.Gt: ast.Lt}.get(op)
            direction = "max" if o in (ast.LtE, ast.Lt) else ("min" if o in (ast.GtE, ast.Gt) else None)
    if getter is None:
        return None
    assigns = [norm_src(x) for x in S.body]
    if "%s = %s" % (best, node) not in assigns:
        return None
    others = [a for a in assigns if a != "%s = %s" % (best, node)]
    idx = None
    for a in others:
        if j is not None and a.endswith(" = %s" % j):
            idx = a[: -len(" = %s" % j)]
        else:
            return None
    return dict(idx=idx, j=j, layer=layer, node=node, getter=getter, direction=direction, pre=[norm_src(x) for x in pre], loop=loop,
                sel=best, seedvars=[best] + ([idx] if idx else []))


def none_seeded_fold(loop):
    """The max-b selection of StoSOO, whatever it is called and however the current cell is designated:
         for <j | j, cell | cell> in <range(len(L)) | enumerate(L) | L>:
             [cell = L[j]]
             if <cell> is a leaf:
                 <pre>
                 if best is None or key(<incumbent>) <= key(<cell>):     (either orientation; `if .. elif ..` with the same body
                     best = <j | cell>  [; other = <cell | j>]              is merged by the normaliser)
       <incumbent> is L[best] for an index fold and best for a reference fold; <cell> is any designator of the current cell.
       Returns the same record as index_fold / ref_fold or None."""
    it, tg = loop.iter, loop.target
    j = None
    names = set()
    if isinstance(tg, ast.Name) and isinstance(it, ast.Call) and norm_src(it.func) == "range" and len(it.args) == 1 and \
            isinstance(it.args[0], ast.Call) and norm_src(it.args[0].func) == "len" and len(it.args[0].args) == 1:
        layer = norm_src(it.args[0].args[0])
        j = tg.id
        names = {"%s[%s]" % (layer, j)}
    elif isinstance(tg, ast.Tuple) and len(tg.elts) == 2 and isinstance(it, ast.Call) and norm_src(it.func) == "enumerate" and len(it.args) == 1:
        layer = norm_src(it.args[0])
        j = norm_src(tg.elts[0])
        names = {norm_src(tg.elts[1]), "%s[%s]" % (layer, j)}
    elif isinstance(tg, ast.Name) and not (isinstance(it, ast.Call) and norm_src(it.func) in ("range", "enumerate", "zip")):
        layer = norm_src(it)
        names = {tg.id}
    else:
        return None
    body = list(loop.body)
    while body and isinstance(body[0], ast.Assign) and len(body[0].targets) == 1 and isinstance(body[0].targets[0], ast.Name) and norm_src(body[0].value) in names:
        names.add(body[0].targets[0].id)
        body = body[1:]
    if len(body) != 1 or not isinstance(body[0], ast.If) or body[0].orelse:
        return None
    I = body[0]
    if not any(norm_src(I.test) == "%s.get_children() is None" % d for d in names):
        return None
    pre = [x for x in I.body if not isinstance(x, ast.If)]
    sel = [x for x in I.body if isinstance(x, ast.If)]
    if len(sel) != 1 or sel[0].orelse or I.body[-1] is not sel[0]:
        return None
    S = sel[0]
    t = S.test
    if not (isinstance(t, ast.BoolOp) and isinstance(t.op, ast.Or) and len(t.values) == 2):
        return None
    none_t, cmp_t = t.values
    if not (isinstance(none_t, ast.Compare) and len(none_t.ops) == 1 and isinstance(none_t.ops[0], ast.Is) and norm_src(none_t.comparators[0]) == "None" and
            isinstance(cmp_t, ast.Compare) and len(cmp_t.ops) == 1):
        return None
    best = norm_src(none_t.left)
    assigns = {}
    for x in S.body:
        if not (isinstance(x, ast.Assign) and len(x.targets) == 1):
            return None
        assigns[norm_src(x.targets[0])] = norm_src(x.value)
    if best not in assigns:
        return None
    if j is not None and assigns[best] == j:
        kind, inc = "index", "%s[%s]" % (layer, best)
    elif assigns[best] in names:
        kind, inc = "ref", best
    else:
        return None
    others = {k2: v for k2, v in assigns.items() if k2 != best}
    idx = best if kind == "index" else None
    ref = best if kind == "ref" else None
    value_var = None
    for k2, v in others.items():
        if kind == "ref" and j is not None and v == j and idx is None:
            idx = k2
        elif kind == "index" and v in names and ref is None:
            ref = k2
        elif value_var is None and any(v.startswith(nb + ".") for nb in names):
            value_var = (k2, v)          # the winner's key carried in a local next to the winner: max_b = <cell>.get_b_value()
        else:
            return None
    incs = {inc} | ({ref} if ref else set()) | ({"%s[%s]" % (layer, idx)} if idx else set())
    l, r = norm_src(cmp_t.left), norm_src(cmp_t.comparators[0])
    op = type(cmp_t.ops[0])
    getter = direction = None
    for a, b, flip in ((l, r, False), (r, l, True)):
        for ia in incs:
            for nb in names:
                if a.startswith(ia + ".") and b.startswith(nb + ".") and a[len(ia):] == b[len(nb):]:
                    getter = a[len(ia) + 1:]
                    o = op if not flip else {ast.LtE: ast.GtE, ast.Lt: ast.Gt, ast.GtE: ast.LtE, ast.Gt: ast.Lt}.get(op)
                    direction = "max" if o in (ast.LtE, ast.Lt) else ("min" if o in (ast.GtE, ast.Gt) else None)
        if getter is None and value_var is not None and a == value_var[0]:
            # the incumbent's key is read from the companion local: value_var OP key(<cell>), with value_var set to that same key
            for nb in names:
                if b.startswith(nb + ".") and value_var[1] == b:
                    getter = b[len(nb) + 1:]
                    o = op if not flip else {ast.LtE: ast.GtE, ast.Lt: ast.Gt, ast.GtE: ast.LtE, ast.Gt: ast.Lt}.get(op)
                    direction = "max" if o in (ast.LtE, ast.Lt) else ("min" if o in (ast.GtE, ast.Gt) else None)
    if getter is None or direction is None:
        return None
    # pre statements with the cell's designators abstracted
    pre_src = []
    for x in pre:
        sx = norm_src(x)
        for d in sorted(names, key=len, reverse=True):
            if sx.startswith(d + "."):
                sx = "CELL" + sx[len(d):]
                break
        pre_src.append(sx)
    node = sorted(names, key=len)[0]
    rec = dict(idx=idx, j=j, layer=layer, node=node, getter=getter, direction=direction, pre=pre_src, loop=loop, cell_names=names,
               seedvars=[v for v in (ref, idx) if v], value_var=value_var[0] if value_var else None)
    if kind == "ref" or ref:
        rec["sel"] = ref
    return rec


def check_stosoo(ctx):
    model = ctx.model
    c = model.cls("StoSOO")
    pull = model.own_method("StoSOO", "pull")
    q = "StoSOO.pull"
    ctx.fn(q)
    g = C.CFG(pull)
    loops = [l for l in ast.walk(pull) if isinstance(l, ast.For)]
    rec = [none_seeded_fold(l) or index_fold(l) or ref_fold(l) for l in loops]
    rec = [r for r in rec if r]
    if len(rec) != 1:
        ctx.violation("R08-EXPAND", c.file, q, "choice of the max-b leaf", "not recognised as the index arg-max of b over the leaves of the depth", pull.lineno)
        return
    r = rec[0]
    okf = r["direction"] == "max" and r["getter"] == "get_b_value()" and r["layer"] == "node_list[h]" and \
        r["pre"] in (["%s.compute_b_value(n=self.n, k=self.k, delta=self.delta)" % r["node"]], ["CELL.compute_b_value(n=self.n, k=self.k, delta=self.delta)"])
    ctx.ob("R08-EXPAND", okf, c.file, q, "max-b leaf of depth h, b recomputed for every leaf with (n, k, delta)", "%s" % {k: v for k, v in r.items() if k != "loop"},
           r["loop"].lineno)
    sel = r.get("sel") or "%s[%s]" % (r["layer"], r["idx"])
    # seed: idx / best = None before the loop, in the same block
    blk = enclosing_block(model, r["loop"])
    seeds = [norm_src(s) for s in blk[:blk.index(r["loop"])]]
    ctx.ob("R08-EXPAND", all("%s = None" % v in seeds for v in r.get("seedvars", [r["idx"]])), c.file, q, "selection restarts at every depth",
           "%s" % seeds, r["loop"].lineno, nontrivial=False)
    # hand-out / expansion
    rets = [x for x in ast.walk(pull) if isinstance(x, ast.Return) and x.value is not None]
    sites = calls_in(pull, "make_children")
    ok = len(rets) == 1 and len(sites) == 1
    ctx.ob("R08-ONCE", ok, c.file, q, "one hand-out site, one expansion site", "%d / %d" % (len(rets), len(sites)), pull.lineno, nontrivial=False)
    if not ok:
        return
    ra = atoms_at(g, g.node_of(rets[0]))
    ea = atoms_at(g, g.node_of(sites[0]))
    bm = ("<=", "self.b_max", "%s.get_b_value()" % sel)
    vv = r.get("value_var")
    if vv:
        # the winner's b-value may be read from the local that was set together with the winner (no store to it outside the fold)
        vstores = [x for x in ast.walk(pull) if isinstance(x, ast.Name) and x.id == vv and isinstance(x.ctx, ast.Store)]
        inside = {id(x) for x in ast.walk(r["loop"])}
        seeds_v = [x for x in vstores if id(x) not in inside]
        if all(isinstance(model.up(x), ast.Assign) and norm_src(model.up(x).value) in ("None", "-np.inf") for x in seeds_v):
            if ("<=", "self.b_max", vv) in ra:
                ra = list(ra) + [bm]
            if ("<=", "self.b_max", vv) in ea:
                ea = list(ea) + [bm]
    ret_src = norm_src(rets[0].value)
    rv = rets[0].value
    if isinstance(rv, ast.Call) and isinstance(rv.func, ast.Attribute) and isinstance(rv.func.value, ast.Name) and not rv.args and not rv.keywords:
        # the cell is handed out through a local bound to it just before (`node = <winner>; return node.get_cpoint()`)
        fc = CS.FnCtx(model, E.Effects(model), "StoSOO", pull)
        rn = fc.node_of(rets[0])
        ds, entry = fc.reaching(rv.func.value.id, rn)
        if not entry and len(ds) == 1 and ds[0][1][0] == "assign" and not fc.stores_between(ds[0][0], rn, CS.deps(ds[0][1][1]), ()):
            ret_src = "%s.%s()" % (norm_src(ds[0][1][1]), rv.func.attr)
    okh = ret_src == "%s.get_cpoint()" % sel and ("<", "%s.get_visited_times()" % sel, "self.k") in ra and bm in ra
    ctx.ob("R08-ONCE", okh, c.file, q, norm_src(rets[0]), "the max-b leaf is handed out only while evaluated fewer than k times (and b >= b_max)" if okh
           else "guards %s" % ra, rets[0].lineno)
    oke = norm_src(get_arg(sites[0], 0, "parent")) == sel and ("<=", "self.k", "%s.get_visited_times()" % sel) in ea and bm in ea
    st = model.enclosing_stmt(sites[0])
    blk2 = enclosing_block(model, st)
    after = [norm_src(s) for s in blk2[blk2.index(st) + 1:]]
    oke = oke and after in (["self.b_max = %s.get_b_value()" % sel], ["self.b_max = %s" % vv] if vv else [])
    ctx.ob("R08-SWEEP", oke, c.file, q, "expanded when evaluated k times and b >= b_max; then b_max <- its b", "guards %s; then %s" % (ea, after), sites[0].lineno)
    bmx = [norm_src(s) for s in ast.walk(pull) if isinstance(s, ast.Assign) and norm_src(s.targets[0]) == "self.b_max"]
    okb = len(bmx) == 2 and "self.b_max = -np.inf" in bmx and any(norm_src(s) == "self.b_max = -np.inf" for s in strip_doc(pull.body))
    ctx.ob("R08-SWEEP", okb, c.file, q, "b_max = -inf at the start of every sweep", "%s" % bmx, pull.lineno)
    wl = [w for w in ast.walk(pull) if isinstance(w, ast.While)]
    okc = len(wl) == 1 and norm_src(wl[0].test) in ("h <= min(self.partition.get_depth() + 1, self.h_max)", "h <= min(self.h_max, self.partition.get_depth() + 1)")
    ctx.ob("R08-CAP", okc, c.file, q, "sweep bounded by min(depth + 1, h_max)", norm_src(wl[0].test) if wl else "?", pull.lineno)
    hs = [norm_src(s) for s in ast.walk(pull) if isinstance(s, (ast.Assign, ast.AugAssign)) and norm_src(s.targets[0] if isinstance(s, ast.Assign) else s.target) == "h"]
    ctx.ob("R08-SWEEP", sorted(hs) == ["h += 1", "h = 0"], c.file, q, "depths visited top-down, one by one", "%s" % hs, pull.lineno, nontrivial=False)
    # b formula and defaults
    Sm = SM.Summarizer(model, "StoSOO_node")
    ps = Sm.run(model.own_method("StoSOO_node", "compute_b_value"))
    T = Sm.T
    vis = [p for p in ps if p.conds == [("self.visited_times == 0", False)]]
    unv = [p for p in ps if p.conds == [("self.visited_times == 0", True)]]
    okb = len(ps) == 2 and len(vis) == 1 and len(unv) == 1 and unv[0].stores.get("b_value") == sp.oo
    if okb:
        ref = SX.SUM(T.sym("rewards")) / T.sym("visited_times") + sp.sqrt(sp.log(T.sym("n") * T.sym("k") / T.sym("delta")) / (2 * T.sym("visited_times")))
        okb = SX.equivalent(vis[0].stores.get("b_value", sp.Integer(0)), ref)[0] is True
    ctx.ob("R08-B", okb, model.cls("StoSOO_node").file, "StoSOO_node.compute_b_value", "b = mean + sqrt(ln(nk/delta)/(2T)), inf when never evaluated",
           "%s" % [(p.conds, p.stores.get("b_value")) for p in ps], 0)
    init = model.own_method("StoSOO", "__init__")
    Si = SM.Summarizer(model, "StoSOO")
    pi = [p for p in Si.run(init) if not p.raises]
    Ti = Si.T
    n = Ti.sym("n")
    okk = True
    for p in pi:
        cd = dict(p.conds)
        if cd.get("k is None") is True:
            okk &= SX.equivalent(p.stores.get("k"), sp.ceiling(n / sp.log(n) ** 3))[0] is True
        elif cd.get("k is None") is False:
            okk &= p.stores.get("k") == Ti.sym("k")
        if cd.get("delta is None") is True:
            okk &= SX.equivalent(p.stores.get("delta"), 1 / sp.sqrt(n))[0] is True
        elif cd.get("delta is None") is False:
            okk &= p.stores.get("delta") == Ti.sym("delta")
        okk &= p.stores.get("h_max") == Ti.sym("h_max") and p.stores.get("n") == n
    ctx.ob("R08-B", okk and bool(pi), c.file, "StoSOO.__init__", "k defaults to ceil(n/ln(n)^3), delta to 1/sqrt(n); user values stored unchanged",
           "%d constructor path(s)" % len(pi), init.lineno)


def run(ctx):
    model = ctx.model
    ctx.attempt("R08-EXPAND", model.cls("SOO").file, "SOO.pull", "sweep", check_soo, ctx)
    ctx.attempt("R08-EXPAND", model.cls("DOO").file, "DOO.pull", "sweep", check_doo, ctx)
    ctx.attempt("R08-EXPAND", model.cls("StoSOO").file, "StoSOO.pull", "sweep", check_stosoo, ctx)
    from . import c03, c04
    tmp = Ctx(ctx.prop, ctx.tier, ctx.seed, model)
    eff = E.Effects(model)
    cache = {}

    def fcs(cn, fn):
        k = (cn, fn.name)
        if k not in cache:
            cache[k] = CS.FnCtx(model, eff, cn, fn)
        return cache[k]
    for name in ("SOO", "DOO", "StoSOO"):
        cls = model.cls(name)
        info = CR.credit_paths(model, name)
        des, reward = c04.check_once(tmp, cls, info)
        c04.check_pair(tmp, cls, des, fcs)
    c04.check_node_classes(tmp)
    c03.check_sites(tmp)
    keep = ("SOO", "DOO", "StoSOO", "SOO_node", "DOO_node", "StoSOO_node")
    for o in tmp.obligations:
        w = o["where"].split(" ")[-1].split(".")[0]
        if w in keep:
            ctx.obligations.append(dict(o, rule=o["rule"].replace("R04", "R08").replace("R03", "R08")))
    for f in tmp.findings:
        if f.qual.split(".")[0] in keep:
            ctx.add_finding(f.rule.replace("R04", "R08").replace("R03", "R08"), f.file, f.qual, f.construct, f.why, f.line)
    ctx.functions |= {f for f in tmp.functions if f.split(".")[0] in keep}
    # StoSOO remembers the cell it handed out as a POSITION in its layer (and all three sweep the layers in stored order): nothing
    # in these classes may reorder or edit the tree's lists (C03's who-may-write rule, re-reported)
    tmp3 = Ctx(ctx.prop, ctx.tier, ctx.seed, model)
    c03.check_own(tmp3)
    for f in tmp3.findings:
        if f.rule == "R03-OWN" and f.qual.split(".")[0] in keep:
            ctx.add_finding("R08-ONCE", f.file, f.qual, f.construct, "the layers are edited outside the partition (the handed-out cell is remembered "
                            "by its position in the layer): %s" % f.why, f.line)
    ctx.ob("R08-ONCE", not [f for f in tmp3.findings if f.rule == "R03-OWN" and f.qual.split(".")[0] in keep], "PyXAB/algos", "SOO/StoSOO/DOO",
           "who-may-write scan", "layers and child lists are not edited by these classes", nontrivial=False, finding=False)
    from . import c14
    c14.import_iso(ctx, ["SOO", "SOO_node", "StoSOO", "StoSOO_node", "DOO", "DOO_node"], "R08-ONCE",
                   "evaluation flags, rewards and means are per cell (and per run)")
    return dict(
        explanation=(
            "ONCE: SOO and DOO hand a cell out only under the guards 'leaf' and 'never evaluated' and mark it evaluated in the same step; "
            "StoSOO hands out the max-b leaf only while it has fewer than k evaluations. EXPAND: the expansion candidate is an arg-max "
            "(seed -inf, restarted per depth for SOO/StoSOO, spanning all depths for DOO) over leaves that are guarded as evaluated - of "
            "the reward (SOO), of b = mean + sqrt(ln(nk/delta)/(2T)) (StoSOO, formula by symbolic equivalence, recomputed for every leaf), "
            "of reward + delta(depth) (DOO, recomputed at every pull with that depth's delta). SWEEP: SOO/StoSOO expand only when the "
            "depth's best value is at least the running threshold (v_max / b_max, -inf at the start of a sweep, raised on expansion); "
            "DOO expands once after a complete sweep without unevaluated leaf and restarts at depth 0; depths are visited top-down. CAP: "
            "the sweep is bounded by min(depth(+1), h_max). Plus C03's leaf/new-layer obligations and C04's pairing/once rules for the "
            "three algorithms. Thin row: the order of expansions over a run is not decided."),
        assumptions=["pull/receive_reward alternate", "positive parameters"],
        technique="CFG guard facts at hand-out/expansion sites + arg-max fold recognition + sympy equivalence of b formulas",
    )
