"""C15 - anytime algorithms ignore the time argument and tolerate recommendation queries."""
import ast

import networkx as nx

from .. import access as AC
from .. import effects as E
from ..model import get_arg, is_self_attr, method_name, strip_doc
from ..report import AnalysisError, norm_src

TIME_IGNORED = ["T_HOO", "HCT", "VHCT", "Zooming", "POO", "GPO", "PCT", "VPCT", "DOO", "SOO", "SequOOL", "VROOM"]
QUERY_SAFE = ["T_HOO", "HCT", "VHCT", "Zooming"]
LEARNER_ATTRS = AC.LEARNER_EXPR_ATTRS


_MODEL = [None]


def is_learner(e):
    return AC.learner_expr(e, None, _MODEL[0])


def taint_class(ctx, cls):
    """R15-TAINT for one algorithm class."""
    model = ctx.model
    _MODEL[0] = model
    c = model.cls(cls)
    file = c.file
    tainted_attrs = {}      # attr -> where it was tainted
    work = []               # (fn, set of tainted params)
    seen = {}
    for m in ("pull", "receive_reward"):
        fn = model.own_method(cls, m) if m in c.methods else model.method(cls, m)
        params = [a.arg for a in fn.args.args]
        if len(params) < 2:
            raise AnalysisError("%s.%s has no time parameter" % (cls, m))
        work.append((fn, frozenset([params[1]])))
    n_uses = 0
    while work:
        fn, tp = work.pop()
        key = (id(fn), tp)
        if key in seen:
            continue
        seen[key] = True
        qual = "%s.%s" % (cls, fn.name)
        ctx.fn(qual)
        tainted = set(tp)

        def forwarded(n):
            """Is this occurrence the time argument of a base learner's pull/receive_reward?"""
            par = model.up(n)
            if isinstance(par, (ast.Call, ast.keyword)):
                call = par if isinstance(par, ast.Call) else model.up(par)
                if isinstance(call, ast.Call) and isinstance(call.func, ast.Attribute) and n is not call.func:
                    pos = call.args.index(n) if n in call.args else None
                    kw = par.arg if isinstance(par, ast.keyword) else None
                    if is_learner(call.func.value) and call.func.attr in ("pull", "receive_reward") and (pos == 0 or kw in ("time", "t")):
                        return True
            return False
        # local propagation to fix-point: a local assigned from an expression that uses a tainted name
        # (a label merely forwarded to a learner does not come back: the learner's own parameter is checked)
        changed = True
        while changed:
            changed = False
            for n in ast.walk(fn):
                if isinstance(n, ast.Assign) and any(isinstance(x, ast.Name) and x.id in tainted and not forwarded(x)
                                                     for x in ast.walk(n.value)):
                    for t in n.targets:
                        for tt in (t.elts if isinstance(t, (ast.Tuple, ast.List)) else [t]):
                            if isinstance(tt, ast.Name) and tt.id not in tainted:
                                tainted.add(tt.id)
                                changed = True
        for n in ast.walk(fn):
            if not (isinstance(n, ast.Name) and n.id in tainted and isinstance(n.ctx, ast.Load)):
                continue
            n_uses += 1
            par = model.up(n)
            st = model.enclosing_stmt(n)
            # (i) plain copy into an attribute or a local: `self.a = time`, `t = time`
            if isinstance(par, ast.Assign) and par.value is n:
                okc = True
                for t in par.targets:
                    if is_self_attr(t):
                        tainted_attrs.setdefault(t.attr, "%s line %s" % (qual, par.lineno))
                    elif isinstance(t, ast.Name):
                        pass
                    else:
                        okc = False
                if okc:
                    ctx.ob("R15-TAINT", True, file, qual, norm_src(par), "time label only copied (the copy is tracked)", par.lineno)
                    continue
            # (ii) forwarded as the time argument of a learner / own method
            if isinstance(par, (ast.Call, ast.keyword)):
                call = par if isinstance(par, ast.Call) else model.up(par)
                if isinstance(call, ast.Call) and isinstance(call.func, ast.Attribute):
                    m = call.func.attr
                    recv = call.func.value
                    pos = call.args.index(n) if n in call.args else None
                    kw = par.arg if isinstance(par, ast.keyword) else None
                    if is_learner(recv) and m in ("pull", "receive_reward") and (pos == 0 or kw in ("time", "t")):
                        ctx.ob("R15-TAINT", True, file, qual, norm_src(call),
                               "time label forwarded as the time argument of a base learner (whose own time parameter is checked)", call.lineno)
                        continue
                    if isinstance(recv, ast.Name) and recv.id == "self":
                        o, callee = model.lookup(cls, m)
                        if callee is not None:
                            ps = [a.arg for a in callee.args.args][1:]
                            pname = ps[pos] if pos is not None and pos < len(ps) else kw
                            if pname in ps:
                                work.append((callee, frozenset([pname])))
                                ctx.ob("R15-TAINT", True, file, qual, norm_src(call),
                                       "time label passed on to %s.%s(%s), analysed in turn" % (cls, m, pname), call.lineno)
                                continue
            ctx.violation("R15-TAINT", file, qual, norm_src(st if st is not None else n),
                          "the time label '%s' is used (not merely stored or forwarded): the run would depend on how rounds are numbered" % n.id,
                          n.lineno)
    # reads of attributes that hold a time label
    for fn in c.methods.values():
        for n in ast.walk(fn):
            if is_self_attr(n) and isinstance(n.ctx, ast.Load) and n.attr in tainted_attrs:
                st = model.enclosing_stmt(n)
                ctx.violation("R15-TAINT", file, "%s.%s" % (cls, fn.name), norm_src(st if st is not None else n),
                              "reads self.%s, which holds the caller's time label (stored at %s)" % (n.attr, tainted_attrs[n.attr]), n.lineno)
    # subclasses / wrappers reading it are covered because wrappers do not touch learner attributes (R15-WRAP below)
    for a, w in tainted_attrs.items():
        ctx.ob("R15-TAINT", True, file, cls, "self.%s" % a, "attribute holds a time label (stored at %s) and is never read in %s" % (w, cls))
    return n_uses, tainted_attrs


def import_taint(ctx, classes, rule, why):
    """Re-report R15-TAINT for `classes` under another property's rule name (the time label must not influence ...)."""
    from ..report import Ctx
    tmp = Ctx(ctx.prop, ctx.tier, ctx.seed, ctx.model)
    for cls in classes:
        if cls in ctx.model.classes:
            taint_class(tmp, cls)
    for o in tmp.obligations:
        ctx.obligations.append(dict(o, rule=rule))
    for f in tmp.findings:
        ctx.add_finding(rule, f.file, f.qual, f.construct, "%s: %s" % (why, f.why), f.line)
    ctx.functions |= tmp.functions


def check_taint(ctx):
    total = 0
    tainted_by_cls = {}
    for cls in TIME_IGNORED:
        if cls not in ctx.model.classes:
            raise AnalysisError("algorithm class %s not found (anchor vanished)" % cls)
        n, ta = taint_class(ctx, cls)
        total += n
        tainted_by_cls[cls] = ta
    ctx.count("R15-TAINT uses of the time parameter examined", total, 10)
    # nobody else reads those attributes through another object (e.g. POO reading learner.iteration)
    model = ctx.model
    names = {a for ta in tainted_by_cls.values() for a in ta}
    for c in model.classes.values():
        if not c.file.startswith("PyXAB/algos/"):
            continue
        for fn in c.methods.values():
            for n in ast.walk(fn):
                if isinstance(n, ast.Attribute) and isinstance(n.ctx, ast.Load) and n.attr in names and not is_self_attr(n) \
                        and not (isinstance(n.value, ast.Name) and n.value.id in ("np", "math")):
                    owners = [k for k, ta in tainted_by_cls.items() if n.attr in ta]
                    ctx.violation("R15-TAINT", c.file, "%s.%s" % (c.name, fn.name), norm_src(model.enclosing_stmt(n) or n),
                                  "reads .%s of another object; that attribute holds a time label in %s" % (n.attr, owners), n.lineno)


# ---------------------------------------------------------------------------


def idem_function(ctx, acc, cls, fn, role, Wtotal, done):
    """No read in `fn` of a location that pull writes may see a value from before the call unless every
    write of that location precedes it: f in must-written, or no write of f is reachable from the read."""
    key = (id(fn), role)
    if key in done:
        return
    done.add(key)
    model = ctx.model
    owner_cls = cls if role == "algo" else acc.node_cls
    file = model.file_of.get(id(fn), model.classes[cls].file)
    qual = "%s.%s" % (owner_cls if role != "module" else "<module>", fn.name)
    ctx.fn(qual)
    g, per = acc.per_node(fn, role)
    MW = acc.must_written(g, per)
    desc = {}
    for n in g.nodes:
        R, W, _ = per[n]
        for f in sorted(R & Wtotal):
            if f in MW.get(n, set()):
                ctx.ob("R15-IDEM", True, file, qual, "%s: read of %s" % (norm_src(_node_src(n)), f),
                       "dominated by a full assignment of %s earlier in the same call" % f, n.line, nontrivial=True)
                continue
            if n not in desc:
                desc[n] = nx.descendants(g.G, n)
            later = [w for w in desc[n] if f in per[w][1] and w is not n]
            on_cycle = n in desc[n]
            self_rw = f in W
            if self_rw and not _is_call_only(n):
                later = later + [n]
            if self_rw and _is_call_only(n) and on_cycle:
                later = later + [n]
            if later:
                ctx.violation("R15-IDEM", file, qual, norm_src(_node_src(n)),
                              "reads %s before a write of it at line %s in the same call: a second pull() (or a get_last_point() query) "
                              "would see a different value than the first" % (f, later[0].line), n.line)
            else:
                ctx.ob("R15-IDEM", True, file, qual, "%s: read of %s" % (norm_src(_node_src(n)), f),
                       "every write of %s in this function precedes the read" % f, n.line)
        # recurse into callees that touch written locations
        for e in E.node_exprs(n):
            for call in ast.walk(e):
                if not isinstance(call, ast.Call) or not isinstance(call.func, ast.Attribute):
                    continue
                m = call.func.attr
                recv = call.func.value
                if isinstance(recv, ast.Name) and recv.id == "self":
                    if role == "algo":
                        o, callee = model.lookup(cls, m)
                        if callee is not None:
                            idem_function(ctx, acc, cls, callee, "algo", Wtotal, done)
                    else:
                        c2, callee = acc.node_method(m)
                        if callee is not None:
                            idem_function(ctx, acc, cls, callee, "node", Wtotal, done)
                elif not acc.is_learner_expr(recv) and not is_self_attr(recv, "partition"):
                    c2, callee = acc.node_method(m)
                    if callee is not None and m not in AC.P_NODE_GETTERS_CONST and m != "get_children":
                        idem_function(ctx, acc, cls, callee, "node", Wtotal, done)


def _node_src(n):
    if n.kind == "test":
        return n.ast.test
    if n.kind == "for":
        return n.ast.iter
    return n.ast


def _is_call_only(n):
    """The node's own syntax neither reads-then-writes a location itself (AugAssign / element store)."""
    a = n.ast
    if n.kind != "stmt":
        return True
    if isinstance(a, ast.AugAssign):
        return False
    if isinstance(a, ast.Assign) and any(isinstance(t, ast.Subscript) for t in a.targets):
        return False
    if isinstance(a, ast.Expr) and isinstance(a.value, ast.Call) and isinstance(a.value.func, ast.Attribute) and \
            a.value.func.attr in E.MUTATING_CONTAINER_METHODS:
        return False
    return True


def check_idem(ctx):
    model = ctx.model
    eff = E.Effects(model)
    for cls in QUERY_SAFE:
        c = model.cls(cls)
        acc = AC.Access(model, eff, cls)
        pull = model.method(cls, "pull")
        glp = model.method(cls, "get_last_point")
        file = c.file
        # get_last_point is pull(<const>)
        body = strip_doc(glp.body)
        okshape = False
        if len(body) == 1 and isinstance(body[0], ast.Return) and _is_pull_const(body[0].value):
            okshape = True
        elif len(body) == 2 and isinstance(body[0], ast.Assign) and _is_pull_const(body[0].value) and isinstance(body[1], ast.Return) \
                and isinstance(body[0].targets[0], ast.Name) and norm_src(body[1].value) == body[0].targets[0].id:
            okshape = True
        ctx.ob("R15-IDEM", okshape, file, "%s.get_last_point" % cls, "get_last_point is pull(<constant>) and nothing else",
               "body: %s" % "; ".join(norm_src(s) for s in body)[:200], glp.lineno)
        ctx.fn("%s.get_last_point" % cls)
        R, W, must = acc.summary(pull, "algo")
        bad = sorted(x for x in W if x in ("TREE", "RNG", "LEARNER") or x.startswith("UNKNOWN"))
        ctx.ob("R15-IDEM", not bad, file, "%s.pull" % cls, "pull neither grows the tree nor draws random numbers",
               "pull's transitive write set: %s%s" % (sorted(W), "; offending: %s" % bad if bad else ""), pull.lineno)
        idem_function(ctx, acc, cls, pull, "algo", set(W), set())
        ctx.extra.setdefault("pull_write_sets", {})[cls] = sorted(W)
    # POO: the query touches no POO state, its only effect is one learner pull
    cls = "POO"
    c = model.cls(cls)
    acc = AC.Access(model, eff, cls)
    glp = model.method(cls, "get_last_point")
    ctx.fn("POO.get_last_point")
    R, W, must = acc.summary(glp, "algo")
    own = sorted(x for x in W if x.startswith("self.") or x in ("TREE", "RNG") or x.startswith("UNKNOWN"))
    ctx.ob("R15-POO", not own, c.file, "POO.get_last_point", "the query writes no POO state",
           "transitive write set %s" % sorted(W), glp.lineno)
    pulls = [x for x in ast.walk(glp) if isinstance(x, ast.Call) and isinstance(x.func, ast.Attribute) and acc.is_learner_expr(x.func.value)]
    ok = len(pulls) == 1 and pulls[0].func.attr == "pull"
    ctx.ob("R15-POO", ok, c.file, "POO.get_last_point", "exactly one learner call, a pull",
           "learner calls: %s" % [norm_src(p) for p in pulls], glp.lineno)


def _is_pull_const(e):
    return (isinstance(e, ast.Call) and isinstance(e.func, ast.Attribute) and e.func.attr == "pull"
            and isinstance(e.func.value, ast.Name) and e.func.value.id == "self"
            and all(isinstance(a, ast.Constant) for a in e.args) and all(isinstance(k.value, ast.Constant) for k in e.keywords)
            and len(e.args) + len(e.keywords) == 1)


def run(ctx):
    check_taint(ctx)
    check_idem(ctx)
    return dict(
        explanation=(
            "TAINT: in each of the 12 algorithms that must ignore time labels, the time parameter of pull and receive_reward is "
            "followed through local copies, own-method calls and attribute stores; the only accepted uses are a plain copy into an "
            "attribute that is never read anywhere in PyXAB/algos and forwarding as the time argument of a base learner (itself in "
            "the list). Any other use - a condition, arithmetic, subscript, argument, return - is reported with the flow. IDEM: for "
            "T-HOO, HCT, VHCT, Zooming get_last_point is exactly pull(<const>); pull's transitive write set (field-based, closed over "
            "own and cell methods) contains no tree growth, RNG draw or learner state, and no read of a location that pull writes can "
            "see a pre-call value unless every write of that location precedes the read (must-written dataflow + reachability on the "
            "CFG) - hence pull;pull == pull and a query between rounds changes nothing the next pull does not overwrite. POO's query "
            "writes no POO state and performs exactly one learner pull."),
        assumptions=[
            "field-based abstraction of cells (all cells of a tree merged per attribute)",
            "pull is called before receive_reward in every round (documented protocol)",
        ],
        technique="taint analysis of the time parameter + read/write effect summaries with must-written dataflow (idempotence of pull)",
    )
