"""C09 - GPO/PCT/VPCT run the published schedule of base learners and validation."""
import ast

import sympy as sp

from .. import cfg as C
from .. import credit as CR
from .. import routes as RT
from .. import summary as SM
from .. import symx as SX
from ..model import calls_in, get_arg, is_self_attr, method_name, strip_doc
from .. import shapes as SH
from ..report import AnalysisError, Ctx, norm_src


def P(name):
    return sp.Symbol(name, positive=True)


def init_stores(ctx, cls):
    model = ctx.model
    init = model.own_method(cls, "__init__")
    Sm = SM.Summarizer(model, cls)
    ps = [p for p in Sm.run(init) if not p.raises]
    if not ps:
        raise AnalysisError("%s.__init__ has no normal exit" % cls)
    return init, ps[0].stores, Sm.T, ps


def check_form(ctx, cls="GPO"):
    model = ctx.model
    c = model.cls(cls)
    init, st, T, all_paths = init_stores(ctx, cls)
    q = "%s.__init__" % cls
    ctx.fn(q)
    rhomax, numax, n = P("rhomax"), P("numax"), P("rounds")
    Dmax = sp.log(2) / sp.log(1 / rhomax)
    want = {"rounds": n, "rhomax": rhomax, "numax": numax, "Dmax": Dmax, "domain": P("domain"), "partition": P("partition"), "algo": P("algo")}
    if cls == "GPO":
        N = sp.ceiling(sp.Rational(1, 2) * Dmax * sp.log((n / 2) / sp.log(n / 2)))
        want.update({"N": N, "half_phase_length": sp.floor(n / (2 * N)), "phase": sp.Integer(1), "counter": sp.Integer(0)})
    for pth in all_paths:
        st = pth.stores
        for a, ref in want.items():
            got = st.get(a)
            if got is None:
                ctx.violation("R09-FORM" if cls == "GPO" else "R10-FORM", c.file, q, "self.%s" % a, "not assigned by the constructor", init.lineno)
                continue
            eq, wit = SX.equivalent(got, ref)
            ctx.ob("R09-FORM" if cls == "GPO" else "R10-FORM", eq is True, c.file, q, "self.%s" % a,
                   "== %s" % ref if eq is True else "is %s, published value is %s%s" % (got, ref, " (differ at %s)" % wit if wit else ""), init.lineno)
    # the constructor builds no learner: learners are started by pull, one per phase (R09-CREATE / R10-APPEND)
    init_ctor = [x for x in ast.walk(init) if isinstance(x, ast.Call) and norm_src(x.func) == "self.algo"]
    ctx.ob("R09-FORM" if cls == "GPO" else "R10-FORM", not init_ctor, c.file, q, "no learner is built by the constructor",
           "none" if not init_ctor else "the constructor builds a learner (%s): the published schedule starts learner i in the first round of phase i"
           % norm_src(init_ctor[0])[:60], init.lineno, nontrivial=False)
    return all_paths[0].stores


FAMILIES = ("T_HOO", "HCT", "VHCT")
ALGO_NAME = ("self.algo.__name__", "self.algo.__qualname__")


_MODEL = [None]


def name_test(csrc):
    """A path condition that tests the base algorithm's name (or class): returns f(family) -> bool, else None."""
    try:
        e = ast.parse(csrc, mode="eval").body
    except SyntaxError:
        return None
    if isinstance(e, ast.Call) and norm_src(e.func) == "issubclass" and len(e.args) == 2 and norm_src(e.args[0]) == "self.algo" and _MODEL[0]:
        bases = [x.id for x in (e.args[1].elts if isinstance(e.args[1], (ast.Tuple, ast.List)) else [e.args[1]]) if isinstance(x, ast.Name)]
        model = _MODEL[0]

        def sub(fam, bases=bases):
            if fam not in model.classes:
                return False
            mro = [c2.name for c2 in model.mro(fam)]
            return any(b in mro for b in bases)
        return sub
    if isinstance(e, ast.Compare) and len(e.ops) == 1 and isinstance(e.ops[0], (ast.Is, ast.Eq)) and \
            {norm_src(e.left), norm_src(e.comparators[0])} & {"self.algo"}:
        other = e.comparators[0] if norm_src(e.left) == "self.algo" else e.left
        if isinstance(other, ast.Name):
            return lambda fam, v=other.id: fam == v
    if isinstance(e, ast.Compare) and len(e.ops) == 1:
        l, r, op = e.left, e.comparators[0], e.ops[0]
        if isinstance(op, ast.Eq):
            for a, b in ((l, r), (r, l)):
                if norm_src(a) in ALGO_NAME and isinstance(b, ast.Constant) and isinstance(b.value, str):
                    return lambda fam, v=b.value: fam == v
        if isinstance(op, ast.In) and norm_src(l) in ALGO_NAME and isinstance(r, (ast.Tuple, ast.List, ast.Set)) and \
                all(isinstance(x, ast.Constant) and isinstance(x.value, str) for x in r.elts):
            return lambda fam, vs=tuple(x.value for x in r.elts): fam in vs
    return None


def check_learner_construction(ctx, cls, rule):
    """rho grid and constructor arguments of every base learner, decided path by path on pull (aliases, keyword dictionaries
    and temporaries expanded): for each supported family, on every path consistent with `algo.__name__ == family` that starts
    a learner, the constructor call is self.algo(nu=numax, rho=rhomax^(2N/(2i+1)), domain, partition[, rounds for T_HOO])."""
    model = ctx.model
    c = model.cls(cls)
    pull = model.own_method(cls, "pull")
    q = "%s.pull" % cls
    ctx.fn(q)
    _MODEL[0] = model
    fn, params, paths, fns = CR.method_paths(model, cls, "pull", nomerge=True)
    T = SX.Translator(positive=True)
    T.attr_cb = lambda e: T.sym(e.attr) if is_self_attr(e) else None
    ref_rho = T.sym("rhomax") ** (2 * T.sym("N") / (2 * T.sym("phase") + 1))

    def ctor_writes(p):
        return [w for w in p.writes if w[0] == "self.curr_algo" and w[2] and w[2].startswith("self.algo(")]
    if not any(ctor_writes(p) for p in paths):
        ctx.violation(rule, c.file, q, "learner construction", "obligation not discharged: no path of pull builds a learner (self.curr_algo = "
                      "self.algo(..)); where and with which (nu, rho) the learner of a phase is started cannot be established", pull.lineno)
        return []

    def consistent(p, fam):
        for csrc, pol in p.conds:
            t = name_test(csrc)
            if t is not None and t(fam) != pol:
                return False
        return True

    def prefix(p):
        out = []
        for csrc, pol in p.conds:
            if name_test(csrc) is not None:
                break
            out.append((csrc, pol))
        return tuple(out)
    creating_prefixes = {prefix(p) for p in paths if ctor_writes(p)}
    rho_ok = True
    rho_seen = set()
    covered = set()
    for fam in FAMILIES:
        cons = [p for p in paths if consistent(p, fam)]
        for p in cons:
            cw = ctor_writes(p)
            if not cw:
                if prefix(p) in creating_prefixes:
                    ctx.violation(rule, c.file, q, "constructor branch for each supported learner",
                                  "no learner is built for base algorithm %s on the path [%s] although other families start one there: the "
                                  "learner slot stays empty or stale" % (fam, " and ".join("%s%s" % ("" if pol else "not ", x) for x, pol in prefix(p))),
                                  pull.lineno)
                continue
            covered.add(fam)
            if len(cw) != 1:
                ctx.violation(rule, c.file, q, "learner construction (%s)" % fam, "%d constructor calls on one path" % len(cw), pull.lineno)
                continue
            call = ast.parse(cw[0][2], mode="eval").body
            if call.args or any(k.arg is None for k in call.keywords):
                ctx.violation(rule, c.file, q, cw[0][2][:100],
                              "learner constructed with positional / ** arguments that cannot be resolved: that every family receives nu=nu_max, "
                              "rho=rho_i and the caller's domain/partition cannot be established (obligation not discharged)", pull.lineno)
                continue
            kw = {k.arg: k.value for k in call.keywords}
            want = {"nu": "self.numax", "domain": "self.domain", "partition": "self.partition"}
            if fam == "T_HOO":
                want["rounds"] = "self.rounds"
            okk = set(kw) == set(want) | {"rho"} and all(norm_src(kw[a]) == v for a, v in want.items())
            okr = False
            if "rho" in kw:
                try:
                    okr = SX.equivalent(T.tr(kw["rho"]), ref_rho)[0] is True
                except SX.Untranslatable:
                    okr = False
                rho_seen.add(norm_src(kw["rho"]))
            rho_ok &= okr
            ctx.ob(rule, okk, c.file, q, "%s: %s" % (fam, cw[0][2][:100]), "learner built with (nu_max, rho_i) and the caller's domain/partition" if okk else
                   "constructor arguments %s, expected %s + rho" % ({a: norm_src(v) for a, v in kw.items()}, want), pull.lineno)
    ctx.ob(rule, rho_ok and bool(rho_seen), c.file, q, "rho_i = rhomax^(2N/(2i+1))", "%s" % sorted(rho_seen) if rho_seen else "no rho", pull.lineno)
    ctx.ob(rule, covered == set(FAMILIES), c.file, q, "constructor branch for each supported learner", "%s" % sorted(covered), pull.lineno)
    for f in fns:
        ctx.fn(f)
    return [x for x in ast.walk(pull) if isinstance(x, ast.Call) and norm_src(x.func) == "self.algo"]


def check_create_guard(ctx):
    model = ctx.model
    c = model.cls("GPO")
    pull = model.own_method("GPO", "pull")
    g = C.CFG(pull)
    q = "GPO.pull"
    for x in [x for x in ast.walk(pull) if isinstance(x, ast.Call) and norm_src(x.func) == "self.algo"]:
        at = g.node_of(x)
        atoms = [a for a, t, lab, e in C.facts_at(g, at)]
        ok = ("==", "0", "self.counter") in atoms and ("<=", "self.phase", "self.N") in atoms
        ctx.ob("R09-CREATE", ok, c.file, q, norm_src(x)[:60], "created exactly at the first round of a phase (counter == 0) while phases remain"
               if ok else "creation guards are %s" % atoms, x.lineno)
    # curr_algo assigned only there; phase / counter never written in pull
    for fn in c.methods.values():
        for s in ast.walk(fn):
            tg = s.targets if isinstance(s, ast.Assign) else ([s.target] if isinstance(s, (ast.AugAssign, ast.AnnAssign)) else [])
            for t in tg:
                if is_self_attr(t) and t.attr in ("phase", "counter", "N", "half_phase_length") and fn.name not in ("__init__", "receive_reward"):
                    ctx.violation("R09-ROUTE", c.file, "GPO.%s" % fn.name, norm_src(s),
                                  "schedule state self.%s is changed outside receive_reward: the reward of the round is routed by a different "
                                  "state than its point, and 'counter == 0' may never be seen by pull" % t.attr, s.lineno)
                if is_self_attr(t, "curr_algo") and fn.name not in ("__init__", "pull"):
                    ctx.violation("R09-CREATE", c.file, "GPO.%s" % fn.name, norm_src(s), "the current learner is replaced outside pull's creation branch", s.lineno)


def check_phase_machine(ctx):
    """receive_reward: counter += 1 once per unfinished round; when it reaches 2*half: phase += 1, counter = 0."""
    model = ctx.model
    c = model.cls("GPO")
    rr = model.own_method("GPO", "receive_reward")
    q = "GPO.receive_reward"
    g = C.CFG(rr)
    incs = [n for n in g.nodes if n.kind == "stmt" and SH.is_increment(n.ast, "self.counter")]
    ok = len(incs) == 1
    ctx.ob("R09-PHASE", ok, c.file, q, "self.counter += 1", "%d increment site(s)" % len(incs), rr.lineno)
    if not ok:
        return
    inc = incs[0]
    atoms = [a for a, t, lab, e in C.facts_at(g, inc)]
    ctx.ob("R09-PHASE", atoms == [("<=", "self.phase", "self.N")], c.file, q, "the round counter advances on every unfinished round",
           "guards: %s" % atoms, inc.line)
    # every credit path passes the increment afterwards
    credits = [n for n in g.nodes if n.ast is not None and n.kind == "stmt" and any(
        isinstance(x, ast.Call) and method_name(x) == "receive_reward" for x in ast.walk(n.ast)) or
        n.kind == "stmt" and isinstance(n.ast, ast.Assign) and norm_src(n.ast.targets[0]).startswith("self.V_reward[")]
    for n in credits:
        ctx.ob("R09-PHASE", g.must_pass(n, [inc], [g.exit]), c.file, q, norm_src(n.ast)[:60], "followed by the counter increment on every path", n.line)
    # roll-over
    roll = [n for n in g.nodes if n.kind == "stmt" and SH.is_increment(n.ast, "self.phase")]
    okr = len(roll) == 1
    if okr:
        atoms = [a for a, t, lab, e in C.facts_at(g, roll[0])]
        okr = ("<=", "2 * self.half_phase_length", "self.counter") in atoms and g.dominates(inc, roll[0])
        reset = [n for n in g.nodes if n.kind == "stmt" and norm_src(n.ast) == "self.counter = 0"]
        okr = okr and len(reset) == 1 and CS_together(model, roll[0], reset[0])
    ctx.ob("R09-PHASE", okr, c.file, q, "phase ends after 2*floor(n/2N) rounds: phase += 1; counter = 0",
           "roll-over guarded by counter >= 2*half after the increment" if okr else "roll-over not recognised", rr.lineno)
    # routing split inside a phase: counter < half -> learner, else validation
    fn, params, paths, fns = CR.credit_paths(model, "GPO")
    for p in paths:
        kinds = [e[0] for e in p.events if e[0] in ("learner", "mean")]
        cd = dict(p.conds)
        if kinds == ["learner"]:
            ok = cd.get("self.counter < self.half_phase_length") is True
            ctx.ob("R09-PHASE", ok, c.file, q, "learner rounds are the first floor(n/2N) rounds of a phase", "%s" % p.conds[:3], rr.lineno)
        if kinds == ["mean"]:
            ok = cd.get("self.counter < self.half_phase_length") is False
            ctx.ob("R09-PHASE", ok, c.file, q, "validation rounds are the last floor(n/2N) rounds of a phase", "%s" % p.conds[:3], rr.lineno)


def CS_together(model, a, b):
    pa, pb = model.up(a.ast), model.up(b.ast)
    return pa is pb


def check_validation(ctx):
    model = ctx.model
    c = model.cls("GPO")
    pull = model.own_method("GPO", "pull")
    q = "GPO.pull"
    g = C.CFG(pull)
    # goodx = the learner's latest proposal (path-wise: on every path that asks the learner, self.goodx receives
    # exactly that proposal and the proposal is what pull returns; on every other unfinished path pull returns goodx)
    pf, pparams, ppaths, pfns = CR.method_paths(model, "GPO", "pull")
    ok = bool(ppaths)
    detail = []
    for p in ppaths:
        lp = [e for e in p.events if e[0] == "lpull"]
        rets = [e for e in p.events if e[0] == "ret"]
        gw = [w for w in p.writes if w[0] == "self.goodx"]
        cd = dict(p.conds)
        if lp:
            call_src = "%s.pull(%s)" % (lp[0][1], ", ".join(lp[0][2]))
            good = len(lp) == 1 and lp[0][1] == "self.curr_algo" and len(gw) == 1 and gw[0][2] == call_src and \
                len(rets) == 1 and rets[0][1] in ("self.goodx", call_src) and cd.get("self.counter < self.half_phase_length") is True
            detail.append("learner round: goodx <- %s, returns %s" % (gw[0][2] if gw else None, rets[0][1] if rets else None))
        else:
            good = not gw and len(rets) == 1 and rets[0][1] == "self.goodx"
            detail.append("validation/finished: returns %s" % (rets[0][1] if rets else None))
        ok &= good
    ctx.ob("R09-VALID", ok, c.file, q, "learner rounds store the learner's proposal in goodx and return it; all other rounds return goodx",
           "; ".join(sorted(set(detail))), pull.lineno)
    # slot creation: V_x.append(goodx) and V_reward.append(0) once per phase, at counter == half
    slot_paths = [p for p in ppaths if any(w[0] in ("self.V_x[]", "self.V_reward[]") for w in p.writes)]
    ok = bool(slot_paths)
    for p in slot_paths:
        wx = [w for w in p.writes if w[0] == "self.V_x[]"]
        wr = [w for w in p.writes if w[0] == "self.V_reward[]"]
        cd = dict(p.conds)
        eqh = [c0 for c0, pol in p.conds if pol and c0 in ("self.counter == self.half_phase_length", "self.half_phase_length == self.counter")]
        ok &= len(wx) == 1 and len(wr) == 1 and wx[0][2] == "self.goodx" and wr[0][2] == "0" and bool(eqh) and ".append(" in wx[0][1] and ".append(" in wr[0][1]
    ctx.ob("R09-VALID", ok, c.file, q, "one validation slot per phase: V_x.append(goodx); V_reward.append(0) when counter == half",
           "%d path(s) create a slot" % len(slot_paths) if ok else "slot creation not recognised: %s" % [[w[1] for w in p.writes] for p in slot_paths][:2],
           pull.lineno)
    for fn in c.methods.values():
        if fn.name in ("__init__", "pull"):
            continue
        for x in ast.walk(fn):
            if isinstance(x, ast.Call) and isinstance(x.func, ast.Attribute) and is_self_attr(x.func.value) and x.func.value.attr in ("V_x", "V_reward") \
                    and x.func.attr in ("append", "extend", "pop", "insert", "remove", "clear"):
                ctx.violation("R09-VALID", c.file, "GPO.%s" % fn.name, norm_src(x), "validation slots are changed outside pull's slot creation", x.lineno)
    # running mean over counter - half, target slot phase-1
    fn, params, paths, fns = CR.credit_paths(model, "GPO")
    from . import c04
    tmp = Ctx(ctx.prop, ctx.tier, ctx.seed, model)
    c04.check_means(tmp, c, (fn, params, paths, fns), params[2])
    rm = tmp.extra.get("running_means", {})
    key = "GPO:self.V_reward[self.phase - 1]"
    cnt = rm.get(key)
    ok = cnt is not None and cnt.replace("self.", "") in ("counter - half_phase_length", "-half_phase_length + counter")
    ctx.ob("R09-VALID", ok, c.file, "GPO.receive_reward", "validation score = running mean of the validation rewards of this phase",
           "slot V_reward[phase-1], count = %s" % cnt if ok else "running means found: %s" % rm, fn.lineno)


def run(ctx):
    model = ctx.model
    c = model.cls("GPO")
    ctx.attempt("R09-FORM", c.file, "GPO.__init__", "schedule constants", check_form, ctx, "GPO")
    ctx.attempt("R09-FORM", c.file, "GPO.pull", "learner construction", check_learner_construction, ctx, "GPO", "R09-FORM")
    ctx.attempt("R09-CREATE", c.file, "GPO.pull", "creation guard", check_create_guard, ctx)
    ctx.attempt("R09-ROUTE", c.file, "GPO", "routing", RT.check_route, ctx, c, "R09-ROUTE")
    ctx.attempt("R09-PHASE", c.file, "GPO.receive_reward", "phase machine", check_phase_machine, ctx)
    ctx.attempt("R09-VALID", c.file, "GPO.pull", "validation", check_validation, ctx)
    from . import c07
    tmp = Ctx(ctx.prop, ctx.tier, ctx.seed, model)
    c07.check_wrappers(tmp)
    for o in tmp.obligations:
        if "GPO" in o["where"] or "PCT" in o["where"]:
            ctx.obligations.append(dict(o, rule=o["rule"].replace("R07-ARGMAX", "R09-FINAL").replace("R07-DELEG", "R09-DELEG")))
    for f in tmp.findings:
        if f.qual.startswith(("GPO", "PCT", "VPCT")):
            ctx.add_finding(f.rule.replace("R07-ARGMAX", "R09-FINAL").replace("R07-DELEG", "R09-DELEG"), f.file, f.qual, f.construct, f.why, f.line)
    ctx.functions |= tmp.functions
    return dict(
        explanation=(
            "FORM: the constructor's N, D_max, floor(n/2N) and the per-phase rho = rhomax^(2N/(2i+1)) are proved equal (sympy) to the "
            "published formulas; every learner is built with (nu_max, rho_i), the caller's domain/partition (rounds for T-HOO); since the "
            "exponent is injective in i and the phase number advances by one per phase, the rho are distinct. CREATE: a learner is created "
            "only under counter == 0 and phase <= N, and becomes the current learner. ROUTE: pull and receive_reward route by the same "
            "guards to the same learner designator; pull writes no schedule state (phase, counter, N, half) - the statically visible "
            "cause of the earlier 'one learner only' defect. PHASE: receive_reward increments the round counter once on every "
            "unfinished round, after the credit; the first floor(n/2N) rounds of a phase go to the learner, the rest to validation; "
            "the phase rolls over exactly when the counter reaches 2*floor(n/2N). VALID: goodx is the learner's last proposal; one "
            "validation slot per phase is created with it; validation rounds return it; its score is the running mean with count "
            "counter - half. FINAL/DELEG (with C07): argmax of scores fixed when the last phase ends; PCT/VPCT are pure forwards. Not "
            "decided: the schedule as a time series over a concrete n."),
        assumptions=["positive parameters, n >= 100", "pull/receive_reward alternate"],
        technique="sympy equivalence of schedule formulas + CFG guard analysis of the phase machine + routing agreement pull/receive_reward",
    )
