"""C10 - POO routes each round to one base learner and scores learners by true means."""
import ast

import sympy as sp

from .. import cfg as C
from .. import credit as CR
from .. import routes as RT
from .. import symx as SX
from ..model import is_self_attr, method_name, strip_doc
from ..symx import safe_simplify
from .. import shapes as SH
from ..report import AnalysisError, Ctx, norm_src
from . import c09

LISTS = ("V_algo", "V_reward", "Times")


def check_append_only(ctx):
    model = ctx.model
    c = model.cls("POO")
    pull = model.own_method("POO", "pull")
    n = 0
    blocks = set()
    for fn in c.methods.values():
        q = "POO.%s" % fn.name
        ctx.fn(q)
        for x in ast.walk(fn):
            if isinstance(x, ast.Call) and isinstance(x.func, ast.Attribute) and is_self_attr(x.func.value) and x.func.value.attr in LISTS:
                m = x.func.attr
                if m == "append":
                    n += 1
                    ok = fn.name == "pull"
                    ctx.ob("R10-APPEND", ok, c.file, q, norm_src(x), "learner registered in pull's creation branch" if ok else
                           "learner lists are extended outside pull's creation branch", x.lineno)
                    blocks.add(id(model.up(model.enclosing_stmt(x))))
                elif m in ("pop", "remove", "clear", "insert", "extend", "sort", "reverse"):
                    ctx.violation("R10-APPEND", c.file, q, norm_src(x), "learners are only ever added (append); %s() removes or reorders them" % m, x.lineno)
            tg = x.targets if isinstance(x, ast.Assign) else ([x.target] if isinstance(x, (ast.AugAssign, ast.AnnAssign)) else [])
            for t in tg:
                if is_self_attr(t) and t.attr in LISTS and fn.name != "__init__":
                    ctx.violation("R10-APPEND", c.file, q, norm_src(x), "the learner list self.%s is replaced" % t.attr, x.lineno)
                if isinstance(t, ast.Subscript) and is_self_attr(t.value, "V_algo"):
                    ctx.violation("R10-APPEND", c.file, q, norm_src(x), "a registered learner is overwritten", x.lineno)
    ctx.ob("R10-APPEND", n == 3 and len(blocks) == 1, c.file, "POO.pull", "V_algo, V_reward, Times grow together",
           "%d append(s) in %d block(s)" % (n, len(blocks)), pull.lineno)
    # the appended learner is the one just created, scores/counts start at 0
    apps = {norm_src(x.func): norm_src(x.args[0]) for x in ast.walk(pull)
            if isinstance(x, ast.Call) and isinstance(x.func, ast.Attribute) and x.func.attr == "append" and is_self_attr(x.func.value)}
    ok = apps == {"self.V_algo.append": "self.curr_algo", "self.V_reward.append": "0", "self.Times.append": "0"}
    ctx.ob("R10-APPEND", ok, c.file, "POO.pull", "new learner registered with score 0 and count 0", "%s" % apps, pull.lineno)
    # creation guard
    g = C.CFG(pull)
    for x in [x for x in ast.walk(pull) if isinstance(x, ast.Call) and norm_src(x.func) == "self.algo"]:
        atoms = [a for a, t, lab, e in C.facts_at(g, g.node_of(x))]
        ok = ("==", "0", "self.counter") in atoms
        ctx.ob("R10-APPEND", ok, c.file, "POO.pull", norm_src(x)[:60], "a learner is created at the first round of its phase (counter == 0)" if ok
               else "creation guards: %s" % atoms, x.lineno)


def check_index(ctx):
    """R10-IDX: score and count are updated at the credited learner's own index, count by one."""
    model = ctx.model
    c = model.cls("POO")
    fn, params, paths, fns = CR.credit_paths(model, "POO")
    q = "POO.receive_reward"
    for p in paths:
        ls = [e for e in p.events if e[0] == "learner"]
        ms = [e for e in p.events if e[0] == "mean"]
        if len(ls) != 1:
            continue
        L = ls[0][1]
        if not (L.startswith("self.V_algo[") and L.endswith("]")):
            ctx.violation("R10-IDX", c.file, q, L, "the rewarded learner is not designated by its index in V_algo", fn.lineno)
            continue
        k = L[len("self.V_algo["):-1]
        okm = len(ms) == 1 and ms[0][1] == "self.V_reward[%s]" % k
        ctx.ob("R10-IDX", okm, c.file, q, "score updated at index [%s]" % k, "%s" % [m[1] for m in ms], fn.lineno)
        tw = [w for w in p.writes if w[0].startswith("self.Times[")]
        okt = len(tw) == 1 and tw[0][0] == "self.Times[%s]" % k and tw[0][1] in (
            "self.Times[%s] += 1" % k, "self.Times[%s] = self.Times[%s] + 1" % (k, k))
        ctx.ob("R10-IDX", okt, c.file, q, "count incremented once at index [%s]" % k, "%s" % [w[1] for w in tw], fn.lineno)
        # the index state must not change between the three uses: since aliases are invalidated on writes, the three
        # designators above were expanded at their own program points; equal text therefore means equal state
        seq = list(p.seq)
        idx_deps = RT.deps_of_src(k) if "self." in k else set()
        pos_last_use = max([i for i, it in enumerate(seq) if (it[0] == "ev" and it[1][0] in ("learner", "mean")) or
                            (it[0] == "w" and it[1].startswith("self.Times["))] or [0])
        early = [it[1] for i, it in enumerate(seq) if it[0] == "w" and i < pos_last_use and it[1].split("[")[0] in idx_deps]
        ctx.ob("R10-IDX", not early, c.file, q, "index [%s] is stable across learner / score / count" % k,
               "no write to %s before the last of the three updates" % sorted(idx_deps) if not early else "index state %s changes in between" % early, fn.lineno)


def check_means(ctx):
    model = ctx.model
    c = model.cls("POO")
    fn, params, paths, fns = CR.credit_paths(model, "POO")
    from . import c04
    tmp = Ctx(ctx.prop, ctx.tier, ctx.seed, model)
    c04.check_means(tmp, c, (fn, params, paths, fns), params[2])
    for o in tmp.obligations:
        ctx.obligations.append(dict(o, rule="R10-MEAN"))
    for f in tmp.findings:
        ctx.add_finding("R10-MEAN", f.file, f.qual, f.construct, f.why, f.line)
    rm = {k: v.replace("self.", "") for k, v in tmp.extra.get("running_means", {}).items()}
    q = "POO.receive_reward"
    a = rm.get("POO:self.V_reward[-1]")
    ctx.ob("R10-MEAN", a == "counter", c.file, q, "creation stage: score = running mean with count = rounds of this learner so far",
           "count expression: %s" % a, fn.lineno)
    # counter: +1 per creation-stage round, reset to 0 exactly when a learner's phase ends (so it counts this learner's rewards)
    g = C.CFG(fn)
    incs = [n for n in g.nodes if n.kind == "stmt" and SH.is_increment(n.ast, "self.counter")]
    ok = len(incs) == 1 and any(a2 == ("<=", "self.N", "0.5 * self.Dmax * np.log(self.n / np.log(self.n))") for a2, t, lab, e in C.facts_at(g, incs[0]))
    ctx.ob("R10-MEAN", ok, c.file, q, "self.counter += 1 once per creation-stage round", "%d site(s)" % len(incs), fn.lineno)
    b = rm.get("POO:self.V_reward[self.algo_counter]")
    T = SX.Translator(positive=True)
    okb = False
    if b is not None:
        try:
            got = sp.sympify(b.replace("ceiling", "ceiling"), locals={"n": sp.Symbol("n", positive=True), "N": sp.Symbol("N", positive=True)})
            okb = safe_simplify(got - sp.ceiling(sp.Symbol("n", positive=True) / sp.Symbol("N", positive=True))) == 0
        except Exception:
            okb = False
    ctx.ob("R10-MEAN", okb, c.file, q, "round-robin stage: weight of the old score is ceil(n/N) computed from the current n and N",
           "count expression: %s (that this equals the learner's reward count is a schedule invariant over histories and is not decided here)" % b,
           fn.lineno)
    # n, N only change at the documented places
    for f2 in c.methods.values():
        for s in ast.walk(f2):
            tg = s.targets if isinstance(s, ast.Assign) else ([s.target] if isinstance(s, (ast.AugAssign, ast.AnnAssign)) else [])
            for t in tg:
                if is_self_attr(t) and t.attr in ("n", "N", "phase", "counter", "algo_counter") and f2.name not in ("__init__", "receive_reward"):
                    ctx.violation("R10-ROUTE", c.file, "POO.%s" % f2.name, norm_src(s),
                                  "schedule state self.%s is changed outside receive_reward" % t.attr, s.lineno)


def check_phase_range(ctx):
    """rho_i = rhomax^(2N/(2i+1)) lies in (0, rhomax) iff the exponent exceeds 1 iff the phase index i stays below N.  Invariant
    i < N, by induction over receive_reward: every increment of self.phase is followed, before the method returns and before
    phase or N change again, by the test `phase >= N`, whose true branch resets the phase to a constant 0 or 1 (N starts at 2 and
    is only ever doubled); the constructor starts with phase < N."""
    model = ctx.model
    c = model.cls("POO")
    rr = model.own_method("POO", "receive_reward")
    q = "POO.receive_reward"
    g = C.CFG(rr)

    def is_inc(a):
        return (isinstance(a, ast.AugAssign) and is_self_attr(a.target, "phase") and isinstance(a.op, ast.Add) and norm_src(a.value) == "1") or \
            (isinstance(a, ast.Assign) and len(a.targets) == 1 and is_self_attr(a.targets[0], "phase") and
             norm_src(a.value) in ("self.phase + 1", "1 + self.phase"))

    def is_reset(a):
        return isinstance(a, ast.Assign) and len(a.targets) == 1 and is_self_attr(a.targets[0], "phase") and isinstance(a.value, ast.Constant) and \
            a.value.value in (0, 1) and not isinstance(a.value.value, bool)
    incs = [n for n in g.nodes if n.kind == "stmt" and is_inc(n.ast)]
    resets = [n for n in g.nodes if n.kind == "stmt" and is_reset(n.ast)]
    writers = [n for n in g.nodes if n.kind == "stmt" and isinstance(n.ast, (ast.Assign, ast.AugAssign)) and
               any(is_self_attr(t, "phase") or is_self_attr(t, "N") for t in (n.ast.targets if isinstance(n.ast, ast.Assign) else [n.ast.target]))]
    other = [n for n in writers if n not in incs and n not in resets and not any(is_self_attr(t, "N") for t in (
        n.ast.targets if isinstance(n.ast, ast.Assign) else [n.ast.target]))]
    ctx.ob("R10-FORM", not other, c.file, q, "self.phase is only incremented by one or reset to 0/1",
           "%s" % [norm_src(n.ast) for n in other] if other else "%d increment(s), %d reset(s)" % (len(incs), len(resets)), rr.lineno)
    tests = []
    for n in g.nodes:
        if n.kind == "test":
            atoms = [C.atom_of(e, pol) for e, pol in C.flatten_cond(n.ast.test, True)]
            if atoms == [("<=", "self.N", "self.phase")]:
                tests.append(n)
    ok = bool(incs)
    why = "every increment is followed by `phase >= N` -> reset"
    for inc in incs:
        # every path from the increment to the exit meets such a test before phase / N are written again
        blockers = [w for w in writers if w is not inc]
        free = g.paths_avoiding(inc, g.exit, tests)
        if free:
            ok = False
            why = "after '%s' (line %s) the method can return without testing `phase >= N` (the phase index may reach N: rho_i >= rhomax)" % (
                norm_src(inc.ast), inc.line)
            break
        for t in tests:
            if not g.paths_avoiding(inc, t, [x for x in tests if x is not t]):
                continue
            if any(g.paths_avoiding(inc, w, tests) for w in blockers if w is not t):
                ok = False
                why = "phase or N is written between the increment and the test"
            # true edge: reset before exit
            for s2 in g.succ_by_label(t, True):
                if s2 not in resets and g.paths_avoiding(s2, g.exit, resets):
                    ok = False
                    why = "`phase >= N` holds but the phase is not reset on some path (line %s)" % t.line
    ctx.ob("R10-FORM", ok, c.file, q, "the phase index stays below N: rho_i in (0, rhomax)", why, rr.lineno)
    init = model.own_method("POO", "__init__")
    vals = {}
    for st in ast.walk(init):
        if isinstance(st, ast.Assign) and len(st.targets) == 1 and is_self_attr(st.targets[0]) and st.targets[0].attr in ("phase", "N") and \
                isinstance(st.value, ast.Constant):
            vals[st.targets[0].attr] = st.value.value
    ok0 = "phase" in vals and "N" in vals and 0 <= vals["phase"] < vals["N"] and vals["N"] >= 2
    ctx.ob("R10-FORM", ok0, c.file, "POO.__init__", "initially 0 <= phase < N and N >= 2", "%s" % vals, init.lineno)
    # other methods do not write phase / N
    for m, f2 in c.methods.items():
        if m in ("__init__", "receive_reward"):
            continue
        w2 = [x for x in ast.walk(f2) if isinstance(x, ast.Attribute) and isinstance(x.ctx, ast.Store) and is_self_attr(x) and x.attr in ("phase", "N")]
        ctx.ob("R10-FORM", not w2, c.file, "POO.%s" % m, "phase and N are advanced by receive_reward only", "%d store(s)" % len(w2), f2.lineno,
               nontrivial=False)


def run(ctx):
    model = ctx.model
    c = model.cls("POO")
    ctx.attempt("R10-FORM", c.file, "POO.__init__", "schedule constants", c09.check_form, ctx, "POO")
    ctx.attempt("R10-FORM", c.file, "POO.pull", "learner construction", c09.check_learner_construction, ctx, "POO", "R10-FORM")
    ctx.attempt("R10-ROUTE", c.file, "POO", "routing", RT.check_route, ctx, c, "R10-ROUTE")
    # the creation/round-robin decision is literally the same test in both methods
    pull = model.own_method("POO", "pull")
    rr = model.own_method("POO", "receive_reward")
    # decided on the path conditions (atomic tests, aliases expanded): both methods branch on one and the same test, evaluated
    # on the state they are entered with, and that test is N <= 0.5*Dmax*ln(n/ln n)
    pf, pparams, ppaths, _f1 = CR.method_paths(model, "POO", "pull")
    rf, rparams, rpaths, _f2 = CR.credit_paths(model, "POO")
    pc = {c0 for p in ppaths for c0, _pol in CR.entry_conds(p)}
    rc = {c0 for p in rpaths for c0, _pol in CR.entry_conds(p)}
    T = SX.Translator(positive=True)
    T.attr_cb = lambda e: T.sym(e.attr) if is_self_attr(e) else None
    n, N, D = T.sym("n"), T.sym("N"), T.sym("Dmax")
    ref = sp.Rational(1, 2) * D * sp.log(n / sp.log(n))
    hit = None
    for c0 in sorted(pc & rc):
        try:
            e = ast.parse(c0, mode="eval").body
        except SyntaxError:
            continue
        if isinstance(e, ast.Compare) and len(e.ops) == 1 and isinstance(e.ops[0], (ast.LtE, ast.GtE, ast.Lt, ast.Gt)):
            a, b = e.left, e.comparators[0]
            if isinstance(e.ops[0], (ast.GtE, ast.Gt)):
                a, b = b, a
            strict = isinstance(e.ops[0], (ast.Lt, ast.Gt))
            try:
                la, lb = T.tr(a), T.tr(b)
            except SX.Untranslatable:
                continue
            # N <= ref  (or its negation ref < N, which splits the rounds the same way)
            if not strict and SX.equivalent(la, N)[0] is True and SX.equivalent(lb, ref)[0] is True:
                hit = c0
            if strict and SX.equivalent(la, ref)[0] is True and SX.equivalent(lb, N)[0] is True:
                hit = c0
    okp = hit is not None and all(any(c0 == hit for c0, _ in CR.entry_conds(p)) for p in ppaths if any(e2[0] == "lpull" for e2 in p.events))
    okr = hit is not None and all(any(c0 == hit for c0, _ in CR.entry_conds(p)) for p in rpaths if any(e2[0] == "learner" for e2 in p.events))
    ctx.ob("R10-FORM", okp and okr, c.file, "POO", "creation vs round-robin: N <= 0.5*Dmax*ln(n/ln n), same test in pull and receive_reward",
           hit if (okp and okr) else "tests shared by pull and receive_reward: %s; none is the published one on every learner path" % sorted(pc & rc),
           pull.lineno)
    ctx.attempt("R10-FORM", c.file, "POO.receive_reward", "phase index range", check_phase_range, ctx)
    ctx.attempt("R10-APPEND", c.file, "POO", "learner lists", check_append_only, ctx)
    ctx.attempt("R10-IDX", c.file, "POO.receive_reward", "indices", check_index, ctx)
    ctx.attempt("R10-MEAN", c.file, "POO.receive_reward", "running means", check_means, ctx)
    from . import c07, c14, c15
    c14.import_iso(ctx, ["POO"], "R10-APPEND", "the learner, score and count lists belong to one POO object (a fresh POO has no learners)")
    c15.import_taint(ctx, ["POO", "T_HOO", "HCT", "VHCT"], "R10-TIME",
                     "get_last_point is the next proposal of the best learner only if a learner's choice does not depend on the time label it is given")
    tmp = Ctx(ctx.prop, ctx.tier, ctx.seed, model)
    c07.check_wrappers(tmp)
    c15.check_idem(tmp)
    for o in tmp.obligations:
        if "POO" in o["where"]:
            ctx.obligations.append(dict(o, rule="R10-FINAL"))
    for f in tmp.findings:
        if f.qual.startswith("POO"):
            ctx.add_finding("R10-FINAL", f.file, f.qual, f.construct, f.why, f.line)
    return dict(
        explanation=(
            "ROUTE/ONE: every path of POO.pull asks exactly one learner and every path of receive_reward rewards exactly one; for every "
            "pair of paths with non-contradicting shared guards the two learner designators are identical; pull writes nothing the "
            "shared guard or a designator reads after the learner was asked; schedule state changes only in receive_reward. APPEND: "
            "V_algo, V_reward, Times are only extended, together, in pull's creation branch under counter == 0, with the new learner, "
            "0 and 0; no element of V_algo is overwritten, nothing is removed. FORM: D_max, the rho grid rhomax^(2N/(2i+1)) and the "
            "constructor arguments (nu_max!) of each learner family; the creation test is the published one and literally the same in "
            "both methods. IDX: score and count are updated at the rewarded learner's own index, the count by exactly one, and the "
            "index state changes only afterwards. MEAN: creation-stage score is a running mean whose count is the per-learner round "
            "counter; round-robin weight is ceil(n/N) from the current n, N. FINAL: get_last_point = V_algo[argmax V_reward].pull and "
            "writes no POO state. Not decided: that ceil(n/N) equals the learner's reward count (a schedule invariant over histories) "
            "and pairwise distinctness of the rho values as numbers."),
        assumptions=["rhomax for which POO starts (>= 0.84; smaller values are C01's known finding)", "pull/receive_reward alternate"],
        technique="routing agreement analysis + append-only/index/running-mean shape checks + sympy formula equivalence",
    )
