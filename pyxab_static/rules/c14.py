"""C14 - runs are reproducible, instances are isolated, user inputs are not mutated.

Three non-interference facts decided on the source of PyXAB/algos and
PyXAB/partition:
  R14-SRC  no entropy / clock / identity / hash-order source other than numpy's global generator
  R14-ISO  no state shared between instances (class-level or module-level mutable state, mutable
           defaults, global/nonlocal, caches on classes or functions)
  R14-MUT  the user's `domain` object is never modified (alias + mutation analysis; in
           PyXAB/partition additionally by the abstract interpreter E5)
"""
import ast

from ..model import call_name, is_self_attr, method_name
from ..report import AnalysisError, norm_src
from . import _partition

SCAN = ("PyXAB/algos/", "PyXAB/partition/")
FORBIDDEN_MODULES = {"time", "datetime", "random", "secrets", "uuid", "os", "threading", "multiprocessing",
                     "socket", "concurrent", "asyncio", "tempfile", "sys", "gc", "weakref", "inspect", "ctypes",
                     "subprocess", "signal", "platform", "getpass", "pickle", "shelve", "atexit"}
NP_RANDOM_OK = {"randint", "uniform", "choice", "normal", "rand", "random", "random_sample", "randn", "shuffle",
                "permutation", "binomial", "exponential", "standard_normal", "sample", "ranf", "beta", "gamma"}
NP_RANDOM_BAD = {"seed", "default_rng", "RandomState", "Generator", "SeedSequence", "get_state", "set_state",
                 "PCG64", "MT19937", "Philox", "SFC64", "BitGenerator"}
DYNAMIC = {"getattr", "setattr", "delattr", "eval", "exec", "globals", "vars", "locals", "__import__", "compile"}
MUTABLE_NODES = (ast.List, ast.Dict, ast.Set, ast.ListComp, ast.DictComp, ast.SetComp, ast.Call, ast.GeneratorExp)
MUTATORS = {"append", "extend", "pop", "remove", "sort", "reverse", "clear", "insert", "update", "setdefault",
            "popitem", "add", "discard", "fill", "put", "itemset", "resize"}


def files(model):
    return [f for f in sorted(model.trees) if f.startswith(SCAN)]


def module_aliases(tree):
    """local name -> imported module path"""
    out = {}
    for n in ast.walk(tree):
        if isinstance(n, ast.Import):
            for a in n.names:
                out[a.asname or a.name.split(".")[0]] = a.name
        elif isinstance(n, ast.ImportFrom) and n.module:
            for a in n.names:
                out[a.asname or a.name] = n.module + "." + a.name
    return out


def where(model, tree, node, file):
    fn = model.enclosing_function(node)
    cls = None
    p = model.up(node)
    while p is not None:
        if isinstance(p, ast.ClassDef):
            cls = p.name
            break
        p = model.up(p)
    if fn is not None:
        return "%s.%s" % (cls, fn.name) if cls else fn.name
    return cls or "<module>"


def check_sources(ctx):
    model = ctx.model
    rng_sites = 0
    for file in files(model):
        tree = model.trees[file]
        al = module_aliases(tree)
        for n in ast.walk(tree):
            if isinstance(n, (ast.Import, ast.ImportFrom)):
                continue
            q = None
            # use of a forbidden module through its local alias
            if isinstance(n, ast.Name) and isinstance(n.ctx, ast.Load) and n.id in al:
                root = al[n.id].split(".")[0]
                full = al[n.id]
                if root in FORBIDDEN_MODULES and not shadowed(model, n):
                    q = where(model, tree, n, file)
                    ctx.violation("R14-SRC", file, q, norm_src(model.enclosing_stmt(n) or n),
                                  "uses module '%s' (clock / entropy / process state): results would no longer be a function of "
                                  "the numpy seed, the arguments and the rewards" % full, n.lineno)
            if isinstance(n, ast.Call):
                name = call_name(n)
                parts = name.split(".")
                if isinstance(n.func, ast.Name) and n.func.id in ("id", "hash") and not shadowed(model, n.func):
                    ctx.violation("R14-SRC", file, where(model, tree, n, file), norm_src(n),
                                  "%s() exposes object identity / hash order" % n.func.id, n.lineno)
                if isinstance(n.func, ast.Name) and n.func.id in DYNAMIC:
                    ctx.violation("R14-DYN", file, where(model, tree, n, file), norm_src(n),
                                  "dynamic feature %s() defeats the name-based analysis every rule relies on" % n.func.id, n.lineno)
                # uninitialised memory: np.empty / np.empty_like / np.ndarray(shape) hand back whatever the allocator returns, so a
                # result computed from an element that was not written first depends on what the process allocated before
                if len(parts) == 2 and al.get(parts[0], "").split(".")[0] == "numpy" and parts[1] in ("empty", "empty_like", "ndarray") and \
                        not _fully_overwritten(model, n):
                    ctx.violation("R14-SRC", file, where(model, tree, n, file), norm_src(n),
                                  "np.%s returns uninitialised memory: unless every element is overwritten before it is read the result depends "
                                  "on the allocator's history, not on (seed, arguments, rewards) - use np.zeros / np.full" % parts[1], n.lineno)
                # numpy random
                if len(parts) >= 3 and parts[-2] == "random" and al.get(parts[0], "").split(".")[0] == "numpy":
                    fn = parts[-1]
                    q = where(model, tree, n, file)
                    if fn in NP_RANDOM_BAD:
                        ctx.violation("R14-SRC", file, q, norm_src(n),
                                      "np.random.%s creates or reseeds a generator: draws no longer come from the caller-seeded global generator" % fn,
                                      n.lineno)
                    else:
                        rng_sites += 1
                        ctx.ob("R14-SRC", fn in NP_RANDOM_OK, file, q, norm_src(n),
                               "draw from numpy's global generator" if fn in NP_RANDOM_OK else "unknown np.random function '%s'" % fn, n.lineno)
                        # isolation on RNG-free partitions: the global generator is shared by all instances, so an algorithm that
                        # draws from it is influenced by every other instance that does.  Instances confirmed on the reference
                        # tree: only VROOM (its published rule is randomised); every other algorithm is a deterministic function
                        # of its arguments, the rewards and the partition's own draws.
                        if file.startswith("PyXAB/algos/") and q.split(".")[0] not in ("VROOM", "VROOM_node"):
                            ctx.violation("R14-ISO", file, q, norm_src(n),
                                          "%s draws from numpy's global generator: two instances interleaved on an RNG-free partition consume each "
                                          "other's draws, so each no longer produces the sequence it produces alone (only VROOM is randomised)"
                                          % q.split(".")[0], n.lineno)
                # process-wide numpy / interpreter settings: changing them changes what OTHER instances compute (inf/nan handling,
                # warnings turned into errors, print options), whatever object they were changed from
                if name in ("np.seterr", "numpy.seterr", "np.seterrcall", "np.set_printoptions", "np.setbufsize", "warnings.simplefilter",
                            "warnings.filterwarnings", "warnings.resetwarnings", "sys.setrecursionlimit", "np.random.set_state",
                            "random.seed", "random.setstate", "os.environ.update", "os.putenv", "locale.setlocale"):
                    ctx.violation("R14-ISO", file, where(model, tree, n, file), norm_src(n),
                                  "%s changes a process-wide setting: every other instance in the process computes under it afterwards" % name, n.lineno)
            if isinstance(n, ast.Attribute) and n.attr in ("__dict__", "__class__", "__hash__") and isinstance(n.ctx, ast.Load):
                if n.attr == "__dict__":
                    ctx.violation("R14-DYN", file, where(model, tree, n, file), norm_src(n), "__dict__ access defeats the field-based analysis", n.lineno)
            if isinstance(n, ast.FunctionDef) and n.name in ("__hash__", "__eq__", "__lt__", "__del__", "__getattr__", "__setattr__",
                                                             "__getattribute__", "__reduce__"):
                ctx.violation("R14-DYN", file, where(model, tree, n, file) , "def %s" % n.name,
                              "special method %s changes identity/attribute semantics assumed by the analysis" % n.name, n.lineno)
    ctx.count("R14-SRC np.random call sites in algos+partition", rng_sites, 10)
    return rng_sites


SET_OK_METHODS = {"add", "update", "discard", "remove", "clear", "issubset", "issuperset", "isdisjoint", "__contains__",
                  "difference_update", "intersection_update", "symmetric_difference_update"}
SET_DERIVING = {"union", "intersection", "difference", "symmetric_difference", "copy"}


def is_set_expr(model, e, set_names=()):
    if isinstance(e, (ast.Set, ast.SetComp)):
        return True
    if isinstance(e, ast.Call) and isinstance(e.func, ast.Name) and e.func.id in ("set", "frozenset") and not shadowed(model, e.func):
        return True
    if isinstance(e, ast.Call) and isinstance(e.func, ast.Attribute) and e.func.attr in SET_DERIVING and is_set_expr(model, e.func.value, set_names):
        return True
    if isinstance(e, ast.BinOp) and isinstance(e.op, (ast.BitOr, ast.BitAnd, ast.Sub, ast.BitXor)) and \
            (is_set_expr(model, e.left, set_names) or is_set_expr(model, e.right, set_names)):
        return True
    return norm_src(e) in set_names


def order_observing_use(model, e):
    """How the value of the set-valued expression node `e` is used: None when the use cannot observe the iteration order
    (membership test, len, truth value, in-place update, being stored), else a description."""
    par = model.up(e)
    if isinstance(par, ast.Compare) and e in par.comparators and all(isinstance(o, (ast.In, ast.NotIn)) for o in par.ops):
        return None
    if isinstance(par, ast.Compare) and all(isinstance(o, (ast.Eq, ast.NotEq, ast.LtE, ast.GtE, ast.Lt, ast.Gt)) for o in par.ops):
        return None         # set comparison is order-free
    if isinstance(par, ast.Call) and e in par.args and isinstance(par.func, ast.Name) and par.func.id in ("len", "bool", "isinstance", "set", "frozenset"):
        return None
    if isinstance(par, ast.Call) and isinstance(par.func, ast.Attribute) and e in par.args and par.func.attr in (SET_OK_METHODS | SET_DERIVING):
        return None         # argument of another set's update/union
    if isinstance(par, ast.Attribute) and par.value is e:
        if par.attr in SET_OK_METHODS or par.attr in SET_DERIVING:
            return None
        return "method .%s() of a set" % par.attr
    if isinstance(par, (ast.If, ast.While, ast.IfExp)) and getattr(par, "test", None) is e:
        return None
    if isinstance(par, ast.UnaryOp) and isinstance(par.op, ast.Not):
        return None
    if isinstance(par, ast.BoolOp):
        return order_observing_use(model, par)
    if isinstance(par, ast.BinOp):
        return None         # derived set: judged where it is used (is_set_expr)
    if isinstance(par, (ast.Assign, ast.AnnAssign, ast.AugAssign)) and getattr(par, "value", None) is e:
        return None         # stored: judged at the uses of the target
    if isinstance(par, (ast.For, ast.comprehension)) and par.iter is e:
        return "iterated"
    if isinstance(par, ast.Call):
        return "passed to %s()" % (call_name(par) or "a call")
    if isinstance(par, ast.Return):
        return "returned"
    if isinstance(par, ast.Starred):
        return "unpacked"
    return "used in %s" % type(par).__name__


def check_sets(ctx):
    """R14-SRC (hash order): a set may be built and queried, but nothing may observe its iteration order - for cells and arms
    (default hash = address) it differs between two runs of the same program."""
    model = ctx.model
    n_sets = [0]

    def judge(file, tree, e):
        n_sets[0] += 1
        use = order_observing_use(model, e)
        ctx.ob("R14-SRC", use is None, file, where(model, tree, e, file), norm_src(model.enclosing_stmt(e) or e),
               "set is only built / queried for membership" if use is None else
               "the set %s is %s: the iteration order of a set depends on hash values (object addresses, per-process string "
               "hashing), which is not a function of seed, arguments and rewards" % (norm_src(e)[:60], use), e.lineno)

    def holders(scope, want):
        names = set()
        changed = True
        while changed:
            changed = False
            for a in ast.walk(scope):
                if isinstance(a, (ast.Assign, ast.AnnAssign)) and getattr(a, "value", None) is not None and is_set_expr(model, a.value, names):
                    for t in (a.targets if isinstance(a, ast.Assign) else [a.target]):
                        if want(t) and norm_src(t) not in names:
                            names.add(norm_src(t))
                            changed = True
        return names

    for file in files(model):
        tree = model.trees[file]
        for e in ast.walk(tree):
            if isinstance(e, ast.expr) and is_set_expr(model, e, ()) and not isinstance(e, ast.BinOp):
                judge(file, tree, e)
        for c in [x for x in ast.walk(tree) if isinstance(x, ast.ClassDef)]:
            attrs = holders(c, lambda t: is_self_attr(t))
            for e in ast.walk(c):
                if isinstance(e, ast.Attribute) and isinstance(e.ctx, ast.Load) and norm_src(e) in attrs:
                    judge(file, tree, e)
        for f in [x for x in ast.walk(tree) if isinstance(x, ast.FunctionDef)]:
            loc = holders(f, lambda t: isinstance(t, ast.Name))
            for e in ast.walk(f):
                if isinstance(e, ast.Name) and isinstance(e.ctx, ast.Load) and e.id in loc:
                    judge(file, tree, e)
    # positive / negative fixture: the rule must fire on iteration and stay quiet on membership, on every run
    class _Stub:
        def __init__(self, tree):
            self.par = {}
            for a in ast.walk(tree):
                for b in ast.iter_child_nodes(a):
                    self.par[id(b)] = a

        def up(self, n):
            return self.par.get(id(n))

        def enclosing_function(self, n):
            return None
    fx = ast.parse("s = set()\ns.add(1)\nok = 3 in s\nfor x in s:\n    pass\nm = max(s)\n")
    st = _Stub(fx)
    got = [order_observing_use(st, e) for e in sorted((e for e in ast.walk(fx) if isinstance(e, ast.Name) and e.id == "s" and
                                                        isinstance(e.ctx, ast.Load)), key=lambda e: e.lineno)]
    if [g is None for g in got] != [True, True, False, False]:
        raise AnalysisError("R14-SRC set-order self-check fixture no longer matches (%s)" % got)
    return n_sets[0]


def shadowed(model, name_node):
    """Is the Name bound locally (parameter or assignment) in its function, i.e. not the module alias?"""
    fn = model.enclosing_function(name_node)
    ident = name_node.id
    while fn is not None:
        for a in fn.args.args + fn.args.kwonlyargs:
            if a.arg == ident:
                return True
        for n in ast.walk(fn):
            if isinstance(n, ast.Name) and n.id == ident and isinstance(n.ctx, ast.Store):
                return True
        fn = model.enclosing_function(fn)
    return False


def is_mutable_value(v):
    if isinstance(v, ast.Call):
        # immutable constructors are fine
        n = call_name(v)
        if n in ("tuple", "frozenset", "int", "float", "str", "bool", "object", "namedtuple", "collections.namedtuple"):
            # (namedtuple(...) creates an immutable record TYPE)
            return False
        return True
    return isinstance(v, MUTABLE_NODES)


def _fully_overwritten(model, call):
    """`a = np.empty(..)` directly followed by a statement that writes every element before anything reads one: `a[:] = v`,
    `a[...] = v`, `a.fill(v)`, or `for i in range(len(a) | a.size | <the same length expression>): a[i] = v` with an unconditional
    store as the loop's first statement."""
    st = model.up(call)
    if not (isinstance(st, ast.Assign) and len(st.targets) == 1 and isinstance(st.targets[0], ast.Name) and st.value is call):
        return False
    a = st.targets[0].id
    par = model.up(st)
    nxt = None
    for f in ("body", "orelse"):
        b = getattr(par, f, None)
        if isinstance(b, list) and st in b and b.index(st) + 1 < len(b):
            nxt = b[b.index(st) + 1]
    if nxt is None:
        return False
    if isinstance(nxt, ast.Assign) and len(nxt.targets) == 1 and isinstance(nxt.targets[0], ast.Subscript) and norm_src(nxt.targets[0].value) == a and \
            norm_src(nxt.targets[0].slice) in (":", "...", "Ellipsis") and a not in [x.id for x in ast.walk(nxt.value) if isinstance(x, ast.Name)]:
        return True
    if isinstance(nxt, ast.Expr) and isinstance(nxt.value, ast.Call) and norm_src(nxt.value.func) == "%s.fill" % a:
        return True
    if isinstance(nxt, ast.For) and isinstance(nxt.target, ast.Name) and isinstance(nxt.iter, ast.Call) and norm_src(nxt.iter.func) == "range" and \
            len(nxt.iter.args) == 1 and nxt.body:
        n_src = norm_src(nxt.iter.args[0])
        shape = norm_src(call.args[0]) if call.args else None
        first = nxt.body[0]
        if n_src in ("len(%s)" % a, "%s.size" % a, shape) and isinstance(first, ast.Assign) and len(first.targets) == 1 and \
                isinstance(first.targets[0], ast.Subscript) and norm_src(first.targets[0].value) == a and \
                norm_src(first.targets[0].slice) == nxt.target.id and \
                not any(isinstance(x, ast.Name) and x.id == a for x in ast.walk(first.value)) and \
                not any(isinstance(x, (ast.Break, ast.Continue)) for x in ast.walk(nxt)):
            return True
    return False


def import_iso(ctx, classes, rule, why):
    """Re-report R14-ISO (state shared between instances) for the given classes under another property's rule name."""
    from ..report import Ctx
    tmp = Ctx(ctx.prop, ctx.tier, ctx.seed, ctx.model)
    check_isolation(tmp)
    n = 0
    for f in tmp.findings:
        if f.rule == "R14-ISO" and any(f.qual == c or f.qual.startswith(c + ".") for c in classes):
            ctx.add_finding(rule, f.file, f.qual, f.construct, "%s: %s" % (why, f.why), f.line)
            n += 1
    ctx.ob(rule, n == 0, "PyXAB/algos", ",".join(classes), "per-instance state", "no class-level / module-level mutable state in %s" % ", ".join(classes)
           if n == 0 else "%d shared-state finding(s)" % n, nontrivial=False, finding=False)


def check_isolation(ctx):
    model = ctx.model
    n = 0
    for file in files(model):
        tree = model.trees[file]
        mod_mut = {}
        for s in tree.body:
            if isinstance(s, (ast.Assign, ast.AnnAssign)):
                val = s.value
                tg = s.targets if isinstance(s, ast.Assign) else [s.target]
                if val is not None and is_mutable_value(val):
                    for t in tg:
                        if isinstance(t, ast.Name) and t.id != "__all__":
                            mod_mut[t.id] = s
        classes = [s for s in tree.body if isinstance(s, ast.ClassDef)]
        top_names = {s.name for s in tree.body if isinstance(s, (ast.ClassDef, ast.FunctionDef))} | set(model.classes)
        for c in classes:
            for s in c.body:
                n += 1
                if isinstance(s, (ast.FunctionDef, ast.Pass)):
                    continue
                if isinstance(s, ast.Expr) and isinstance(s.value, ast.Constant):
                    continue
                if isinstance(s, (ast.Assign, ast.AnnAssign)):
                    val = s.value
                    if val is None or not is_mutable_value(val):
                        ctx.ob("R14-ISO", True, file, c.name, norm_src(s), "class-level constant (immutable)", s.lineno)
                        continue
                    ctx.violation("R14-ISO", file, c.name, norm_src(s),
                                  "class-level mutable attribute is shared by all instances (and survives between runs)", s.lineno)
                    continue
                ctx.violation("R14-ISO", file, c.name, norm_src(s)[:120], "unexpected statement in class body", s.lineno)
        for f in ast.walk(tree):
            if isinstance(f, (ast.FunctionDef, ast.Lambda)):
                n += 1
                args = f.args
                for d in list(args.defaults) + [k for k in args.kw_defaults if k is not None]:
                    if is_mutable_value(d):
                        ctx.violation("R14-ISO", file, where(model, tree, d, file), "default %s" % norm_src(d),
                                      "mutable default argument is shared between calls and instances", d.lineno)
                if isinstance(f, ast.FunctionDef):
                    for d in f.decorator_list:
                        dn = norm_src(d)
                        if any(k in dn for k in ("lru_cache", "cache", "cached_property", "memo")):
                            ctx.violation("R14-ISO", file, where(model, tree, f, file) , "@" + dn,
                                          "memoising decorator keeps state shared between instances", f.lineno)
            if isinstance(f, (ast.Global, ast.Nonlocal)):
                ctx.violation("R14-ISO", file, where(model, tree, f, file), norm_src(f), "global/nonlocal state", f.lineno)
            # stores through a class / function object
            tg = []
            if isinstance(f, ast.Assign):
                tg = f.targets
            elif isinstance(f, (ast.AugAssign, ast.AnnAssign)):
                tg = [f.target]
            for t in tg:
                base = t
                while isinstance(base, (ast.Subscript, ast.Attribute)):
                    inner = base.value
                    if isinstance(base, ast.Attribute) and isinstance(inner, ast.Name) and inner.id in top_names and \
                            model.enclosing_function(f) is not None:
                        ctx.violation("R14-ISO", file, where(model, tree, f, file), norm_src(f),
                                      "stores into the class/function object '%s' (state shared by all instances)" % inner.id, f.lineno)
                    if isinstance(base, ast.Attribute) and base.attr == "__class__":
                        ctx.violation("R14-ISO", file, where(model, tree, f, file), norm_src(f), "stores through __class__", f.lineno)
                    if isinstance(inner, ast.Call) and isinstance(inner.func, ast.Name) and inner.func.id == "type":
                        ctx.violation("R14-ISO", file, where(model, tree, f, file), norm_src(f), "stores through type(self)", f.lineno)
                    base = inner
            if isinstance(f, ast.Call) and isinstance(f.func, ast.Attribute) and f.func.attr in MUTATORS:
                b = f.func.value
                while isinstance(b, (ast.Subscript, ast.Attribute)):
                    if isinstance(b, ast.Attribute) and isinstance(b.value, ast.Name) and b.value.id in top_names and \
                            model.enclosing_function(f) is not None:
                        ctx.violation("R14-ISO", file, where(model, tree, f, file), norm_src(f),
                                      "mutates state held on the class/function object '%s'" % b.value.id, f.lineno)
                    b = b.value
        # module-level mutable binding used from a function
        for name, s in mod_mut.items():
            used = [x for x in ast.walk(tree) if isinstance(x, ast.Name) and x.id == name and model.enclosing_function(x) is not None
                    and not shadowed(model, x)]
            if used:
                ctx.violation("R14-ISO", file, "<module>", norm_src(s),
                              "module-level mutable object '%s' is used inside functions (%d use(s)): shared by all instances" % (name, len(used)),
                              s.lineno)
            else:
                ctx.ob("R14-ISO", True, file, "<module>", norm_src(s), "module-level object never used from a function", s.lineno)
    ctx.ob("R14-ISO", True, "PyXAB/{algos,partition}", "*", "isolation scan",
           "%d class-body statements / function signatures scanned: no class-level or module-level mutable state, no mutable "
           "default, no global/nonlocal, no store through a class or function object" % n)
    # positive fixture
    bad = ast.parse("class A:\n cache = {}\n def f(self, d=[]):\n  global g\n")
    hits = 0
    for c in bad.body:
        for s in c.body:
            if isinstance(s, ast.Assign) and is_mutable_value(s.value):
                hits += 1
            if isinstance(s, ast.FunctionDef):
                hits += sum(1 for d in s.args.defaults if is_mutable_value(d))
                hits += sum(1 for x in ast.walk(s) if isinstance(x, ast.Global))
    if hits != 3:
        raise AnalysisError("R14-ISO self-check fixture no longer matches (%d)" % hits)


# ---------------------------------------------------------------------------
# R14-MUT: alias / mutation analysis of the user's domain


class Taint:
    """Flow-insensitive per-function alias depth analysis.  value(expr) = k >= 1 if `expr` may be (a
    list nested k levels above numbers inside) the user's domain object, ('fresh', k) if it is a new
    list whose elements may be such, 0 if clean."""

    def __init__(self, fn):
        self.fn = fn
        self.env = {}
        params = [a.arg for a in fn.args.args + fn.args.kwonlyargs]
        for p in params:
            if p in ("domain",):
                self.env[p] = 2
            if p in ("parent_domain", "child_domain"):
                self.env[p] = 2
        for _ in range(6):
            changed = False
            for n in ast.walk(fn):
                if isinstance(n, ast.Assign):
                    v = self.val(n.value)
                    for t in n.targets:
                        changed |= self.bind(t, v)
                elif isinstance(n, ast.For):
                    v = self.elem(self.val(n.iter))
                    changed |= self.bind(n.target, v)
                elif isinstance(n, ast.comprehension):
                    v = self.elem(self.val(n.iter))
                    changed |= self.bind(n.target, v)
            if not changed:
                break

    @staticmethod
    def depth(v):
        return v[1] if isinstance(v, tuple) else v

    @staticmethod
    def join(a, b):
        if isinstance(a, tuple) and isinstance(b, tuple):
            return ("fresh", max(a[1], b[1]))
        if isinstance(a, tuple):
            return b if b else a
        if isinstance(b, tuple):
            return a if a else b
        return max(a, b)

    def bind(self, t, v):
        if isinstance(t, ast.Name):
            old = self.env.get(t.id, 0)
            new = self.join(old, v)
            if new != old:
                self.env[t.id] = new
                return True
            return False
        if isinstance(t, (ast.Tuple, ast.List)):
            ch = False
            for e in t.elts:
                ch |= self.bind(e, self.elem(v))
            return ch
        return False

    def elem(self, v):
        if isinstance(v, tuple):
            return v[1]
        return max(0, v - 1)

    def val(self, e):
        if isinstance(e, ast.Name):
            return self.env.get(e.id, 0)
        if isinstance(e, ast.Attribute):
            if e.attr == "domain":
                return 2
            return 0
        if isinstance(e, ast.Call):
            name = call_name(e)
            m = method_name(e)
            if m == "get_domain":
                return 2
            if name in ("copy.deepcopy", "deepcopy"):
                return 0
            if name in ("list", "copy.copy", "tuple", "reversed", "sorted") and e.args:
                v = self.val(e.args[0])
                d = self.depth(v)
                return ("fresh", max(0, d - 1)) if not isinstance(v, tuple) else v
            if m == "copy" and isinstance(e.func, ast.Attribute):
                v = self.val(e.func.value)
                d = self.depth(v)
                return ("fresh", max(0, d - 1)) if not isinstance(v, tuple) else v
            return 0
        if isinstance(e, ast.Subscript):
            v = self.val(e.value)
            if isinstance(e.slice, ast.Slice):
                d = self.depth(v)
                return ("fresh", max(0, d - 1)) if not isinstance(v, tuple) else v
            return self.elem(v)
        if isinstance(e, (ast.List, ast.Tuple)):
            k = 0
            for x in e.elts:
                k = max(k, self.depth(self.val(x)) if not isinstance(self.val(x), tuple) else self.val(x)[1] + 1)
            return ("fresh", k)
        if isinstance(e, ast.ListComp):
            t = Taint.__new__(Taint)
            return ("fresh", self.depth(self.val(e.elt)) if not isinstance(self.val(e.elt), tuple) else self.val(e.elt)[1] + 1)
        if isinstance(e, ast.IfExp):
            return self.join(self.val(e.body), self.val(e.orelse))
        if isinstance(e, ast.BinOp) and isinstance(e.op, ast.Add):
            a, b = self.val(e.left), self.val(e.right)
            return ("fresh", max(self.elem(a), self.elem(b)))
        return 0

    def aliased(self, e):
        """e may denote (part of) the user's object itself (not a fresh container)."""
        v = self.val(e)
        return (not isinstance(v, tuple)) and v >= 1


def check_mutation(ctx):
    model = ctx.model
    nfn = 0
    nsinks = 0
    for file in files(model):
        tree = model.trees[file]
        for fn in ast.walk(tree):
            if not isinstance(fn, ast.FunctionDef):
                continue
            nfn += 1
            q = where(model, tree, fn.body[0], file) if fn.body else fn.name
            T = Taint(fn)
            for n in ast.walk(fn):
                tg = []
                if isinstance(n, ast.Assign):
                    tg = n.targets
                elif isinstance(n, ast.AugAssign):
                    tg = [n.target]
                    if isinstance(n.target, (ast.Name, ast.Attribute)) and T.aliased(n.target):
                        nsinks += 1
                        ctx.violation("R14-MUT", file, q, norm_src(n),
                                      "in-place augmented assignment on a value that may be the user's domain", n.lineno)
                elif isinstance(n, ast.Delete):
                    tg = n.targets
                for t in tg:
                    for tt in (t.elts if isinstance(t, (ast.Tuple, ast.List)) else [t]):
                        if isinstance(tt, ast.Subscript):
                            nsinks += 1
                            if T.aliased(tt.value):
                                ctx.violation("R14-MUT", file, q, norm_src(n),
                                              "element store into '%s', which may be (part of) the user's domain object" % norm_src(tt.value),
                                              n.lineno)
                if isinstance(n, ast.Call) and isinstance(n.func, ast.Attribute) and n.func.attr in MUTATORS:
                    nsinks += 1
                    if T.aliased(n.func.value):
                        ctx.violation("R14-MUT", file, q, norm_src(n),
                                      "mutating call on '%s', which may be (part of) the user's domain object" % norm_src(n.func.value), n.lineno)
                if isinstance(n, ast.Call) and call_name(n).endswith(("random.shuffle",)) and n.args and T.aliased(n.args[0]):
                    ctx.violation("R14-MUT", file, q, norm_src(n), "shuffles the user's domain in place", n.lineno)
    ctx.ob("R14-MUT", True, "PyXAB/{algos,partition}", "*", "domain alias/mutation scan",
           "%d functions, %d mutation sites examined: none targets a value aliasing the user's domain" % (nfn, nsinks))
    # positive fixture
    fx = ast.parse("def f(self, domain):\n d = domain\n for r in d:\n  r.reverse()\n x = list(domain)\n x[0][0] = 1\n y = copy.deepcopy(domain)\n y[0][0] = 2\n").body[0]
    T = Taint(fx)
    hits = 0
    for n in ast.walk(fx):
        if isinstance(n, ast.Call) and isinstance(n.func, ast.Attribute) and n.func.attr in MUTATORS and T.aliased(n.func.value):
            hits += 1
        if isinstance(n, ast.Assign) and isinstance(n.targets[0], ast.Subscript) and T.aliased(n.targets[0].value):
            hits += 1
    if hits != 2:
        raise AnalysisError("R14-MUT self-check fixture no longer matches (%d)" % hits)


def run(ctx):
    for c in ctx.model.classes.values():
        if c.file.startswith(SCAN):
            for f in c.methods.values():
                ctx.fn("%s.%s" % (c.name, f.name))
    check_sources(ctx)
    ctx.extra["set_uses_examined"] = check_sets(ctx)
    check_isolation(ctx)
    check_mutation(ctx)
    # E5: stores performed by partition code hit fresh objects only; RNG calls are np.random.*
    _partition.feed(ctx, ("R14-",), rename={"R02-FRAME": "R14-MUT(E5)"})
    return dict(
        explanation=(
            "Non-interference decided by scanning every module of PyXAB/algos and PyXAB/partition (%d files): (SRC) no use of "
            "time/datetime/stdlib random/os/uuid/secrets/threading..., no id()/hash(), no set of objects, no reseeding or private "
            "numpy generator - every random draw is a call np.random.<fn> on the global generator (sites listed); (ISO) no "
            "class-body mutable attribute, mutable default, global/nonlocal, memoising decorator, module-level mutable object used "
            "from functions, or store through a class/function object - so instances share nothing but the user's domain and "
            "numpy's generator; (MUT) a depth-aware alias analysis seeds the `domain` parameter/attribute/get_domain() and reports "
            "every element store, del, in-place operator or mutating method that may hit the user's object; in PyXAB/partition the "
            "abstract interpreter additionally observes that __init__ and make_children store only into fresh lists. Bit-for-bit "
            "replay equality itself is the consequence, not re-observed." % len(files(ctx.model))),
        assumptions=[
            "numpy's global generator is deterministic for a given seed and call sequence",
            "dict iteration is insertion-ordered; sorted() is stable",
            "only PyXAB/algos and PyXAB/partition are scanned (the property's anchors)",
        ],
        technique="source/effect scans (ast): forbidden-source census, shared-state census, alias+mutation analysis of the user's domain",
    )
