"""Glue between the E5 step analysis and the property modules C02 / C03."""
from .. import partition_step as PS


def feed(ctx, prefixes, rename=None):
    """Run the step analysis and record the obligations whose rule starts with one of `prefixes`.
    Failed instances are aggregated into one finding per (rule, class, construct)."""
    model = ctx.model
    records, stats = PS.analyse(model, ctx.tier)
    groups = {}
    n = 0
    for r in records:
        if rename and r["rule"] in rename:
            r = dict(r, rule=rename[r["rule"]])
        elif not any(r["rule"].startswith(p) for p in prefixes):
            continue
        n += 1
        cls = model.classes[r["cls"]]
        owner, fn = model.lookup(r["cls"], r["method"])
        file = owner.file if owner is not None else cls.file
        qual = "%s.%s" % (r["cls"], r["method"])
        ctx.fn(qual)
        ctx.ob(r["rule"], r["ok"], file, qual, "%s [%s]" % (r["construct"], r["cfg"]), r["detail"], finding=False)
        if not r["ok"]:
            groups.setdefault((r["rule"], file, qual, r["construct"]), []).append(r)
    for (rule, file, qual, construct), rs in sorted(groups.items()):
        fn = model.lookup(*qual.split("."))[1]
        cfgs = [r["cfg"] for r in rs]
        ctx.add_finding(rule, file, qual, construct,
                        "%s (in %d abstract run(s), first: %s)" % (rs[0]["detail"], len(rs), cfgs[0]),
                        line=getattr(fn, "lineno", None), extra=dict(configs=cfgs[:20]))
    ctx.extra["abstract_runs"] = dict(paths=stats["paths"], configurations=stats["configs"],
                                      ranges=dict(zip(("K", "d"), PS.ranges(ctx.tier))))
    ctx.extra["step_samples"] = stats["samples"]
    for c in PS.CLASSES:
        ctx.fn("%s.__init__" % c)
    ctx.fn("P_node.__init__")
    ctx.fn("Partition.__init__")
    return n, stats
