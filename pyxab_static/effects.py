"""E4 (part 1) - call resolution and transitive effects over PyXAB's call graph.

Resolution is name- and field-based (PyXAB uses no getattr/setattr/eval):
`self.m()` resolves through the class MRO, `self.partition.m()` to the
Partition interface and its five implementations, `super().m()` to the base,
everything else by method name over all scanned classes.
"""
import ast

from .model import is_self_attr, method_name

EXTERNAL_NS = ("np", "numpy", "math", "copy", "random", "time", "os", "sys", "pdb")
CONTAINER_METHODS = {"append", "extend", "pop", "remove", "sort", "reverse", "clear", "insert", "keys",
                     "values", "items", "get", "setdefault", "update", "index", "count", "copy", "add",
                     "discard", "tolist"}
MUTATING_CONTAINER_METHODS = {"append", "extend", "pop", "remove", "sort", "reverse", "clear", "insert",
                              "setdefault", "update", "add", "discard", "popitem"}
LEARNERS = ("T_HOO", "HCT", "VHCT")


def base_name(e):
    """Left-most Name of an attribute/subscript/call chain."""
    while True:
        if isinstance(e, ast.Attribute):
            e = e.value
        elif isinstance(e, ast.Subscript):
            e = e.value
        elif isinstance(e, ast.Call):
            e = e.func
        else:
            break
    return e.id if isinstance(e, ast.Name) else None


class Effects:
    def __init__(self, model):
        self.model = model
        self.funcs = {}   # key -> FunctionDef ; key = (cls or file, name)
        for c in model.classes.values():
            for m, f in c.methods.items():
                self.funcs[(c.name, m)] = f
        for (file, name), f in model.functions.items():
            self.funcs[(file, name)] = f
        self.partition_classes = [c.name for c in model.subclasses("Partition")] + (
            ["Partition"] if "Partition" in model.classes else [])
        self.node_classes = [c.name for c in model.subclasses("P_node")] + (
            ["P_node"] if "P_node" in model.classes else [])
        self._callees = {}
        self._closure = {}

    # ------------------------------------------------------------------
    def owner_key(self, fn):
        for k, f in self.funcs.items():
            if f is fn:
                return k
        return None

    def resolve(self, ctx_cls, call, file=None):
        """Possible targets of `call` occurring inside class `ctx_cls` (None for module functions):
        list of keys into self.funcs; [] for external/builtin/container calls."""
        m = self.model
        f = call.func
        if isinstance(f, ast.Name):
            name = f.id
            if name in m.classes:
                return [(o.name, "__init__") for o in [m.lookup(name, "__init__")[0]] if o is not None]
            if file and (file, name) in self.funcs:
                return [(file, name)]
            for (fl, n) in m.functions:
                if n == name:
                    return [(fl, n)]
            if name == "partition":
                return self._inits(self.partition_classes)
            if name in ("algo",):
                return self._inits(LEARNERS)
            if name == "node":
                return self._inits(self.node_classes)
            return []
        if not isinstance(f, ast.Attribute):
            return []
        name = f.attr
        recv = f.value
        # super(...)
        if isinstance(recv, ast.Call) and isinstance(recv.func, ast.Name) and recv.func.id == "super":
            if ctx_cls is None:
                return []
            start = ctx_cls
            if recv.args and isinstance(recv.args[0], ast.Name) and recv.args[0].id in m.classes:
                start = recv.args[0].id
            mro = m.mro(start)
            for c in mro[1:]:
                if name in c.methods:
                    return [(c.name, name)]
            return []
        if isinstance(recv, ast.Name) and recv.id == "self" and ctx_cls is not None:
            o, fn = m.lookup(ctx_cls, name)
            if fn is not None:
                return [(o.name, name)]
            if name == "node":
                return self._inits(self.node_classes)
            if name == "algo":
                return self._inits(LEARNERS)
            if name == "partition":
                return self._inits(self.partition_classes)
            return []     # a stored callable (e.g. user-supplied delta)
        b = base_name(recv)
        if b in EXTERNAL_NS and not (isinstance(recv, ast.Name) and False):
            if isinstance(recv, ast.Name) or base_name(recv) in EXTERNAL_NS:
                return []
        if is_self_attr(recv, "partition") or (isinstance(recv, ast.Name) and recv.id in ("partition",)):
            out = []
            for c in self.partition_classes:
                if name in m.classes[c].methods:
                    out.append((c, name))
            return out
        # by name over all classes
        out = [(c.name, name) for c in m.classes.values() if name in c.methods]
        if not out and name in CONTAINER_METHODS:
            return []
        return out

    def _inits(self, classes):
        out = []
        for c in classes:
            if c in self.model.classes:
                o, fn = self.model.lookup(c, "__init__")
                if fn is not None and (o.name, "__init__") not in out:
                    out.append((o.name, "__init__"))
        return out

    def callees(self, key):
        if key in self._callees:
            return self._callees[key]
        fn = self.funcs[key]
        ctx_cls = key[0] if key[0] in self.model.classes else None
        file = self.model.file_of.get(id(fn))
        out = set()
        for n in ast.walk(fn):
            if isinstance(n, ast.Call):
                for t in self.resolve(ctx_cls, n, file):
                    out.add(t)
        self._callees[key] = out
        return out

    def closure(self, key):
        """All functions transitively callable from `key` (including itself)."""
        if key in self._closure:
            return self._closure[key]
        seen = {key}
        todo = [key]
        while todo:
            k = todo.pop()
            if k not in self.funcs:
                continue
            for c in self.callees(k):
                if c not in seen:
                    seen.add(c)
                    todo.append(c)
        self._closure[key] = seen
        return seen

    def reaches_method(self, key, meth_names):
        return any(k[1] in meth_names for k in self.closure(key) if k != key) or False

    def call_may_reach(self, ctx_cls, call, meth_names, file=None):
        """May executing `call` execute a method whose name is in meth_names?"""
        if method_name(call) in meth_names:
            return True
        for t in self.resolve(ctx_cls, call, file):
            if t[1] in meth_names:
                return True
            if any(k[1] in meth_names for k in self.closure(t)):
                return True
        return False

    def stmt_may_reach(self, ctx_cls, node, meth_names, file=None):
        for c in ast.walk(node):
            if isinstance(c, ast.Call) and self.call_may_reach(ctx_cls, c, meth_names, file):
                return True
        return False


TREE_METHODS = {"make_children", "deepen"}


def node_exprs(cnode):
    """Expression roots evaluated at a CFG node."""
    a = cnode.ast
    if a is None:
        return []
    if cnode.kind == "test":
        return [a.test]
    if cnode.kind == "for":
        return [a.iter, a.target]
    return [a]


def cfg_node_grows_tree(eff, ctx_cls, cnode, file=None):
    for r in node_exprs(cnode):
        if eff.stmt_may_reach(ctx_cls, r, TREE_METHODS, file):
            return True
    return False


def stored_locs(cnode):
    """Locations (dotted source strings) assigned at a CFG node: names, attribute chains, and
    'X[]' for element stores / mutating container methods on X."""
    out = set()
    a = cnode.ast
    if a is None:
        return out

    def tgt(t):
        if isinstance(t, (ast.Tuple, ast.List)):
            for e in t.elts:
                tgt(e)
        elif isinstance(t, ast.Starred):
            tgt(t.value)
        elif isinstance(t, ast.Subscript):
            try:
                out.add(ast.unparse(t.value) + "[]")
            except Exception:
                pass
        else:
            try:
                out.add(ast.unparse(t))
            except Exception:
                pass
    if cnode.kind == "for":
        tgt(a.target)
        return out
    if cnode.kind == "test":
        roots = [a.test]
    else:
        roots = [a]
        if isinstance(a, ast.Assign):
            for t in a.targets:
                tgt(t)
        elif isinstance(a, (ast.AugAssign, ast.AnnAssign)):
            tgt(a.target)
        elif isinstance(a, ast.Delete):
            for t in a.targets:
                tgt(t)
    for r in roots:
        for n in ast.walk(r):
            if isinstance(n, ast.Call) and isinstance(n.func, ast.Attribute) and n.func.attr in MUTATING_CONTAINER_METHODS:
                try:
                    out.add(ast.unparse(n.func.value) + "[]")
                except Exception:
                    pass
            if isinstance(n, ast.NamedExpr):
                tgt(n.target)
    return out


def names_in(expr):
    """Locations an expression reads: every Name and every dotted attribute chain prefix."""
    out = set()
    for n in ast.walk(expr):
        if isinstance(n, ast.Name):
            out.add(n.id)
        elif isinstance(n, ast.Attribute):
            try:
                s = ast.unparse(n)
            except Exception:
                continue
            if all(ch.isalnum() or ch in "._" for ch in s):
                out.add(s)
    return out
