"""Routing agreement between pull and receive_reward of the wrappers (POO, GPO, PCT, VPCT):
rules R09-ROUTE / R10-ROUTE / R04-PAIR(router).

(1) for every pair (path of pull that asks learner L for a point, path of receive_reward that forwards the
    reward to learner L') whose shared guard conditions do not contradict each other, L and L' are the same
    designator;
(2) pull stores nothing that a shared guard condition reads (receive_reward must see the state pull saw);
(3) pull stores nothing that a learner designator reads after it has asked that learner for the point.
"""
import ast

from . import credit as CR
from .effects import names_in
from .report import norm_src


def deps_of_src(src):
    try:
        e = ast.parse(src, mode="eval").body
    except SyntaxError:
        return set()
    out = set()
    for n in names_in(e):
        if n.startswith("self."):
            out.add(n.split("[")[0])
    return out


def written_locs(p):
    out = []
    for item in p.seq:
        k, x = item[0], item[1]
        if k == "w":
            t = x.replace("[]", "")
            base = t.split("[")[0]
            out.append(base)
    return out


_FLIP = {ast.Gt: ast.Lt, ast.GtE: ast.LtE}


def canon_cond(src, pol):
    """Canonical (text, polarity) of a guard: not-prefixes folded into the polarity, every order comparison written
    as 'a < b' (a > b == b < a;  a <= b == not (b < a)), '!=' as negated '==' with sorted sides."""
    try:
        e = ast.parse(src, mode="eval").body
    except SyntaxError:
        return src, pol
    while isinstance(e, ast.UnaryOp) and isinstance(e.op, ast.Not):
        e = e.operand
        pol = not pol
    if isinstance(e, ast.Compare) and len(e.ops) == 1:
        a, op, b = e.left, e.ops[0], e.comparators[0]
        if isinstance(op, (ast.Gt, ast.GtE)):
            a, b, op = b, a, _FLIP[type(op)]()
        if isinstance(op, ast.LtE):
            a, b, op = b, a, ast.Lt()
            pol = not pol
        if isinstance(op, ast.NotEq):
            op = ast.Eq()
            pol = not pol
        if isinstance(op, ast.Eq):
            a, b = sorted((a, b), key=norm_src)
        e = ast.Compare(left=a, ops=[op], comparators=[b])
    return norm_src(e), pol


def entry_state(p):
    """Canonical guards of a path that were evaluated on the state the method was entered with."""
    out = {}
    for c, pol in CR.entry_conds(p):
        k, v = canon_cond(c, pol)
        out.setdefault(k, v)
    return out


def order_inconsistent(conds):
    """conds: iterable of (canonical text, polarity).  True when the order / equality comparisons among them cannot all hold
    (a == b with a < b;  a < b with b < a;  a < b, b <= c, c <= a; ...) - a small difference-free order closure over the terms
    that occur, numeric literals ordered by value."""
    lt, le, eq, ne = set(), set(), set(), set()
    terms = set()
    for src, pol in conds:
        try:
            e = ast.parse(src, mode="eval").body
        except SyntaxError:
            continue
        if not (isinstance(e, ast.Compare) and len(e.ops) == 1 and isinstance(e.ops[0], (ast.Lt, ast.Eq))):
            continue
        a, b = norm_src(e.left), norm_src(e.comparators[0])
        terms |= {a, b}
        if isinstance(e.ops[0], ast.Lt):
            (lt if pol else le).add((a, b) if pol else (b, a))
        else:
            (eq if pol else ne).add((a, b))
    if not terms:
        return False
    nums = {}
    for t in terms:
        try:
            nums[t] = float(ast.literal_eval(t))
        except Exception:
            pass
    for a in nums:
        for b in nums:
            if nums[a] < nums[b]:
                lt.add((a, b))
            elif a != b and nums[a] == nums[b]:
                eq.add((a, b))
    T = sorted(terms)
    # rel[a][b]: 0 none, 1 a <= b, 2 a < b
    rel = {a: {b: 0 for b in T} for a in T}
    for a in T:
        rel[a][a] = 1
    for a, b in le:
        rel[a][b] = max(rel[a][b], 1)
    for a, b in lt:
        rel[a][b] = 2
    for a, b in eq:
        rel[a][b] = max(rel[a][b], 1)
        rel[b][a] = max(rel[b][a], 1)
    for k in T:
        for i in T:
            if not rel[i][k]:
                continue
            for j in T:
                if rel[k][j]:
                    v = 2 if 2 in (rel[i][k], rel[k][j]) else 1
                    if v > rel[i][j]:
                        rel[i][j] = v
    if any(rel[a][a] == 2 for a in T):
        return True
    for a, b in ne:
        if rel[a][b] and rel[b][a]:
            return True
    return False


def contradict(dp, dq):
    out = [c for c in dp if c in dq and dp[c] != dq[c]]
    if not out and order_inconsistent(list(dp.items()) + list(dq.items())):
        out = ["<order>"]
    return out


def check_route(ctx, cls, rule):
    model = ctx.model
    pf, pparams, ppaths, pfns = CR.method_paths(model, cls.name, "pull")
    rf, rparams, rpaths, rfns = CR.credit_paths(model, cls.name)
    for f in pfns | rfns:
        ctx.fn(f)
    pq = "%s.pull" % cls.name
    rq = "%s.receive_reward" % cls.name
    pulls = []
    for p in ppaths:
        lp = [e for e in p.events if e[0] == "lpull"]
        if lp:
            pulls.append((p, lp))
    recvs = []
    for p in rpaths:
        lr = [e for e in p.events if e[0] == "learner"]
        if lr:
            recvs.append((p, lr))
    ok_any = bool(pulls) and bool(recvs)
    ctx.ob(rule, ok_any, cls.file, cls.name, "wrapper routes rounds to base learners",
           "%d pull path(s) ask a learner, %d receive_reward path(s) forward a reward" % (len(pulls), len(recvs)), pf.lineno, nontrivial=False)
    if not ok_any:
        return
    # exactly one learner per path
    for p, lp in pulls:
        ctx.ob(rule.replace("ROUTE", "ONE") if "ROUTE" in rule else rule, len(lp) == 1, cls.file, pq,
               "learner asked on the path [%s]" % cond_txt(p), "%s" % [e[1] for e in lp], pf.lineno)
    for p, lr in recvs:
        ctx.ob(rule.replace("ROUTE", "ONE") if "ROUTE" in rule else rule, len(lr) == 1, cls.file, rq,
               "learner rewarded on the path [%s]" % cond_txt(p), "%s" % [e[1] for e in lr], rf.lineno)
    pconds = {c for p in ppaths for c in entry_state(p)}
    rconds = {c for p in rpaths for c in entry_state(p)}
    shared = pconds & rconds
    # (1) designator agreement on consistent pairs (guards are compared on the state both methods are entered with:
    # receive_reward sees the state pull left, and (2) shows pull leaves the shared guards' state alone)
    for p, lp in pulls:
        for q, lr in recvs:
            if contradict(entry_state(p), entry_state(q)):
                continue
            # both must decide every shared routing guard that the other decides, else they are not comparable:
            L, L2 = lp[0][1], lr[0][1]
            ok = L == L2
            ctx.ob(rule, ok, cls.file, cls.name, "pull[%s] / receive_reward[%s]" % (cond_txt(p, shared), cond_txt(q, shared)),
                   "same learner designator %s" % L if ok else
                   "the point comes from %s but the reward of the same round goes to %s" % (L, L2), lr[0][3].lineno)
    # (4) same phase on both sides: a round whose point did not come from a learner must not have its reward forwarded
    # to one, and a round whose point came from a learner must have its reward forwarded
    for p in ppaths:
        rets = [e for e in p.events if e[0] == "ret"]
        if not rets or any(e[0] == "raise" for e in p.events):
            continue
        asked = [e for e in p.events if e[0] == "lpull"]
        for q in rpaths:
            if any(e[0] == "raise" for e in q.events):
                continue
            fwd = [e for e in q.events if e[0] == "learner"]
            if bool(asked) == bool(fwd) or contradict(entry_state(p), entry_state(q)):
                continue
            if asked:
                why = ("pull asks %s for the point on [%s] but receive_reward does not forward the reward on [%s], and no guard "
                       "both methods evaluate separates the two" % (asked[0][1], cond_txt(p), cond_txt(q)))
            else:
                why = ("pull returns %s (no learner asked) on [%s] but receive_reward forwards the reward to %s on [%s], and no guard "
                       "both methods evaluate separates the two" % (rets[0][1], cond_txt(p), fwd[0][1], cond_txt(q)))
            ctx.violation(rule, cls.file, cls.name, "pull[%s] / receive_reward[%s]" % (cond_txt(p), cond_txt(q)), why,
                          (fwd[0][3] if fwd else asked[0][3]).lineno)
    ctx.ob(rule, True, cls.file, cls.name, "phase agreement", "learner-asked pull paths and learner-forwarding receive_reward paths are "
           "separated from the other paths by guards both methods evaluate on the same state", pf.lineno)
    # (2) pull writes nothing a shared guard reads
    gdeps = set()
    for c in shared:
        gdeps |= deps_of_src(c)
    for p in ppaths:
        for w in written_locs(p):
            if w in gdeps:
                ctx.violation(rule, cls.file, pq, "store to %s in pull" % w,
                              "pull changes %s, which the routing guard shared with receive_reward reads: the reward of this round is "
                              "routed by a different state than the point was" % w, pf.lineno)
    ctx.ob(rule, True, cls.file, pq, "pull leaves the routing guards' state alone",
           "shared guards %s read %s; pull writes %s" % (sorted(shared), sorted(gdeps), sorted({w for p in ppaths for w in written_locs(p)})),
           pf.lineno)
    # (3) nothing a designator reads is written after the learner was asked
    for p, lp in pulls:
        seen = False
        ddeps = deps_of_src(lp[0][1])
        for item in p.seq:
            k, x = item[0], item[1]
            if k == "ev" and x[0] == "lpull":
                seen = True
            elif k == "w" and seen:
                base = x.replace("[]", "").split("[")[0]
                if base in ddeps:
                    ctx.violation(rule, cls.file, pq, "store to %s after %s.pull(..)" % (base, lp[0][1]),
                                  "the designator %s denotes a different learner when receive_reward evaluates it" % lp[0][1], pf.lineno)


def cond_txt(p, only=None):
    cs = [(c, pol) for c, pol in entry_state(p).items() if only is None or c in only]
    return " and ".join("%s%s" % ("" if pol else "not ", c) for c, pol in cs[:4]) or "always"
