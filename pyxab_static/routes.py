"""Routing agreement between pull and receive_reward of the wrappers (POO, GPO, PCT, VPCT):
rules R09-ROUTE / R10-ROUTE / R04-PAIR(router).

(1) for every pair (path of pull that asks learner L for a point, path of receive_reward that forwards the
    reward to learner L') whose shared guard conditions do not contradict each other, L and L' are the same
    designator;
(2) pull stores nothing that a shared guard condition reads (receive_reward must see the state pull saw);
(3) pull stores nothing that a learner designator reads after it has asked that learner for the point.
"""
import ast

from . import credit as CR
from .effects import names_in
from .report import norm_src


def deps_of_src(src):
    try:
        e = ast.parse(src, mode="eval").body
    except SyntaxError:
        return set()
    out = set()
    for n in names_in(e):
        if n.startswith("self."):
            out.add(n.split("[")[0])
    return out


def written_locs(p):
    out = []
    for item in p.seq:
        k, x = item[0], item[1]
        if k == "w":
            t = x.replace("[]", "")
            base = t.split("[")[0]
            out.append(base)
    return out


def check_route(ctx, cls, rule):
    model = ctx.model
    pf, pparams, ppaths, pfns = CR.method_paths(model, cls.name, "pull")
    rf, rparams, rpaths, rfns = CR.credit_paths(model, cls.name)
    for f in pfns | rfns:
        ctx.fn(f)
    pq = "%s.pull" % cls.name
    rq = "%s.receive_reward" % cls.name
    pulls = []
    for p in ppaths:
        lp = [e for e in p.events if e[0] == "lpull"]
        if lp:
            pulls.append((p, lp))
    recvs = []
    for p in rpaths:
        lr = [e for e in p.events if e[0] == "learner"]
        if lr:
            recvs.append((p, lr))
    ok_any = bool(pulls) and bool(recvs)
    ctx.ob(rule, ok_any, cls.file, cls.name, "wrapper routes rounds to base learners",
           "%d pull path(s) ask a learner, %d receive_reward path(s) forward a reward" % (len(pulls), len(recvs)), pf.lineno, nontrivial=False)
    if not ok_any:
        return
    # exactly one learner per path
    for p, lp in pulls:
        ctx.ob(rule.replace("ROUTE", "ONE") if "ROUTE" in rule else rule, len(lp) == 1, cls.file, pq,
               "learner asked on the path [%s]" % cond_txt(p), "%s" % [e[1] for e in lp], pf.lineno)
    for p, lr in recvs:
        ctx.ob(rule.replace("ROUTE", "ONE") if "ROUTE" in rule else rule, len(lr) == 1, cls.file, rq,
               "learner rewarded on the path [%s]" % cond_txt(p), "%s" % [e[1] for e in lr], rf.lineno)
    pconds = {c for p, _ in pulls for c, _ in p.conds}
    rconds = {c for p, _ in recvs for c, _ in p.conds}
    shared = pconds & rconds
    # (1) designator agreement on consistent pairs
    for p, lp in pulls:
        for q, lr in recvs:
            dp = dict(p.conds)
            dq = dict(q.conds)
            if any(c in dq and dq[c] != pol for c, pol in p.conds if c in shared):
                continue
            # both must decide every shared routing guard that the other decides, else they are not comparable:
            L, L2 = lp[0][1], lr[0][1]
            ok = L == L2
            ctx.ob(rule, ok, cls.file, cls.name, "pull[%s] / receive_reward[%s]" % (cond_txt(p, shared), cond_txt(q, shared)),
                   "same learner designator %s" % L if ok else
                   "the point comes from %s but the reward of the same round goes to %s" % (L, L2), lr[0][3].lineno)
    # every routing decision of receive_reward must be a decision pull made too
    routing_r = set()
    for q, lr in recvs:
        for c, pol in q.conds:
            # conditions evaluated before the learner call on that path
            routing_r.add(c)
    # (2) pull writes nothing a shared guard reads
    gdeps = set()
    for c in shared:
        gdeps |= deps_of_src(c)
    for p in ppaths:
        for w in written_locs(p):
            if w in gdeps:
                ctx.violation(rule, cls.file, pq, "store to %s in pull" % w,
                              "pull changes %s, which the routing guard shared with receive_reward reads: the reward of this round is "
                              "routed by a different state than the point was" % w, pf.lineno)
    ctx.ob(rule, True, cls.file, pq, "pull leaves the routing guards' state alone",
           "shared guards %s read %s; pull writes %s" % (sorted(shared), sorted(gdeps), sorted({w for p in ppaths for w in written_locs(p)})),
           pf.lineno)
    # (3) nothing a designator reads is written after the learner was asked
    for p, lp in pulls:
        seen = False
        ddeps = deps_of_src(lp[0][1])
        for item in p.seq:
            k, x = item[0], item[1]
            if k == "ev" and x[0] == "lpull":
                seen = True
            elif k == "w" and seen:
                base = x.replace("[]", "").split("[")[0]
                if base in ddeps:
                    ctx.violation(rule, cls.file, pq, "store to %s after %s.pull(..)" % (base, lp[0][1]),
                                  "the designator %s denotes a different learner when receive_reward evaluates it" % lp[0][1], pf.lineno)


def cond_txt(p, only=None):
    cs = [(c, pol) for c, pol in p.conds if only is None or c in only]
    return " and ".join("%s%s" % ("" if pol else "not ", c) for c, pol in cs[:4]) or "always"
