"""Path-wise event analysis of a method (rules R04-ONCE / R04-PAIR, routing, hand-out paths; reused by C07-C13).

A syntax-directed walk (own-method calls inlined with parameter substitution) enumerates the paths of a
method.  Every path carries its own alias environment - local names standing for attribute / subscript /
getter chains are expanded, and an alias is dropped as soon as something it mentions is written - so that
receivers and values are expressed in terms of the instance state, whatever temporaries the code uses.
Events on a path:
   ('node', receiver_src, arg_src, ast)     <receiver>.update_reward(<arg>)
   ('learner', receiver_src, args, ast)     <base learner>.receive_reward(time, reward)
   ('lpull', receiver_src, args, ast)       <base learner>.pull(..) / .get_last_point()
   ('mean', target_src, value_ast, ast)     store into a score container (self.V_reward[..], ...)
   ('each', iter_src, [events], ast)        a for-loop whose body performs the same events for every element
   ('call', 'recv.method', args, ast)       any other method call on a non-self receiver (open(), visit(), append, ...)
   ('ret', value_src, value_ast, ast)       return <value>
   ('raise', ...)
`writes` / `seq` record attribute stores (with the stored value's source) in execution order.
"""
import ast

from .model import is_self_attr, method_name, strip_doc
from .report import AnalysisError, norm_src

LEARNER_ATTRS = {"curr_algo", "V_algo", "algorithm"}
SCORE_ATTRS = {"V_reward", "average_rewards"}
MAX_PATHS = 6000
CREDIT_KINDS = ("node", "learner", "mean", "each", "each-varying", "lpull")


def is_learner_expr(e):
    while isinstance(e, ast.Subscript):
        e = e.value
    return is_self_attr(e) and e.attr in LEARNER_ATTRS


class Path:
    def __init__(self):
        self.conds = []
        self.entry = []      # parallel to conds: the condition was evaluated on the state the method was entered with
        self.wmark = []      # parallel to conds: number of writes recorded when the condition was evaluated
        self.events = []
        self.done = False
        self.writes = []     # (target_src, stmt_src, value_src)
        self.seq = []        # ('ev', event) | ('w', target_src, value_src)
        self.env = {}        # local name -> source it stands for
        self.sym = {}        # entry mode: 'self.attr' -> source of its current value in terms of the state at method entry

    def clone(self):
        p = Path()
        p.conds = list(self.conds)
        p.entry = list(self.entry)
        p.wmark = list(self.wmark)
        p.events = list(self.events)
        p.done = self.done
        p.writes = list(self.writes)
        p.seq = list(self.seq)
        p.env = dict(self.env)
        p.sym = dict(self.sym)
        return p


def subst(e, env):
    """Substitute aliased names by the sources they stand for (AST level)."""
    if not env:
        return e

    class S(ast.NodeTransformer):
        def visit_Name(self, n):
            if isinstance(n.ctx, ast.Load) and n.id in env:
                try:
                    return ast.copy_location(ast.parse(env[n.id], mode="eval").body, n)
                except SyntaxError:
                    return n
            return n
    return S().visit(ast.parse(ast.unparse(e), mode="eval").body)


def _self_deps(src):
    try:
        e = ast.parse(src, mode="eval").body
    except SyntaxError:
        return {"?"}
    out = set()
    for n in ast.walk(e):
        if isinstance(n, ast.Attribute) and isinstance(n.value, ast.Name) and n.value.id == "self":
            out.add("self." + n.attr)
    return out


def _fresh(cond_src, p):
    """No location the condition reads has been written earlier on the path."""
    deps = _self_deps(cond_src)
    for w in p.writes:
        base = w[0].replace("[]", "").split("[")[0]
        if base in deps or "?" in deps:
            return False
    return True


def entry_conds(p):
    return [c for c, f in zip(p.conds, p.entry) if f]


def open_splats(e):
    """f(**{'a': x, 'b': y}) -> f(a=x, b=y) (after a tracked keyword dictionary was substituted for its name)."""
    class S(ast.NodeTransformer):
        def visit_Call(self, n):
            self.generic_visit(n)
            kws = []
            for k in n.keywords:
                if k.arg is None and isinstance(k.value, ast.Dict) and all(isinstance(x, ast.Constant) and isinstance(x.value, str) for x in k.value.keys):
                    kws += [ast.keyword(arg=x.value, value=v) for x, v in zip(k.value.keys, k.value.values)]
                else:
                    kws.append(k)
            n.keywords = kws
            return n
    try:
        return S().visit(e)
    except Exception:
        return e


def _ev(p, e):
    p.events.append(e)
    p.seq.append(("ev", e))


def _wr(p, w):
    p.writes.append(w)
    p.seq.append(("w", w[0], w[2] if len(w) > 2 else None))
    if ENTRY[0] and w[0].startswith("self.") and w[0][5:].isidentifier():
        return      # entry mode: aliases are rendered in entry terms, a later scalar store does not change what they denote
    invalidate(p, w[0])


def invalidate(p, target_src):
    """A location was written: aliases mentioning it no longer denote what they did."""
    base = target_src.replace("[]", "")
    key = base.split("[")[0]
    if not key:
        return
    for k in [k for k, v in p.env.items() if _mentions(v, key)]:
        del p.env[k]


def _mentions(text, key):
    i = text.find(key)
    while i >= 0:
        before = text[i - 1] if i > 0 else " "
        after = text[i + len(key)] if i + len(key) < len(text) else " "
        if not (before.isalnum() or before in "_.") and not (after.isalnum() or after == "_"):
            return True
        i = text.find(key, i + 1)
    return False


FINE = [False]
ENTRY = [False]
NOMERGE = [False]


def affine(e):
    """(terms: {source of an opaque integer term: coefficient}, constant) of an expression built with + - and constant *;
    every other sub-expression is an opaque term (after simplifying inside it)."""
    if isinstance(e, ast.Constant) and isinstance(e.value, int) and not isinstance(e.value, bool):
        return {}, e.value
    if isinstance(e, ast.UnaryOp) and isinstance(e.op, ast.USub):
        t, c = affine(e.operand)
        return {k: -v for k, v in t.items()}, -c
    if isinstance(e, ast.BinOp) and isinstance(e.op, (ast.Add, ast.Sub)):
        t1, c1 = affine(e.left)
        t2, c2 = affine(e.right)
        sg = 1 if isinstance(e.op, ast.Add) else -1
        out = dict(t1)
        for k, v in t2.items():
            out[k] = out.get(k, 0) + sg * v
        return {k: v for k, v in out.items() if v != 0}, c1 + sg * c2
    if isinstance(e, ast.BinOp) and isinstance(e.op, ast.Mult):
        for a, b in ((e.left, e.right), (e.right, e.left)):
            if isinstance(a, ast.Constant) and isinstance(a.value, int) and not isinstance(a.value, bool):
                t, c = affine(b)
                return {k: v * a.value for k, v in t.items() if v * a.value != 0}, c * a.value
    return {norm_src(simplify_ast(e)): 1}, 0


def render_affine(terms, const):
    parts = []
    for k in sorted(terms):
        v = terms[k]
        body = k if (k.replace("_", "").replace(".", "").isalnum() or k.endswith(")") or k.endswith("]")) else "(%s)" % k
        if v == 1:
            parts.append("+ " + body)
        elif v == -1:
            parts.append("- " + body)
        else:
            parts.append(("+ %d * %s" % (v, body)) if v > 0 else ("- %d * %s" % (-v, body)))
    if const or not parts:
        parts.append(("+ %d" % const) if const >= 0 else ("- %d" % -const))
    txt = " ".join(parts)
    return txt[2:] if txt.startswith("+ ") else "-" + txt[2:]


def simplify_ast(e):
    """Integer +/- arithmetic folded everywhere inside e (children first): (x + 1) - 1 -> x."""
    class S(ast.NodeTransformer):
        def visit_BinOp(self, n):
            if isinstance(n.op, (ast.Add, ast.Sub)):
                n2 = ast.BinOp(left=self.visit(n.left), op=n.op, right=self.visit(n.right))
                try:
                    t, c = affine(n2)
                    return ast.parse(render_affine(t, c), mode="eval").body
                except Exception:
                    return n2
            return self.generic_visit(n)
    try:
        return S().visit(ast.parse(ast.unparse(e), mode="eval").body)
    except RecursionError:
        return e


def canon_int_cond(src, pol):
    """Canonical form of an integer comparison: ('<affine> <= 0' | '<affine> == 0', polarity); other conditions: (text, pol).
    a < b  <=>  a - b + 1 <= 0 ;  a <= b  <=>  a - b <= 0 ;  not (a <= b)  <=>  b - a + 1 <= 0."""
    try:
        e = ast.parse(src, mode="eval").body
    except SyntaxError:
        return src, pol
    while isinstance(e, ast.UnaryOp) and isinstance(e.op, ast.Not):
        e, pol = e.operand, not pol
    if isinstance(e, ast.BoolOp):
        parts = [canon_int_cond(norm_src(v), True) for v in e.values]
        txt = (" or " if isinstance(e.op, ast.Or) else " and ").join(sorted(("%s" % t) if q else ("not (%s)" % t) for t, q in parts))
        return txt, pol
    if isinstance(e, ast.Compare) and len(e.ops) == 1 and isinstance(e.ops[0], (ast.Lt, ast.LtE, ast.Gt, ast.GtE, ast.Eq, ast.NotEq)):
        a, b, op = e.left, e.comparators[0], type(e.ops[0])
        if op in (ast.Eq, ast.NotEq):
            if op is ast.NotEq:
                pol = not pol
            t, c = affine(ast.BinOp(left=a, op=ast.Sub(), right=b))
            if not t:
                return ("%d == 0" % c), pol
            lead = t[sorted(t)[0]]
            if lead < 0:
                t, c = {k: -v for k, v in t.items()}, -c
            return render_affine(t, c) + " == 0", pol
        # bring to  X <= 0  with polarity True
        if op is ast.Gt:
            a, b, op = b, a, ast.Lt
        elif op is ast.GtE:
            a, b, op = b, a, ast.LtE
        if not pol:
            # not (a < b) <=> b <= a ; not (a <= b) <=> b < a
            a, b, op = b, a, (ast.LtE if op is ast.Lt else ast.Lt)
        t, c = affine(ast.BinOp(left=a, op=ast.Sub(), right=b))
        if op is ast.Lt:
            c += 1
        return render_affine(t, c) + " <= 0", True
    return norm_src(e), pol


class Walker:
    def __init__(self, model, cls, fine=False, entry=False):
        self.model = model
        self.cls = cls
        self.fine = fine
        self.entry = entry
        FINE[0] = fine
        ENTRY[0] = entry
        self.depth = 0
        self.functions = set()

    def run(self, fn, env=None):
        self.functions.add("%s.%s" % (self.cls, fn.name))
        p = Path()
        p.env = dict(env or {})
        return self.block(list(strip_doc(fn.body)), [p])

    def src(self, e, p):
        if not self.entry:
            return norm_src(open_splats(subst(e, p.env)))
        # entry mode: every expression is rendered in terms of the state the method was entered with - reads of scalar
        # attributes written earlier on the path are replaced by the value written, integer arithmetic is folded
        # (attribute reads of the expression itself first; alias texts are already in entry terms and are inserted verbatim)
        x = ast.parse(ast.unparse(e), mode="eval").body
        if p.sym:
            sym = p.sym

            class R(ast.NodeTransformer):
                def visit_Attribute(self, n):
                    k = None
                    if isinstance(n.ctx, ast.Load) and isinstance(n.value, ast.Name) and n.value.id == "self":
                        k = "self." + n.attr
                    if k in sym:
                        try:
                            return ast.parse("(%s)" % sym[k], mode="eval").body
                        except SyntaxError:
                            return n
                    return self.generic_visit(n)
            x = R().visit(x)
        x = subst(x, p.env)
        return norm_src(simplify_ast(x))

    def set_attr(self, p, t, value_src, op=None):
        """entry mode: record the new value of self.<attr> (source, already in entry terms)."""
        if not self.entry or not (isinstance(t, ast.Attribute) and isinstance(t.value, ast.Name) and t.value.id == "self"):
            return
        k = "self." + t.attr
        if value_src is None:
            p.sym[k] = "%s__changed" % t.attr
        elif op is None:
            p.sym[k] = value_src
        else:
            old = p.sym.get(k, k)
            p.sym[k] = norm_src(simplify_ast(ast.parse("(%s) %s (%s)" % (old, op, value_src), mode="eval").body))

    def block(self, stmts, paths):
        for s in stmts:
            live = [p for p in paths if not p.done]
            dead = [p for p in paths if p.done]
            if not live:
                break
            paths = dead + self.stmt(s, live)
            if len(paths) > MAX_PATHS:
                raise AnalysisError("more than %d paths in %s" % (MAX_PATHS, self.cls))
        return paths

    def split_test(self, test, paths):
        """(paths on which the test holds, paths on which it fails), one recorded condition per atom: `a and b`, `a or b` and
        `not a` are followed with short-circuit semantics, so every path condition is an atomic test."""
        if isinstance(test, ast.BoolOp) and isinstance(test.op, ast.And):
            t, f = self.split_test(test.values[0], paths)
            for v in test.values[1:]:
                t, f2 = self.split_test(v, t)
                f = f + f2
            return t, f
        if isinstance(test, ast.BoolOp) and isinstance(test.op, ast.Or):
            t, f = self.split_test(test.values[0], paths)
            for v in test.values[1:]:
                t2, f = self.split_test(v, f)
                t = t + t2
            return t, f
        if isinstance(test, ast.UnaryOp) and isinstance(test.op, ast.Not):
            # `not x`: the recorded test is x with the outcomes swapped (a test and its negation are one recorded condition)
            f, t = self.split_test(test.operand, paths)
            return t, f
        if isinstance(test, ast.Compare) and len(test.ops) == 1 and isinstance(test.ops[0], (ast.NotEq, ast.IsNot)):
            pos = ast.Compare(left=test.left, ops=[ast.Eq() if isinstance(test.ops[0], ast.NotEq) else ast.Is()], comparators=test.comparators)
            f, t = self.split_test(ast.copy_location(pos, test), paths)
            return t, f
        a, b = [], []
        for p in paths:
            c = self.src(test, p)
            # the same test evaluated again on an unchanged state has the same outcome: do not invent the infeasible branch
            known = None
            for i in range(len(p.conds) - 1, -1, -1):
                if p.conds[i][0] == c and i < len(p.wmark):
                    deps = _self_deps(c)
                    later = p.writes[p.wmark[i]:]
                    touched = any(w[0].replace("[]", "").split("[")[0] in deps or "?" in deps for w in later)
                    calls_since = False
                    if not touched and not any(isinstance(x, ast.Call) and not (isinstance(x.func, ast.Attribute) and x.func.attr.startswith("get_"))
                                               and not norm_src(x.func).startswith(("np.", "math.", "len"))
                                               for x in ast.walk(ast.parse(c, mode="eval"))):
                        known = p.conds[i][1]
                    break
            fresh = _fresh(c, p)
            for pol, bucket in ((True, a), (False, b)):
                if known is not None and known != pol:
                    continue
                q = p.clone()
                q.conds.append((c, pol))
                q.entry.append(fresh)
                q.wmark.append(len(p.writes))
                bucket.append(q)
        return a, b

    def aliasable(self, v):
        """Expressions a local may stand for in later receivers: attribute/subscript/getter chains."""
        for n in ast.walk(v):
            if isinstance(n, (ast.Compare, ast.BoolOp, ast.Lambda, ast.ListComp, ast.IfExp, ast.GeneratorExp)):
                return False
            if isinstance(n, ast.Call) and not (isinstance(n.func, ast.Attribute) and (n.func.attr.startswith("get_") or n.func.attr in ("keys",))):
                if isinstance(n.func, ast.Attribute) and n.func.attr == "pull" and is_learner_expr(n.func.value) and n is v:
                    continue        # the proposal obtained from a learner: a value token (compared, never re-evaluated)
                if not (isinstance(n.func, ast.Name) and n.func.id in ("len",)):
                    return False
        return isinstance(v, (ast.Attribute, ast.Subscript, ast.Call, ast.Name, ast.BinOp, ast.Constant, ast.UnaryOp))

    def stmt(self, s, paths):
        if isinstance(s, ast.Expr):
            if isinstance(s.value, ast.Constant):
                return paths
            return self.expr_effects(s.value, paths, stmt=s)
        if isinstance(s, ast.Assign):
            paths = self.expr_effects(s.value, paths, stmt=s)
            for p in paths:
                vsrc = self.src(s.value, p)
                for t in s.targets:
                    if isinstance(t, ast.Name):
                        expanded = subst(s.value, p.env)
                        selfref = t.id in [n.id for n in ast.walk(expanded) if isinstance(n, ast.Name)]
                        invalidate(p, t.id)
                        if self.aliasable(s.value) and not selfref:
                            p.env[t.id] = vsrc
                        elif isinstance(s.value, ast.Dict) and s.value.keys and not selfref and \
                                all(isinstance(k, ast.Constant) and isinstance(k.value, str) for k in s.value.keys) and \
                                all(self.aliasable(v) for v in s.value.values):
                            p.env[t.id] = vsrc      # a keyword dictionary under construction: tracked as a display
                        else:
                            p.env.pop(t.id, None)
                            if t.id in getattr(self, "entry_params", ()):
                                # a PARAMETER of the walked method is rebound to a value the walker does not track (`reward =
                                # min(reward, ..)`): what the name holds from here on is not the caller's argument any more
                                p.env[t.id] = "REBOUND(%s)" % norm_src(expanded)
                    elif isinstance(t, ast.Subscript) and isinstance(t.value, ast.Name) and p.env.get(t.value.id, "").startswith("{") and \
                            isinstance(t.slice, ast.Constant) and isinstance(t.slice.value, str) and self.aliasable(s.value):
                        # d["key"] = v on a tracked keyword dictionary
                        try:
                            dd = ast.parse(p.env[t.value.id], mode="eval").body
                            keys = [k.value for k in dd.keys]
                            if t.slice.value in keys:
                                dd.values[keys.index(t.slice.value)] = ast.parse(vsrc, mode="eval").body
                            else:
                                dd.keys.append(ast.Constant(value=t.slice.value))
                                dd.values.append(ast.parse(vsrc, mode="eval").body)
                            p.env[t.value.id] = norm_src(dd)
                        except Exception:
                            p.env.pop(t.value.id, None)
                    elif isinstance(t, ast.Subscript) and is_self_attr(t.value) and t.value.attr in SCORE_ATTRS:
                        tsrc = self.src(t, p)
                        _ev(p, ("mean", tsrc, subst(s.value, p.env), s))
                        invalidate(p, tsrc)
                    elif isinstance(t, (ast.Attribute, ast.Subscript)):
                        _wr(p, (self.src(t, p) if not (self.entry and isinstance(t, ast.Attribute)) else norm_src(t), norm_src(s), vsrc))
                        self.set_attr(p, t, vsrc)
                    elif isinstance(t, (ast.Tuple, ast.List)):
                        for e in t.elts:
                            if isinstance(e, ast.Name):
                                invalidate(p, e.id)
                                p.env.pop(e.id, None)
                            else:
                                _wr(p, (self.src(e, p), norm_src(s), None))
            return paths
        if isinstance(s, ast.AugAssign):
            paths = self.expr_effects(s.value, paths, stmt=s)
            t = s.target
            for p in paths:
                if isinstance(t, ast.Name):
                    invalidate(p, t.id)
                    p.env.pop(t.id, None)
                else:
                    tsrc = self.src(t, p) if not (self.entry and isinstance(t, ast.Attribute)) else norm_src(t)
                    vs = self.src(s.value, p)
                    _wr(p, (tsrc, "%s %s= %s" % (tsrc, _OPSYM.get(type(s.op), "?"), vs), None))
                    self.set_attr(p, t, vs, _OPSYM.get(type(s.op)))
            return paths
        if isinstance(s, ast.Return):
            if s.value is not None:
                paths = self.expr_effects(s.value, paths, stmt=s)
            for p in paths:
                if s.value is not None:
                    _ev(p, ("ret", self.src(s.value, p), subst(s.value, p.env), s))
                p.done = True
            return paths
        if isinstance(s, ast.Raise):
            for p in paths:
                p.done = True
                _ev(p, ("raise", norm_src(s), None, s))
            return paths
        if isinstance(s, ast.If):
            paths = self.expr_effects(s.test, paths, stmt=s)
            a, b = self.split_test(s.test, paths)
            out = self.block(list(s.body), a)
            out += self.block(list(s.orelse), b)
            return merge(out)
        if isinstance(s, ast.For):
            paths = self.expr_effects(s.iter, paths, stmt=s)
            out = []
            for p in paths:
                it = self.src(s.iter, p)
                bp = Path()
                bp.env = dict(p.env)
                for x in ast.walk(s.target):
                    if isinstance(x, ast.Name):
                        bp.env.pop(x.id, None)
                if isinstance(s.target, ast.Name):
                    bp.env[s.target.id] = "EACH(%s)" % it
                elif isinstance(s.target, ast.Tuple) and len(s.target.elts) == 2 and all(isinstance(e, ast.Name) for e in s.target.elts) \
                        and it.startswith("enumerate("):
                    inner = it[len("enumerate("):-1].split(", start=")[0]
                    if inner.endswith(", 1") or inner.endswith(", 0"):
                        inner = inner[:-3]
                    bp.env[s.target.elts[1].id] = "EACH(%s)" % inner
                body_paths = self.block(list(s.body), [bp])
                evsets = []
                for q in body_paths:
                    key = [(e[0], e[1], norm_src(e[2]) if isinstance(e[2], ast.AST) else (e[2] if isinstance(e[2], (list, tuple)) else str(e[2])))
                           for e in q.events if e[0] in CREDIT_KINDS]
                    if key not in evsets:
                        evsets.append(key)
                if any(k for k in evsets):
                    same = len(evsets) == 1
                    bevents = [e for e in body_paths[0].events if e[0] in CREDIT_KINDS]
                    _ev(p, ("each" if same else "each-varying", it, bevents if same else evsets, s))
                for q in body_paths:
                    for w in q.writes:
                        _wr(p, w)
                        if self.entry and w[0].startswith("self.") and w[0][5:].isidentifier():
                            p.sym[w[0]] = "%s__after_loop" % w[0][5:]
                    for e in q.events:
                        if e[0] == "call":
                            _ev(p, ("loop-call", e[1], e[2], e[3]))
                        elif e[0] == "ret":
                            _ev(p, ("loop-ret", e[1], e[2], e[3]))
                for x in ast.walk(s):
                    if isinstance(x, ast.Name) and isinstance(x.ctx, ast.Store):
                        invalidate(p, x.id)
                        p.env.pop(x.id, None)
                out.append(p)
            if s.orelse:
                has_break = any(isinstance(x, ast.Break) for b in s.body for x in ast.walk(b))
                skipped = [q.clone() for q in out] if has_break else []
                out = self.block(list(s.orelse), out) + skipped
            return out
        if isinstance(s, ast.While):
            out = []
            for p in paths:
                bp = Path()
                bp.env = dict(p.env)
                for x in ast.walk(s):
                    if isinstance(x, ast.Name) and isinstance(x.ctx, ast.Store):
                        bp.env.pop(x.id, None)
                body_paths = self.block(list(s.body), [bp])
                if any(e[0] in CREDIT_KINDS for q in body_paths for e in q.events):
                    _ev(p, ("while-credit", norm_src(s.test), None, s))
                for q in body_paths:
                    for w in q.writes:
                        _wr(p, w)
                        if self.entry and w[0].startswith("self.") and w[0][5:].isidentifier():
                            p.sym[w[0]] = "%s__after_loop" % w[0][5:]
                    for e in q.events:
                        if e[0] == "call":
                            _ev(p, ("loop-call", e[1], e[2], e[3]))
                        elif e[0] == "ret":
                            _ev(p, ("loop-ret", e[1], e[2], e[3]))
                for x in ast.walk(s):
                    if isinstance(x, ast.Name) and isinstance(x.ctx, ast.Store):
                        invalidate(p, x.id)
                        p.env.pop(x.id, None)
                out.append(p)
            return out
        if isinstance(s, (ast.Pass, ast.Break, ast.Continue, ast.FunctionDef)):
            return paths
        from .report import Uninterpretable
        raise Uninterpretable("statement %s in the analysed closure of %s" % (type(s).__name__, self.cls))

    def expr_effects(self, e, paths, stmt):
        calls = [n for n in ast.walk(e) if isinstance(n, ast.Call)]
        for call in calls:
            f = call.func
            if not isinstance(f, ast.Attribute):
                continue
            m = f.attr
            recv = f.value
            if m == "update_reward":
                for p in paths:
                    arg = self.src(call.args[0], p) if call.args else (self.src(call.keywords[0].value, p) if call.keywords else None)
                    _ev(p, ("node", self.src(recv, p), arg, call))
            elif m == "receive_reward" and not (isinstance(recv, ast.Name) and recv.id == "self"):
                for p in paths:
                    args = [self.src(a, p) for a in call.args] + ["%s=%s" % (k.arg, self.src(k.value, p)) for k in call.keywords]
                    _ev(p, ("learner", self.src(recv, p), args, call))
            elif m in ("pull", "get_last_point") and (is_learner_expr(recv) or
                                                        (isinstance(recv, ast.Name) and recv.id != "self" and
                                                         any(is_learner_expr(subst(recv, p.env)) for p in paths))):
                # (the receiver may be a local standing for a learner expression on this path)
                for p in paths:
                    args = [self.src(a, p) for a in call.args] + ["%s=%s" % (k.arg, self.src(k.value, p)) for k in call.keywords]
                    if is_learner_expr(recv) or is_learner_expr(subst(recv, p.env)):
                        _ev(p, ("lpull", self.src(recv, p), args, call))
                    else:
                        _ev(p, ("call", "%s.%s" % (self.src(recv, p), m), args, call))
            elif isinstance(recv, ast.Name) and recv.id == "self":
                o, callee = self.model.lookup(self.cls, m)
                if callee is not None and self.depth < 6:
                    params = [a.arg for a in callee.args.args][1:]
                    self.depth += 1
                    self.functions.add("%s.%s" % (self.cls, callee.name))
                    try:
                        out = []
                        for p in paths:
                            cenv = {}
                            for pn, a in zip(params, call.args):
                                cenv[pn] = self.src(a, p)
                            for k in call.keywords:
                                if k.arg in params:
                                    cenv[k.arg] = self.src(k.value, p)
                            sp0 = Path()
                            sp0.env = cenv
                            sub = self.block(list(strip_doc(callee.body)), [sp0])
                            for spath in sub:
                                q = p.clone()
                                q.conds += spath.conds
                                q.entry += [f and _fresh(c, p) for (c, _), f in zip(spath.conds, spath.entry)]
                                q.wmark += [len(p.writes) + wm for wm in spath.wmark]
                                wi = 0
                                for item in spath.seq:
                                    if item[0] == "ev":
                                        if item[1][0] == "ret":
                                            continue        # the callee's return value is not this method's return
                                        _ev(q, item[1])
                                    else:
                                        _wr(q, spath.writes[wi] if wi < len(spath.writes) else (item[1], "", item[2]))
                                        wi += 1
                                out.append(q)
                        paths = merge(out)
                    finally:
                        self.depth -= 1
            else:
                for p in paths:
                    rs = self.src(recv, p)
                    args = [self.src(a, p) for a in call.args] + ["%s=%s" % (k.arg, self.src(k.value, p)) for k in call.keywords]
                    if m in ("append", "extend", "pop", "remove", "insert", "clear", "sort", "reverse") and \
                            not isinstance(subst(recv, p.env), ast.Name):
                        _wr(p, (rs + "[]", "%s.%s(%s)" % (rs, m, ", ".join(args)), args[0] if args else None))
                    elif not (m.startswith("get_") or m in ("keys", "values", "items", "not_opened")) and \
                            not rs.startswith(("np.", "math.", "numpy.", "copy.")) and rs not in ("np", "math", "numpy", "copy"):
                        _ev(p, ("call", "%s.%s" % (rs, m), args, call))
        return paths


_OPSYM = {ast.Add: "+", ast.Sub: "-", ast.Mult: "*", ast.Div: "/"}


def merge(paths):
    """Merge paths that agree on events, termination and (in fine mode) on the order of events and writes."""
    if NOMERGE[0]:
        return list(paths)
    out = []
    seen = {}
    for p in paths:
        credits = [e for e in p.events if e[0] in CREDIT_KINDS]
        key = (tuple((e[0], e[1], norm_src(e[2]) if isinstance(e[2], ast.AST) else str(e[2])) for e in p.events), p.done,
               tuple(p.conds) if not credits else None,
               tuple((x[0], x[1] if x[0] == "w" else x[1][0]) for x in p.seq) if FINE[0] else None,
               tuple(sorted(p.env.items())) if FINE[0] else None)
        if key in seen:
            q = seen[key]
            for w in p.writes:
                if w not in q.writes:
                    q.writes.append(w)
            continue
        seen[key] = p
        out.append(p)
    return out


def method_paths(model, cls, meth, entry=False, nomerge=False):
    fn = model.lookup(cls, meth)[1]
    if fn is None:
        raise AnalysisError("%s.%s not found" % (cls, meth))
    w = Walker(model, cls, fine=True, entry=entry)
    params = [a.arg for a in fn.args.args]
    NOMERGE[0] = nomerge
    try:
        return fn, params, w.run(fn), w.functions
    finally:
        FINE[0] = False
        ENTRY[0] = False
        NOMERGE[0] = False


def credit_paths(model, cls):
    fn = model.lookup(cls, "receive_reward")[1]
    if fn is None:
        raise AnalysisError("%s.receive_reward not found" % cls)
    w = Walker(model, cls)
    params = [a.arg for a in fn.args.args]
    w.entry_params = tuple(params[1:])
    paths = w.run(fn)
    return fn, params, paths, w.functions
