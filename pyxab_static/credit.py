"""Credit-path analysis of receive_reward (rules R04-ONCE / R04-PAIR, reused by C07, C08, C09, C10).

A syntax-directed walk of receive_reward (own-method calls inlined with parameter substitution) enumerates
its paths and lists the *credit events* on each:
   ('node', receiver_src, arg_src)     <receiver>.update_reward(<arg>)
   ('learner', receiver_src, args)     <base learner>.receive_reward(time, reward)
   ('mean', target_src, value_ast)     running-mean store into a score container (self.V_reward[..], ...)
   ('each', iter_src, [events])        a for-loop whose body performs the same events for every element
"""
import ast

from .model import is_self_attr, method_name, strip_doc
from .report import AnalysisError, norm_src

LEARNER_ATTRS = {"curr_algo", "V_algo", "algorithm"}
SCORE_ATTRS = {"V_reward", "average_rewards"}
MAX_PATHS = 4000


def is_learner_expr(e):
    while isinstance(e, ast.Subscript):
        e = e.value
    return (is_self_attr(e) and e.attr in LEARNER_ATTRS) or (isinstance(e, ast.Name) and e.id == "algo")


class Path:
    def __init__(self):
        self.conds = []
        self.events = []
        self.done = False
        self.writes = []     # (target_src, stmt_src) of other attribute stores
        self.seq = []        # events and writes in execution order: ('ev', event) | ('w', target_src)

    def clone(self):
        p = Path()
        p.conds = list(self.conds)
        p.events = list(self.events)
        p.done = self.done
        p.writes = list(self.writes)
        p.seq = list(self.seq)
        return p


def subst(e, env):
    """Substitute parameter names by argument sources (AST level)."""
    if not env:
        return e

    class S(ast.NodeTransformer):
        def visit_Name(self, n):
            if isinstance(n.ctx, ast.Load) and n.id in env:
                return ast.copy_location(ast.parse(env[n.id], mode="eval").body, n)
            return n
    return S().visit(ast.parse(ast.unparse(e), mode="eval").body)


def _ev(p, e):
    p.events.append(e)
    p.seq.append(("ev", e))


def _wr(p, w):
    p.writes.append(w)
    p.seq.append(("w", w[0]))


FINE = [False]


class Walker:
    def __init__(self, model, cls, fine=False):
        self.model = model
        self.cls = cls
        self.fine = fine
        FINE[0] = fine
        self.depth = 0
        self.functions = set()

    def run(self, fn, env=None):
        self.functions.add("%s.%s" % (self.cls, fn.name))
        return self.block(list(strip_doc(fn.body)), [Path()], dict(env or {}))

    def src(self, e, env):
        return norm_src(subst(e, env))

    def block(self, stmts, paths, env):
        env = dict(env)
        for s in stmts:
            live = [p for p in paths if not p.done]
            dead = [p for p in paths if p.done]
            if not live:
                break
            paths = dead + self.stmt(s, live, env)
            if len(paths) > MAX_PATHS:
                raise AnalysisError("more than %d paths in %s" % (MAX_PATHS, self.cls))
        return paths

    def stmt(self, s, paths, env):
        if isinstance(s, ast.Expr):
            if isinstance(s.value, ast.Constant):
                return paths
            return self.expr_effects(s.value, paths, env, stmt=s)
        if isinstance(s, ast.Assign):
            paths = self.expr_effects(s.value, paths, env, stmt=s)
            for t in s.targets:
                # local alias: remember its source so that receivers are expressed in instance terms
                if isinstance(t, ast.Name):
                    env[t.id] = self.src(s.value, env) if self.aliasable(s.value) else env.get(t.id, t.id)
                    if not self.aliasable(s.value):
                        env.pop(t.id, None)
                elif isinstance(t, ast.Subscript) and is_self_attr(t.value) and t.value.attr in SCORE_ATTRS:
                    for p in paths:
                        _ev(p, ("mean", self.src(t, env), subst(s.value, env), s))
                elif isinstance(t, (ast.Attribute, ast.Subscript)):
                    for p in paths:
                        _wr(p, (self.src(t, env), norm_src(s)))
                elif isinstance(t, (ast.Tuple, ast.List)):
                    for e in t.elts:
                        if isinstance(e, ast.Name):
                            env.pop(e.id, None)
                        else:
                            for p in paths:
                                _wr(p, (self.src(e, env), norm_src(s)))
            return paths
        if isinstance(s, ast.AugAssign):
            paths = self.expr_effects(s.value, paths, env, stmt=s)
            t = s.target
            if isinstance(t, ast.Name):
                env.pop(t.id, None)
            else:
                for p in paths:
                    _wr(p, (self.src(t, env), norm_src(s)))
            return paths
        if isinstance(s, ast.Return):
            if s.value is not None:
                paths = self.expr_effects(s.value, paths, env, stmt=s)
            for p in paths:
                p.done = True
            return paths
        if isinstance(s, ast.Raise):
            for p in paths:
                p.done = True
                _ev(p, ("raise", norm_src(s), None, s))
            return paths
        if isinstance(s, ast.If):
            out = []
            c = self.src(s.test, env)
            a = [p.clone() for p in paths]
            b = [p.clone() for p in paths]
            for p in a:
                p.conds.append((c, True))
            for p in b:
                p.conds.append((c, False))
            out += self.block(list(s.body), a, env)
            out += self.block(list(s.orelse), b, env)
            return merge(out)
        if isinstance(s, ast.For):
            body_env = dict(env)
            for x in ast.walk(s.target):
                if isinstance(x, ast.Name):
                    body_env.pop(x.id, None)
            # `for v in C` / `for i in range(len(C))` with `v = C[i]` first: express v in terms of C
            it = self.src(s.iter, env)
            if isinstance(s.target, ast.Name):
                body_env[s.target.id] = "EACH(%s)" % it
            body_paths = self.block(list(s.body), [Path()], body_env)
            evsets = []
            for bp in body_paths:
                key = [(e[0], e[1], norm_src(e[2]) if isinstance(e[2], ast.AST) else e[2]) for e in bp.events if e[0] != "raise"]
                if key not in evsets:
                    evsets.append(key)
            has = any(evsets_i for evsets_i in evsets)
            if has:
                same = len(evsets) == 1
                bevents = [e for e in body_paths[0].events]
                for p in paths:
                    _ev(p, ("each" if same else "each-varying", it, bevents if same else evsets, s))
            bw = [w for bp in body_paths for w in bp.writes]
            for p in paths:
                for w in bw:
                    _wr(p, w)
            return paths
        if isinstance(s, ast.While):
            body_paths = self.block(list(s.body), [Path()], dict(env))
            if any(bp.events for bp in body_paths):
                for p in paths:
                    _ev(p, ("while-credit", norm_src(s.test), None, s))
            bw = [w for bp in body_paths for w in bp.writes]
            for p in paths:
                for w in bw:
                    _wr(p, w)
            return paths
        if isinstance(s, (ast.Pass, ast.Break, ast.Continue)):
            return paths
        raise AnalysisError("statement %s in receive_reward closure of %s" % (type(s).__name__, self.cls))

    def aliasable(self, v):
        """Expressions a local may stand for in later receivers: attribute/subscript/getter chains."""
        for n in ast.walk(v):
            if isinstance(n, (ast.BinOp, ast.Compare, ast.BoolOp, ast.Lambda, ast.ListComp, ast.IfExp)):
                return False
        return isinstance(v, (ast.Attribute, ast.Subscript, ast.Call, ast.Name))

    def expr_effects(self, e, paths, env, stmt):
        for call in [n for n in ast.walk(e) if isinstance(n, ast.Call)]:
            f = call.func
            if not isinstance(f, ast.Attribute):
                continue
            m = f.attr
            recv = f.value
            if m == "update_reward":
                arg = self.src(call.args[0], env) if call.args else (self.src(call.keywords[0].value, env) if call.keywords else None)
                for p in paths:
                    _ev(p, ("node", self.src(recv, env), arg, call))
            elif m == "receive_reward" and not (isinstance(recv, ast.Name) and recv.id == "self"):
                args = [self.src(a, env) for a in call.args] + ["%s=%s" % (k.arg, self.src(k.value, env)) for k in call.keywords]
                for p in paths:
                    _ev(p, ("learner", self.src(recv, env), args, call))
            elif m in ("pull", "get_last_point") and is_learner_expr(recv):
                args = [self.src(a, env) for a in call.args] + ["%s=%s" % (k.arg, self.src(k.value, env)) for k in call.keywords]
                for p in paths:
                    _ev(p, ("lpull", self.src(recv, env), args, call))
            elif m in ("append", "extend", "pop", "remove", "insert", "clear", "sort", "reverse") and not isinstance(recv, ast.Name):
                for p in paths:
                    _wr(p, (self.src(recv, env) + "[]", norm_src(call)))
            elif isinstance(recv, ast.Name) and recv.id == "self":
                o, callee = self.model.lookup(self.cls, m)
                if callee is not None and self.depth < 6:
                    params = [a.arg for a in callee.args.args][1:]
                    cenv = {}
                    for pn, a in zip(params, call.args):
                        cenv[pn] = self.src(a, env)
                    for k in call.keywords:
                        if k.arg in params:
                            cenv[k.arg] = self.src(k.value, env)
                    self.depth += 1
                    self.functions.add("%s.%s" % (self.cls, callee.name))
                    try:
                        sub = self.block(list(strip_doc(callee.body)), [Path()], cenv)
                    finally:
                        self.depth -= 1
                    out = []
                    for p in paths:
                        for sp in sub:
                            q = p.clone()
                            q.conds += sp.conds
                            q.events += sp.events
                            q.writes += sp.writes
                            q.seq += sp.seq
                            out.append(q)
                    paths = merge(out)
        return paths


def merge(paths):
    """Merge paths that agree on events and termination (conditions of zero-event paths are kept apart)."""
    out = []
    seen = {}
    for p in paths:
        key = (tuple((e[0], e[1], norm_src(e[2]) if isinstance(e[2], ast.AST) else str(e[2])) for e in p.events), p.done,
               tuple(p.conds) if not p.events else None,
               tuple((k, x if k == "w" else x[0]) for k, x in p.seq) if FINE[0] else None)
        if key in seen:
            q = seen[key]
            for w in p.writes:
                if w not in q.writes:
                    q.writes.append(w)
            continue
        seen[key] = p
        out.append(p)
    return out


def method_paths(model, cls, meth):
    fn = model.lookup(cls, meth)[1]
    if fn is None:
        raise AnalysisError("%s.%s not found" % (cls, meth))
    w = Walker(model, cls, fine=True)
    params = [a.arg for a in fn.args.args]
    try:
        return fn, params, w.run(fn), w.functions
    finally:
        FINE[0] = False


def credit_paths(model, cls):
    fn = model.lookup(cls, "receive_reward")[1]
    if fn is None:
        raise AnalysisError("%s.receive_reward not found" % cls)
    w = Walker(model, cls)
    params = [a.arg for a in fn.args.args]
    paths = w.run(fn)
    return fn, params, paths, w.functions
